"""Configuration of ./check for property C13 (loaded by tools/props.py)."""

PROP = {'engine': 'srv',
 'lean_props': ['MuscleModel.Props.C13'],
 'harnesses': [{'name': 'srv', 'sources': ['harness/srv.cpp']}],
 'trusted_base': ['hand-written Lean model of the reflector: node tree, path matcher, literal wildcard traversal, notification pipeline, command handlers '
                  '(lean/MuscleModel/Reflector/{Glob,Tree,Traverse,Server,Handlers}.lean, Engines/Srv.lean)',
                  'tie: harness/srv.cpp drives a real in-process ReflectServer (one ServerProcessLoop iteration at a time, real MessageIOGateways over socket '
                  "pairs); tree digest, per-node subscriber tables and every Message each client receives must equal the model's prediction line by line",
                  'clause patterns in the reflector model are the fragment {literal, \\\\c, *, ?, top-level comma}; the full pattern syntax is property C15; '
                  'glibc regcomp/regexec trusted as there',
                  'content filters in the reflector engine are int32 comparisons on one field; the full filter language is property C14',
                  'IdxOp/`notifyIndex` is the observation point of the per-subscriber log in the theorems; in-order delivery of the queued instructions to '
                  'each subscriber is covered by the correspondence run and the replay oracle, not by a theorem'],
 'assumptions': ['subscribers that restrict the indexed parent with a content filter, or that received hostile/quiet traffic, are outside the replay oracle '
                 '(the server suppresses index notifications for them by design)',
                 'subtree clone/restore destinations are plain alphanumeric names (GetDataNode(destPath) is a wildcard lookup); the model keeps an index as '
                 'a list and cannot tell "no index" from "an index that was emptied again", which CloneDataNodeSubtree\'s _indexingPresent rule can: '
                 'the generator leaves sources holding an emptied index out of the clone ops'],
 'rule': 'generated histories over 2-5 sessions on two hosts: attach/detach, SETDATA (incl. ADDTOINDEX), REMOVEDATA with wildcards, SUBSCRIBE with/without '
         'int32 filters, re-filter, unsubscribe, reflect-to-self, max-items, default route, client-to-client Messages with 0-2 key patterns, '
         'INSERTORDEREDDATA, REORDERDATA, BATCH, PING, FindMatchingNodes, and the server-side subtree calls CloneDataNodeSubtree / '
         'SaveNodeTreeToMessage / RestoreNodeTreeFromMessage made directly on a session (ops clone/save/restore: indexed sources, fresh and existing '
         'destinations, the same destination twice, a destination with its own index, source inside/above/equal to the destination, by the owner and '
         'by other sessions, subscribers joining before and after; a few percent of the ops plus a directed scenario); every 4th case is the hostile stream (arbitrary structurally valid Messages with '
         'reserved names and wrong types, quiet flags, GETDATA, JETTISONRESULTS with filters while a client is not reading, connection cuts after a byte '
         'prefix) followed by a witness ping after every op; direct oracles evaluated on the real server at every quiescent point; distinct = distinct case '
         'bodies',
 'timeout': 600}

TEXT = {'design_ref': 'DESIGN.md section 4, C13',
 'technique': 'Lean 4 theorems (log replay = server index for every handler and every history of index operations; snapshot + log; invariant "index lists '
              'existing children, each once" over every reachable server state) + differential correspondence with a real server + per-client index replay '
              'oracle',
 'text': 'Proved in Lean: the instruction text parses back (`parse_render`); for every one of InsertOrderedChild (all `before` cases incl. the unindexed '
         '"!Rmv" form), ReorderChild, RemoveIndexEntry, RemoveChild (recursive) and SetDataNode±ADDTOINDEX the instructions handed to the subscribers, '
         'replayed on the old index, give the new index (`log_replay_*`, `log_replay` for any sequence, `snapshot_then_log_replay` for a client that joins '
         'with a snapshot), every position is in range (`positions_in_range*`), a removed child leaves the index (`remove_drops_entry`), generated names are '
         'fresh (`generated_name_fresh`); the invariant "every index is duplicate-free and lists only existing children, sibling names distinct" holds in '
         'every state reachable from the empty server by attach, detach, any command of the reflector engine, subtree clones and restores, pushes and '
         'pumps (`index_sound_reach`, `index_sound_engine`, `index_sound`); CloneDataNodeSubtree (as repaired by 003a760) and '
         'RestoreNodeTreeFromMessage keep it from every state, for every source/destination relation and every saved tree (`index_sound_clone`, '
         '`index_sound_restore`), the clone loop as it was before 003a760 does not (`index_unsound_clone_before_003a760`), and the instructions a clone '
         'emits for the destination replay from its old index to its new one with every position in range (`log_replay_clone`, '
         '`log_replay_clone_loop`, `positions_in_range_clone`, `clone_emitted`).  Tie: the model reproduces the real server line by line; the harness keeps, per client and per indexed node, '
         "the index obtained by replaying every PR_RESULT_INDEXUPDATED Message and compares it with the server's DataNode index at every quiescent point, and "
         'checks the invariant on the real tree.',
 'note': 'Subtree clone/restore (CloneDataNodeSubtree, RestoreNodeTreeFromMessage) is not reachable from the client protocol of the stock server '
         '(PR_COMMAND_SETDATATREES is bounced as unimplemented); the harness calls them on the session object, followed by one '
         'PushSubscriptionMessages().  The theorems observe the log where NodeIndexChanged is called; queueing per subscriber and flushing in order is covered by correspondence '
         'only.'}
