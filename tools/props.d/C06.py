"""Configuration of ./check for property C06 (loaded by tools/props.py)."""

PROP = {'engine': 'srv',
 'lean_props': ['MuscleModel.Props.C06'],
 'harnesses': [{'name': 'srv', 'sources': ['harness/srv.cpp']}],
 'trusted_base': ['hand-written Lean model of the reflector: node tree, path matcher, literal wildcard traversal, notification pipeline, command handlers '
                  '(lean/MuscleModel/Reflector/{Glob,Tree,Traverse,Server,Handlers}.lean, Engines/Srv.lean)',
                  'tie: harness/srv.cpp drives a real in-process ReflectServer (one ServerProcessLoop iteration at a time, real MessageIOGateways over socket '
                  "pairs); tree digest, per-node subscriber tables and every Message each client receives must equal the model's prediction line by line",
                  'clause patterns in the reflector model are the fragment {literal, \\\\c, *, ?, top-level comma}; the full pattern syntax is property C15; '
                  'glibc regcomp/regexec trusted as there',
                  'content filters in the reflector engine are int32 comparisons on one field; the full filter language is property C14'],
 'assumptions': ['child names unique below root and host node (Hashtable in the code)'],
 'rule': 'generated histories over 2-5 sessions on two hosts: attach/detach, SETDATA (incl. ADDTOINDEX), REMOVEDATA with wildcards, SUBSCRIBE with/without '
         'int32 filters, re-filter, unsubscribe, reflect-to-self, max-items, default route, client-to-client Messages with 0-2 key patterns, '
         'INSERTORDEREDDATA, REORDERDATA, BATCH, PING, FindMatchingNodes; every 4th case is the hostile stream (arbitrary structurally valid Messages with '
         'reserved names and wrong types, quiet flags, GETDATA, JETTISONRESULTS with filters while a client is not reading, connection cuts after a byte '
         'prefix) followed by a witness ping after every op; direct oracles evaluated on the real server at every quiescent point; distinct = distinct case '
         'bodies',
 'timeout': 600}

TEXT = {'design_ref': 'DESIGN.md section 4, C06',
 'technique': 'Lean 4 theorems (frame property of every command and every history; departure) over the reflector model + differential correspondence + '
              'before/after digest oracle on a real server incl. connection cuts after a byte prefix',
 'text': "Proved in Lean for every server state, session and command (and every interleaved history): nodes outside the session's own subtree keep name, "
         "payload, index, child order and every other session's subscription marks (`frame_tree`, `frame_tree_foreign`, `foreign_marks_kept`, "
         '`victim_untouched`); other sessions keep subscriptions, parameters, flags and stay attached (`frame_sessions`); host and session nodes survive '
         'REMOVEDATA (`own_root_kept`); on departure the session leaves the table, its subtree is gone, the marks it held on visited nodes are cleared and '
         'nothing else changes (`departure_*`, `departure_no_marks`).  Tie: the model reproduces the real server; the harness compares a digest of everything '
         "foreign before/after every command and after a connection cut placed inside a command's byte stream, and checks that no node or subscription mark of "
         'a departed session remains.',
 'note': '`departure_no_marks` is proved for every reachable state (the coverage hypothesis of `departure_no_marks_partial`, which holds for ANY state, is '
         "discharged by C04's subscriber-table invariant `marks_correct`); privileged commands (KICK/bans) and the twin-server statement are covered by the "
         'oracle only.  Model covers the command subset of Engines/Srv.lean; arbitrary Messages are decided by the oracle alone.'}
