"""Configuration of ./check for property --force (loaded by tools/props.py)."""

