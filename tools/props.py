"""Per-property configuration of ./check."""

WIRE_TB = ['hand-written Lean model of Message::Flatten/Unflatten/FlattenedSize and the public mutators (lean/MuscleModel/Wire)',
           'type codes, protocol version, per-type wire sizes and the nesting limit are regenerated from /repo on every run (tools/extract_consts.cpp)']

SRV_H = [{'name': 'srv', 'sources': ['harness/srv.cpp']}]

PROPS = {
    'C04': {'engine': 'srv', 'lean_props': ['MuscleModel.Props.C01'], 'harnesses': SRV_H},
    'C05': {'engine': 'srv', 'lean_props': ['MuscleModel.Props.C01'], 'harnesses': SRV_H},
    'C06': {'engine': 'srv', 'lean_props': ['MuscleModel.Props.C01'], 'harnesses': SRV_H},
    'C13': {'engine': 'srv', 'lean_props': ['MuscleModel.Props.C01'], 'harnesses': SRV_H},
    'C01': {
        'engine': 'msg',
        'lean_props': ['MuscleModel.Props.C01'],
        'harnesses': [{'name': 'msg', 'sources': ['harness/msg.cpp']}],
        'trusted_base': WIRE_TB,
        'assumptions': ['sizes below 2^32 (Fits32)', 'nesting depth within MUSCLE_MAX_MESSAGE_NESTING_DEPTH', 'B_ANY_TYPE is not used as a data type code'],
        'rule': 'random op sequences over a register file of 8 Messages (add/prepend/remove/replace/rename/copy/flatten/unflatten/compare), every op executed on the real Message class and on the Lean model; flatten bytes, sizes, dumps and equality results must agree; the direct round-trip oracle runs on every flatten; distinct = distinct case bodies',
    },
}
