"""Per-property configuration of ./check: one file per property in tools/props.d/ (PROP = check config, TEXT = manifest text)."""
import glob, importlib.util, os

PROPS, TEXT = {}, {}
for _f in sorted(glob.glob(os.path.join(os.path.dirname(os.path.abspath(__file__)), 'props.d', 'C*.py'))):
    _id = os.path.basename(_f)[:-3]
    _spec = importlib.util.spec_from_file_location('props_d_' + _id, _f)
    _m = importlib.util.module_from_spec(_spec)
    _spec.loader.exec_module(_m)
    PROPS[_id] = _m.PROP
    if hasattr(_m, 'TEXT'):
        TEXT[_id] = _m.TEXT
