#!/usr/bin/env python3
"""Rewrites lean/Main.lean (engine registry) and lean/MuscleModel.lean (library root) from the files present."""
import os, re, glob
V = os.path.dirname(os.path.dirname(os.path.abspath(__file__)))
L = os.path.join(V, 'lean')
# protocol name of each engine file (Engines/<File>.lean -> name used in op streams / props.py)
NAMES = {'Msg': 'msg', 'Srv': 'srv', 'Tunnel': 'tun', 'Queue': 'q', 'Hashtable': 'ht', 'Str': 'str', 'Wildcard': 'wc',
         'Filter': 'qf', 'Pulse': 'pn', 'Gateway': 'gw', 'RWMutex': 'rw', 'Parse': 'parse', 'ThreadQueue': 'thr',
         'ThreadPool': 'tp', 'RefCount': 'rc', 'Trav': 'trav'}
engs = []
for f in sorted(glob.glob(os.path.join(L, 'MuscleModel', 'Engines', '*.lean'))):
    b = os.path.basename(f)[:-5]
    if b == 'Common':
        continue
    src = open(f).read()
    m = re.search(r'^namespace\s+(Muscle\.Eng\.\S+)', src, flags=re.M)
    if not m or b not in NAMES:
        raise SystemExit('engine file %s: no namespace Muscle.Eng.* or no protocol name in tools/genmain.py' % b)
    engs.append((NAMES[b], b, m.group(1)[len('Muscle.Eng.'):]))
main = ''.join('import MuscleModel.Engines.%s\n' % b for _, b, _ in engs) + '''
open Muscle.Eng

partial def loop (h : IO.FS.Stream) (out : IO.FS.Stream) (e : Engine) (s : e.σ) : IO Unit := do
  let line ← h.getLine
  if line.isEmpty then return ()
  let toks := tokens line
  if toks.isEmpty then loop h out e s else
  let (s', o) := e.step s toks
  out.putStrLn o
  loop h out e s'

def engines : List (String × Engine) := [
''' + ',\n'.join('  ("%s", %s.engine)' % (n, ns) for n, _, ns in engs) + '''
]

def main (args : List String) : IO UInt32 := do
  match args with
  | [name] =>
    match engines.lookup name with
    | some e =>
      let stdin ← IO.getStdin
      let stdout ← IO.getStdout
      loop stdin stdout e e.init
      return 0
    | none => IO.eprintln s!"unknown engine {name}"; return 2
  | _ => IO.eprintln "usage: mdriver <engine> < ops"; return 2
'''
open(os.path.join(L, 'Main.lean'), 'w').write(main)
# The library root imports the engines only (models + interpreters = what the driver needs).  Property and
# proof modules are built per property (`lake build MuscleModel.Props.Cxx`): lemma files of different
# properties live in one namespace per area and are never loaded into one environment together.
mods = ['MuscleModel.Engines.%s' % b for _, b, _ in engs]
open(os.path.join(L, 'MuscleModel.lean'), 'w').write(''.join('import %s\n' % m for m in mods))
print('Main.lean: %d engines; MuscleModel.lean: %d modules' % (len(engs), len(mods)))
