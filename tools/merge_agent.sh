#!/bin/bash
# dev helper: tools/merge_agent.sh /tmp/w_x/verif [base-commit]   3-way merges the agent's edits of shared files
W=$1; BASE=${2:-2752266}
cd /verif
for f in tools/extract_consts.cpp tools/vlib.py check harness/libvh/vh.h tools/mkmanifest.py FRAMEWORK.md; do
  if [ -e $W/$f ] && ! cmp -s $W/$f $f; then
    git show $BASE:$f > /tmp/merge_base 2>/dev/null || : > /tmp/merge_base
    if cmp -s /tmp/merge_base $W/$f; then continue; fi
    cp $f /tmp/merge_cur
    if git merge-file -q --union $f /tmp/merge_base $W/$f; then echo "MERGED $f"; else echo "CONFLICT $f"; fi
  fi
done
python3 - "$W" <<'PY'
import json,sys,os
w=sys.argv[1]
p=os.path.join(w,'known_findings.json')
if os.path.exists(p):
    a=json.load(open('/verif/known_findings.json')); b=json.load(open(p))
    ids={f['id'] for f in a['findings']}
    for f in b.get('findings',[]):
        if f['id'] not in ids:
            if 'properties' not in f: f['properties']=[f.get('property')]
            a['findings'].append(f); print('KNOWN +', f['id'])
    json.dump(a, open('/verif/known_findings.json','w'), indent=1)
PY
