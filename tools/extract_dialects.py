#!/usr/bin/env python3
"""Regenerates lean/MuscleModel/Generated/Dialects.lean: the wire constants as the OTHER implementations in /repo
see them right now — the C mini codec (MiniMessage.c/.h, MiniMessageGateway.c), the C micro codec (MicroMessage.c/.h,
MicroMessageGateway.c) and the Python codec (message.py, message_transceiver_thread.py).

C: one probe program per .c file, which #includes that .c file (so file-local #defines and static constants are
visible) and prints the values the C compiler computes.  Python: the modules are imported and asked.
usage: extract_dialects.py <repo> <Generated dir>"""
import os, subprocess, sys, tempfile

repo, gendir = sys.argv[1], sys.argv[2]
TYPES = ['BOOL', 'DOUBLE', 'FLOAT', 'INT64', 'INT32', 'INT16', 'INT8', 'MESSAGE', 'POINTER', 'POINT', 'RECT', 'STRING', 'RAW', 'TAG', 'ANY']
LEANNAME = {'BOOL': 'Bool', 'DOUBLE': 'Double', 'FLOAT': 'Float', 'INT64': 'Int64', 'INT32': 'Int32', 'INT16': 'Int16', 'INT8': 'Int8',
            'MESSAGE': 'Message', 'POINTER': 'Pointer', 'POINT': 'Point', 'RECT': 'Rect', 'STRING': 'String', 'RAW': 'Raw', 'TAG': 'Tag', 'ANY': 'Any'}
out = []


def probe(prefix, cfile, lines, link=()):
    """compile+run a C program that includes (cfile) and prints `name value` lines"""
    src = '#include <stdio.h>\n#include "%s"\n#define K(n, v) printf("%%s %%llu\\n", n, (unsigned long long)(v))\nint main(void) {\n%s\nreturn 0;}\n' % (cfile, '\n'.join(lines))
    with tempfile.TemporaryDirectory() as td:
        c = os.path.join(td, 'p.c'); exe = os.path.join(td, 'p')
        open(c, 'w').write(src)
        r = subprocess.run(['gcc', '-x', 'c', '-w', '-fcommon', '-I' + repo, c] + [os.path.join(repo, x) for x in link] + ['-o', exe], stdout=subprocess.PIPE, stderr=subprocess.STDOUT, text=True)
        if r.returncode != 0:
            sys.stdout.write('probe for %s does not compile:\n%s\n' % (cfile, r.stdout[-3000:])); sys.exit(1)
        r = subprocess.run([exe], stdout=subprocess.PIPE, stderr=subprocess.STDOUT, text=True)
        if r.returncode != 0:
            sys.stdout.write('probe for %s failed:\n%s\n' % (cfile, r.stdout[-3000:])); sys.exit(1)
        for l in r.stdout.splitlines():
            n, v = l.split()
            out.append('def %s%s : Nat := %s' % (prefix, n, v))


tc_lines = ['K("Tc%s", (uint32)B_%s_TYPE);' % (LEANNAME[t], t) for t in TYPES]
ver_lines = ['K("ProtocolVersion", CURRENT_PROTOCOL_VERSION);', 'K("OldestProtocolVersion", OLDEST_SUPPORTED_PROTOCOL_VERSION);']
# the per-item sizes the codecs use when they import / export fixed-size fields (ImportMMessageField's itemSize arguments,
# GetNumItemsInField's divisors): these are sizeof() of the C item types
probe('mini', 'lang/c/minimessage/MiniMessage.c', tc_lines + ver_lines + [
    'K("SzBool", sizeof(MBool));', 'K("SzInt8", sizeof(int8));', 'K("SzInt16", sizeof(int16));', 'K("SzInt32", sizeof(int32));', 'K("SzInt64", sizeof(int64));',
    'K("SzFloat", sizeof(float));', 'K("SzDouble", sizeof(double));', 'K("SzPoint", sizeof(MPoint));', 'K("SzRect", sizeof(MRect));', 'K("HeaderSize", 3*sizeof(uint32));'])
probe('miniGw', 'lang/c/minimessage/MiniMessageGateway.c', ['K("EncodingDefault", _MUSCLE_MESSAGE_ENCODING_DEFAULT);', 'K("HeaderSize", 2*sizeof(uint32));'], link=['lang/c/minimessage/MiniMessage.c'])
probe('micro', 'lang/c/micromessage/MicroMessage.c', tc_lines + ver_lines + [
    'K("SzBool", sizeof(UBool));', 'K("SzInt8", sizeof(int8));', 'K("SzInt16", sizeof(int16));', 'K("SzInt32", sizeof(int32));', 'K("SzInt64", sizeof(int64));',
    'K("SzFloat", sizeof(uint32));', 'K("SzDouble", sizeof(uint64));', 'K("SzPoint", sizeof(UPoint));', 'K("SzRect", sizeof(URect));', 'K("HeaderSize", MESSAGE_HEADER_SIZE);'])
probe('microGw', 'lang/c/micromessage/MicroMessageGateway.c', ['K("EncodingDefault", _MUSCLE_MESSAGE_ENCODING_DEFAULT);', 'K("HeaderSize", GATEWAY_HEADER_SIZE);', 'K("MessageHeaderSize", MESSAGE_HEADER_SIZE);'], link=['lang/c/micromessage/MicroMessage.c'])

py = r'''
import sys
sys.path.insert(0, sys.argv[1])
import message, message_transceiver_thread
names = %r
ln = %r
for t in names:
    if hasattr(message, 'B_%%s_TYPE' %% t):
        print('Tc' + ln[t], getattr(message, 'B_%%s_TYPE' %% t))
print('ProtocolVersion', message.CURRENT_PROTOCOL_VERSION)
m = message.Message()
for t, item in (('BOOL', True), ('INT8', 0), ('INT16', 0), ('INT32', 0), ('INT64', 0), ('FLOAT', 0.0), ('DOUBLE', 0.0), ('POINT', (0.0, 0.0)), ('RECT', (0.0, 0.0, 0.0, 0.0))):
    print('Sz' + ln[t], m.GetFieldContentsLength(getattr(message, 'B_%%s_TYPE' %% t), [item]))
print('HeaderSize', message.Message().FlattenedSize())
print('GwEncodingDefault', message_transceiver_thread.MUSCLE_MESSAGE_ENCODING_DEFAULT)
''' % (TYPES, LEANNAME)
r = subprocess.run([sys.executable, '-c', py, os.path.join(repo, 'lang', 'python3')], stdout=subprocess.PIPE, stderr=subprocess.STDOUT, text=True)
if r.returncode != 0:
    sys.stdout.write('python probe failed:\n' + r.stdout[-3000:]); sys.exit(1)
for l in r.stdout.splitlines():
    n, v = l.split()
    out.append('def py%s : Nat := %s' % (n, v))

text = '/- GENERATED by tools/extract_dialects.py from /repo on every run; do not edit. -/\nnamespace Muscle.Gen\n\n' + '\n'.join(out) + '\n\nend Muscle.Gen\n'
path = os.path.join(gendir, 'Dialects.lean')
old = open(path).read() if os.path.exists(path) else None
if old != text:
    open(path, 'w').write(text)
    print('CHANGED Dialects.lean')
