#!/usr/bin/env python3
"""tools/extract_parse_guards.py <repo> <GeneratedDir>
C02: looks at the SOURCE TEXT of <repo>/message/Message.cpp and records, for every guard the cost theorems of
lean/MuscleModel/Props/C02.lean depend on, whether the comparison against the bytes actually present (or against the
nesting limit) still textually PRECEDES the reservation / copy / recursive call it protects, inside the body of the
function that makes it.  Writes Generated/ParseGuards.lean (five `Bool` constants and the presize cap of the field table).  The instrumented parser model
(lean/MuscleModel/Wire/DecodeCost.lean) makes each check only `if <guard> && …`, so a source change that removes or
moves a guard regenerates a model in which the cost theorems are false and their proofs stop compiling.

Prints `CHANGED <file>` for a rewritten file; exits non-zero only when a function can no longer be located at all
(a guard that is merely missing or misplaced is a `false` constant, not an extractor error)."""
import os, re, sys


def strip_comments(src):
    """blank out // and /* */ comments and string literals (a guard inside a comment is not a guard); keeps offsets"""
    out, i, n = [], 0, len(src)
    while i < n:
        c = src[i]
        if src.startswith('//', i):
            j = src.find('\n', i)
            j = n if j < 0 else j
            out.append(' ' * (j - i)); i = j
        elif src.startswith('/*', i):
            j = src.find('*/', i + 2)
            j = n if j < 0 else j + 2
            out.append(re.sub(r'[^\n]', ' ', src[i:j])); i = j
        elif c == '"':
            j = i + 1
            while j < n and src[j] != '"':
                j += 2 if src[j] == '\\' else 1
            out.append('"' + ' ' * (j - i - 1) + '"'); i = j + 1
        elif c == "'":
            j = i + 1
            while j < n and src[j] != "'":
                j += 2 if src[j] == '\\' else 1
            out.append("'" + ' ' * (j - i - 1) + "'"); i = j + 1
        else:
            out.append(c); i += 1
    return ''.join(out)


def body_at(src, brace):
    """text of the balanced {...} block whose opening brace is at index `brace`"""
    depth = 0
    for i in range(brace, len(src)):
        if src[i] == '{':
            depth += 1
        elif src[i] == '}':
            depth -= 1
            if depth == 0:
                return src[brace:i + 1]
    raise ValueError('unbalanced braces')


def function_body(src, header_re, what, start=0):
    m = re.compile(header_re, re.S).search(src, start)
    if not m:
        raise ValueError(what + ' not found')
    brace = src.find('{', m.end() - 1)
    if brace < 0:
        raise ValueError(what + ': no body')
    return body_at(src, brace)


def class_body(src, name):
    m = re.search(r'\bclass\s+' + name + r'\b[^;{]*\{', src)
    if not m:
        raise ValueError('class ' + name + ' not found')
    return body_at(src, m.end() - 1)


def live_guard(body, cond_re, protected_re):
    """True iff an `if (<cond>)` whose condition is the comparison alone (not weakened by `false &&`, `0 &&`, …) and
    whose consequence returns, occurs before the first occurrence of the protected action."""
    p = re.search(protected_re, body)
    if not p:
        return False          # the protected action itself has gone: nothing the theorem could be about
    for m in re.finditer(r'\bif\s*\(', body):
        if m.start() > p.start():
            break
        # balanced condition
        depth, j = 0, m.end() - 1
        while j < len(body):
            if body[j] == '(':
                depth += 1
            elif body[j] == ')':
                depth -= 1
                if depth == 0:
                    break
            j += 1
        cond = re.sub(r'\s+', '', body[m.end():j])
        if not re.fullmatch(cond_re, cond):
            continue
        tail = body[j + 1:j + 1 + 900]
        # consequence: `return …;` directly or inside the braces that follow
        t = tail.lstrip()
        if t.startswith('return'):
            return True
        if t.startswith('{'):
            blk = body_at(t, 0)
            if re.search(r'\breturn\b', blk):
                return True
    return False


AVAIL = r'\(?unflat\.GetNumBytesAvailable\(\)'


def guards(repo):
    raw = open(os.path.join(repo, 'message', 'Message.cpp'), errors='replace').read()
    src = strip_comments(raw)
    res = {}

    # Message::Unflatten: numEntries > maxPossibleEntries (= unflat.GetNumBytesAvailable() / minBytesPerEntry) before _entries.EnsureSize(numEntries
    mu = function_body(src, r'status_t\s+Message\s*::\s*Unflatten\s*\(\s*DataUnflattener\s*&\s*unflat\s*\)\s*\{', 'Message::Unflatten')
    derived = re.search(r'maxPossibleEntries\s*=\s*unflat\.GetNumBytesAvailable\(\)\s*/\s*minBytesPerEntry\s*;', mu) is not None \
        and re.search(r'minBytesPerEntry\s*=\s*\(\s*sizeof\(uint32\)\s*\*\s*3\s*\)\s*;', mu) is not None
    res['entryCountGuard'] = derived and live_guard(mu, r'numEntries>maxPossibleEntries', r'_entries\s*\.\s*EnsureSize\s*\(')

    # …and what the table is presized for: `_entries.EnsureSize(muscleMin(numEntries, <cap>), true)` with <cap> a numeral or a
    # `const uint32 <cap> = <numeral>;` declared in this function in front of the call -> some <numeral>;
    # `_entries.EnsureSize(numEntries, …)` (the bare declared count) or anything else -> none
    res['entryPresizeCap'] = None
    em = re.search(r'_entries\s*\.\s*EnsureSize\s*\(\s*muscleMin\s*\(\s*(\w+)\s*,\s*(\w+)\s*\)\s*,', mu)
    if em and len(re.findall(r'_entries\s*\.\s*EnsureSize\s*\(', mu)) == 1:
        args = [em.group(1), em.group(2)]
        if 'numEntries' in args:
            other = args[1 - args.index('numEntries')]
            val = None
            if re.fullmatch(r'\d+[uU]?', other):
                val = int(other.rstrip('uU'))
            else:
                dm = re.search(r'\bconst\s+uint32\s+' + re.escape(other) + r'\s*=\s*(\d+)[uU]?\s*;', mu[:em.start()])
                if dm and len(re.findall(r'\b' + re.escape(other) + r'\b', mu)) == 2:   # declared once, used once: never reassigned
                    val = int(dm.group(1))
            res['entryPresizeCap'] = val

    # …and the nesting limit: _unflattenNestCount > MUSCLE_MAX_MESSAGE_NESTING_DEPTH before the first read / any recursion
    counted = re.search(r'UnflattenNestGuard\s+nestGuard\s*\(\s*_unflattenNestCount\s*\)\s*;', mu) is not None \
        and re.search(r'UnflattenNestGuard\s*\(\s*uint32\s*&\s*count\s*\)\s*:\s*_count\s*\(\s*count\s*\)\s*\{\s*_count\s*\+\+\s*;\s*\}', src) is not None
    res['nestGuard'] = counted and live_guard(mu, r'_unflattenNestCount>MUSCLE_MAX_MESSAGE_NESTING_DEPTH', r'unflat\s*\.\s*Read')

    # VariableSizeFlatObjectArray::TemplatedUnflatten: numElements > available/sizeof(uint32) before _data.EnsureSize(numElements
    vs = class_body(src, 'VariableSizeFlatObjectArray')
    vu = function_body(vs, r'status_t\s+TemplatedUnflatten\s*\(\s*DataUnflattener\s*&\s*unflat\s*\)\s*\{', 'VariableSizeFlatObjectArray::TemplatedUnflatten')
    res['strCountGuard'] = live_guard(vu, r'numElements>\(' + AVAIL + r'/sizeof\(uint32\)\)', r'_data\s*\.\s*EnsureSize\s*\(\s*numElements')

    # ByteBufferDataArray::TemplatedUnflatten: readFs > available before GetByteBufferFromPool(readFs
    bb = class_body(src, 'ByteBufferDataArray')
    bu = function_body(bb, r'status_t\s+TemplatedUnflatten\s*\(\s*DataUnflattener\s*&\s*unflat\s*\)\s*\{', 'ByteBufferDataArray::TemplatedUnflatten')
    res['rawLenGuard'] = live_guard(bu, r'readFs>' + AVAIL.replace(r'\(?', ''), r'GetByteBufferFromPool\s*\(\s*readFs')

    # MessageDataArray::TemplatedUnflatten: readFS > available before the child reader / recursive Unflatten
    md = class_body(src, 'MessageDataArray')
    du = function_body(md, r'status_t\s+TemplatedUnflatten\s*\(\s*DataUnflattener\s*&\s*unflat\s*\)\s*\{', 'MessageDataArray::TemplatedUnflatten')
    res['subMsgLenGuard'] = live_guard(du, r'readFS>' + AVAIL.replace(r'\(?', ''), r'readLimiter\s*\(\s*unflat\s*,\s*readFS|->\s*Unflatten\s*\(')
    return res


DOC = {
    'entryCountGuard': '`Message::Unflatten`: `if (numEntries > maxPossibleEntries) return …` (maxPossibleEntries = bytes available / 12)\n    precedes `_entries.EnsureSize(…)`',
    'strCountGuard': '`VariableSizeFlatObjectArray::TemplatedUnflatten`: `if (numElements > (unflat.GetNumBytesAvailable()/sizeof(uint32))) return …`\n    precedes `_data.EnsureSize(numElements, true)`',
    'rawLenGuard': '`ByteBufferDataArray::TemplatedUnflatten`: `if (readFs > unflat.GetNumBytesAvailable()) return …` precedes\n    `GetByteBufferFromPool(readFs, …)`',
    'subMsgLenGuard': '`MessageDataArray::TemplatedUnflatten`: `if (readFS > unflat.GetNumBytesAvailable()) return …` precedes the child\n    read limiter and the recursive `Unflatten`',
    'nestGuard': '`Message::Unflatten`: the per-thread nest count is incremented on entry and\n    `if (_unflattenNestCount > MUSCLE_MAX_MESSAGE_NESTING_DEPTH) return …` precedes the first read (hence any recursion)',
}
ORDER = ['entryCountGuard', 'strCountGuard', 'rawLenGuard', 'subMsgLenGuard', 'nestGuard']


def render(res):
    out = ['/- GENERATED by tools/extract_parse_guards.py from the source text of /repo/message/Message.cpp on every run; do not edit. -/',
           'namespace Muscle.Gen', '']
    for k in ORDER:
        out += ['/-- C02: ' + DOC[k] + ' -/', 'def %s : Bool := %s' % (k, 'true' if res[k] else 'false'), '']
    cap = res['entryPresizeCap']
    out += ['/-- C02: `Message::Unflatten` presizes its field table with `_entries.EnsureSize(muscleMin(numEntries, <cap>), true)`:',
            '    `some <cap>` (the numeric value of the constant); `none` = the table is presized for the bare declared count -/',
            'def entryPresizeCap : Option Nat := %s' % ('none' if cap is None else 'some %d' % cap), '']
    out += ['end Muscle.Gen', '']
    return '\n'.join(out)


def main():
    repo, gen = sys.argv[1], sys.argv[2]
    try:
        text = render(guards(repo))
    except Exception as e:   # noqa
        print('extract_parse_guards: ParseGuards.lean: %s' % e)
        return 1
    path = os.path.join(gen, 'ParseGuards.lean')
    old = open(path).read() if os.path.exists(path) else None
    if old != text:
        os.makedirs(gen, exist_ok=True)
        open(path, 'w').write(text)
        print('CHANGED ParseGuards.lean')
    return 0


if __name__ == '__main__':
    sys.exit(main())
