#!/usr/bin/env python3
"""Writes MANIFEST.json from tools/props.py + tools/manifest_text.py (so the two never drift)."""
import json, os, sys
sys.path.insert(0, os.path.dirname(os.path.abspath(__file__)))
from props import PROPS
from manifest_text import TEXT, NOT_APPLICABLE, HOOK_COMMITS

V = os.path.dirname(os.path.dirname(os.path.abspath(__file__)))
all_ids = [json.loads(l)['id'] for l in open(os.path.join(V, 'properties.jsonl'))]
checks = []
for pid in all_ids:
    if pid not in PROPS or pid not in TEXT:
        continue
    t = TEXT[pid]
    checks.append({
        'property_id': pid,
        'quick_cmd': './check %s --tier quick' % pid,
        'thorough_cmd': './check %s --tier thorough' % pid,
        'evidence_file': 'evidence/%s.json' % pid,
        'replay_cmd_template': './check %s --replay {path}' % pid,
        'engine': PROPS[pid]['engine'],
        'level_claimed': {'category': 'proof', 'text': t['text'], 'design_ref': t['design_ref']},
        'level_note': t['note'],
        'technique': t['technique'],
    })
na = [{'property_id': p, 'reason': NOT_APPLICABLE.get(p, 'check not built yet in this session (work in progress; see DESIGN.md section 4)')} for p in all_ids if p not in [c['property_id'] for c in checks]]
engines = {}
for pid, cfg in PROPS.items():
    for h in cfg['harnesses']:
        e = engines.setdefault(h['name'], {'name': h['name'], 'path': h['sources'][0], 'serves_properties': [], 'kind_free_text': 'C++ correspondence harness (real code in-process) + Lean model driver `mdriver %s`' % h.get('engine', cfg['engine'])})
        if pid not in e['serves_properties']:
            e['serves_properties'].append(pid)
m = {
    'version': 1,
    'setup_cmd': './check --setup',
    'hooks': {
        'guard': 'MUSCLE_VERIF_HOOKS',
        'enable': 'tools/vlib.py builds /repo into .build/repo with -DCMAKE_CXX_FLAGS="-DMUSCLE_VERIF_HOOKS" (ASan+UBSan) and compiles every harness with -DMUSCLE_VERIF_HOOKS',
        'baseline_off_cmd': 'cmake -G Ninja -S /repo -B /repo/_build && cmake --build /repo/_build -j16 && ctest --test-dir /repo/_build -j8 --timeout 900',
        'source_commits': HOOK_COMMITS,
        'add_only': True,
    },
    'engines': sorted(engines.values(), key=lambda e: e['name']),
    'checks': checks,
    'not_applicable': na,
    'notes': 'Technique: machine-checked proof in Lean 4 over hand-written models, tied to /repo by a correspondence check (real code vs compiled model driver on the same op streams) and by kernels/constants regenerated from the source on every run.  See DESIGN.md.',
}
json.dump(m, open(os.path.join(V, 'MANIFEST.json'), 'w'), indent=1)
print('MANIFEST.json:', len(checks), 'checks,', len(na), 'not claimed')
