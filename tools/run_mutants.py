#!/usr/bin/env python3
"""Runs ./check against code changes that are known to break a property, without touching /repo:

    tools/run_mutants.py [--jobs N] [--kind mutants|seeded|both] [--tier quick] [--checks own|all] [Cxx ...]

For every property with files under mutants/<id>/*.diff (written with the engines) or seeded/<id>/*/patch.diff
(written by people who knew only the property text), a scratch copy of /repo's working tree and of /verif is made
under --scratch (default /tmp/mutrun), the instrumented library is built there once, and then each change is
applied, `./check <id>` is run with VERIF_REPO pointing at the scratch tree, and the change is reverted.
The clean scratch tree is checked first and must pass.  Results are merged into mutants/RESULTS.json
(committed; DESIGN.md's detection table is generated from it).  The scratch directory is removed afterwards.
"""
import argparse, glob, json, os, re, shutil, subprocess, sys, time
from concurrent.futures import ThreadPoolExecutor

V = os.path.dirname(os.path.dirname(os.path.abspath(__file__)))
REPO = os.environ.get('VERIF_REPO', '/repo')
RESULTS = os.path.join(V, 'mutants', 'RESULTS.json')


def sh(cmd, **kw):
    return subprocess.run(cmd, stdout=subprocess.PIPE, stderr=subprocess.STDOUT, text=True, errors='replace', **kw)


def changes_for(pid, kind):
    out = []
    if kind in ('mutants', 'both'):
        for d in sorted(glob.glob(os.path.join(V, 'mutants', pid, '*.diff'))):
            out.append(('mutants/%s/%s' % (pid, os.path.basename(d)), d))
    if kind in ('seeded', 'both'):
        for d in sorted(glob.glob(os.path.join(V, 'seeded', pid, '*', 'patch.diff'))):
            rb = os.path.join(os.path.dirname(d), 'patch-rebased.diff')   # same change re-made after /repo moved under it
            out.append(('seeded/%s/%s' % (pid, os.path.basename(os.path.dirname(d))), rb if os.path.exists(rb) else d))
    return out


def touch_changed(diff, srepo):
    for l in open(diff, errors='replace'):
        m = re.match(r'^(?:---|\+\+\+) (?:[ab]/)?(\S+)', l)
        if m:
            f = os.path.join(srepo, m.group(1))
            if os.path.isfile(f):
                os.utime(f, None)


def run_check(sv, srepo, pid, tier, seed):
    env = dict(os.environ)
    env['VERIF_REPO'] = srepo
    env.pop('VERIF_SKIP_REPO_BUILD', None)
    t0 = time.time()
    r = sh([os.path.join(sv, 'check'), pid, '--tier', tier, '--seed', str(seed)], env=env, cwd=sv)
    lines = r.stdout.splitlines()
    vio = [l for l in lines if l.startswith('VIOLATION')]
    kinds = []
    details = []
    for l in vio:
        m = re.search(r'replay=(\S+)', l)
        if m and os.path.exists(m.group(1)):
            try:
                rp = json.load(open(m.group(1)))
                kinds.append(str(rp.get('kind', '?')))
                if len(details) < 2:
                    details.append(('%s: %s' % (rp.get('kind', '?'), str(rp.get('detail') or rp.get('broken_theorems') or ''))).replace('\n', ' ')[:400])
            except (OSError, ValueError):
                kinds.append('?')
    summ = [l for l in lines if re.match(r'^C\d\d (quick|thorough) seed', l)]
    return {'rc': r.returncode, 'violations': len(vio), 'first': [l[:300] for l in vio[:3]], 'kinds': sorted(set(kinds)), 'details': details,
            'nofail': sum('no-failing-input-found' in l for l in vio), 'summary': summ[-1] if summ else (lines[-1][:300] if lines else ''),
            'secs': int(time.time() - t0)}


def do_prop(pid, args):
    chs = changes_for(pid, args.kind)
    if args.only:
        chs = [c for c in chs if any(o in c[0] for o in args.only)]
    if not chs:
        return pid, {}
    S = os.path.join(args.scratch, pid)
    shutil.rmtree(S, ignore_errors=True)
    os.makedirs(S)
    sv, srepo = os.path.join(S, 'verif'), os.path.join(S, 'repo')
    sh(['rsync', '-a', '--exclude', '.git', '--exclude', '.build', '--exclude', 'evidence/replay', V + '/', sv + '/'])
    sh(['rsync', '-a', '--exclude', '.git', '--exclude', '_build', REPO + '/', srepo + '/'])
    res = {}
    props = [pid] if args.checks == 'own' else None
    base = run_check(sv, srepo, pid, args.tier, args.seed)
    res['_clean'] = base
    print('%s clean: rc=%d %s' % (pid, base['rc'], base['summary']), flush=True)
    if base['rc'] != 0:
        shutil.rmtree(S, ignore_errors=True)
        return pid, res
    for name, diff in chs:
        a = sh(['git', 'apply', '--whitespace=nowarn', diff], cwd=srepo)
        if a.returncode != 0:
            a = sh(['patch', '-p1', '--no-backup-if-mismatch', '-i', diff], cwd=srepo)
        if a.returncode != 0:
            res[name] = {'applied': False, 'error': a.stdout[-500:]}
            print('%s %s: DOES NOT APPLY' % (pid, name), flush=True)
            sh(['rsync', '-a', '--delete', '--exclude', '.git', '--exclude', '_build', REPO + '/', srepo + '/'])
            touch_changed(diff, srepo)
            continue
        r = run_check(sv, srepo, pid, args.tier, args.seed)
        r['applied'] = True
        r['caught'] = r['rc'] != 0 and r['violations'] > 0
        if args.checks == 'all' and not r['caught']:
            # which other property checks notice it?
            others = {}
            for other in ([x for x in args.others.split(',') if x] or args.all_ids):
                if other != pid:
                    o = run_check(sv, srepo, other, args.tier, args.seed)
                    if o['rc'] != 0:
                        others[other] = o['first'][:1]
            r['other_checks'] = others
        res[name] = r
        print('%s %s: %s (%d violation line(s), kinds %s, %ds)' % (pid, name, 'CAUGHT' if r['caught'] else 'MISSED', r['violations'], ','.join(r['kinds']), r['secs']), flush=True)
        # restore the clean tree (rsync --delete is robust against new files created by a patch) and give every file the
        # change touched a NEW modification time: rsync -a restores the old time stamp, and make/ninja and the harness
        # dependency files would then consider the objects built from the changed file up to date
        sh(['rsync', '-a', '--delete', '--exclude', '.git', '--exclude', '_build', REPO + '/', srepo + '/'])
        touch_changed(diff, srepo)
    shutil.rmtree(S, ignore_errors=True)
    return pid, res


def main():
    ap = argparse.ArgumentParser()
    ap.add_argument('ids', nargs='*')
    ap.add_argument('--jobs', type=int, default=3)
    ap.add_argument('--kind', default='both')
    ap.add_argument('--tier', default='quick')
    ap.add_argument('--seed', type=int, default=1)
    ap.add_argument('--checks', default='own')
    ap.add_argument('--only', action='append')
    ap.add_argument('--others', default='', help='with --checks all: comma-separated property ids to try when the own check misses (default: all)')
    ap.add_argument('--scratch', default='/tmp/mutrun')
    args = ap.parse_args()
    allids = sorted({os.path.basename(p) for p in glob.glob(os.path.join(V, 'mutants', 'C*')) + glob.glob(os.path.join(V, 'seeded', 'C*'))})
    args.all_ids = [os.path.basename(p)[:-3] for p in sorted(glob.glob(os.path.join(V, 'tools', 'props.d', 'C*.py')))]
    ids = args.ids or allids
    os.makedirs(args.scratch, exist_ok=True)
    results = json.load(open(RESULTS)) if os.path.exists(RESULTS) else {}
    head = sh(['git', '-C', REPO, 'rev-parse', '--short', 'HEAD']).stdout.strip()
    with ThreadPoolExecutor(args.jobs) as ex:
        for pid, res in ex.map(lambda p: do_prop(p, args), ids):
            if res:
                cur = results.setdefault(pid, {})
                for k, v in res.items():
                    v['repo_head'] = head
                    v['tier'] = args.tier
                    cur[k] = v
                json.dump(results, open(RESULTS, 'w'), indent=1, sort_keys=True)
    try:
        os.rmdir(args.scratch)
    except OSError:
        pass
    missed = [(p, k) for p in ids for k, v in results.get(p, {}).items() if k != '_clean' and v.get('applied') and not v.get('caught')]
    print('missed: %s' % missed)


if __name__ == '__main__':
    main()
