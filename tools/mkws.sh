#!/bin/bash
# dev helper: tools/mkws.sh <name>   creates a private copy of /verif in /tmp/w_<name>/verif that shares /verif's hooked library build
set -e
W=/tmp/w_$1
rm -rf $W; mkdir -p $W/verif
rsync -a --exclude .git --exclude .build /verif/ $W/verif/
mkdir -p $W/verif/.build; ln -s /verif/.build/repo $W/verif/.build/repo
echo $W/verif
