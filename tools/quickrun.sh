#!/bin/bash
# dev helper: tools/quickrun.sh <engine> <harness-src> [seed] [tier]   (does not rebuild /repo's library)
set -e
V="$(cd "$(dirname "$0")/.." && pwd)"
E=$1; SRC=$2; SEED=${3:-1}; TIER=${4:-quick}
LIB=${VERIF_LIB:-$V/.build/repo/libmuscle.a}
T=$V/.build/qr; mkdir -p $T
cd $V
g++ -std=gnu++11 -O1 -g -w -DMUSCLE_ENABLE_ZLIB_ENCODING -DMUSCLE_NO_EXCEPTIONS -DMUSCLE_VERIF_HOOKS -fsanitize=address,undefined -I/repo -Iharness $SRC $LIB -lz -lpthread -o $T/h_$E
(cd lean && lake build mdriver 2>&1 | grep -v "^✔\|^Build completed" || true)
export ASAN_OPTIONS=detect_leaks=0:allocator_may_return_null=1
export UBSAN_OPTIONS=halt_on_error=1:print_stacktrace=1
$T/h_$E gen $SEED $TIER 0 1 > $T/$E.ops
$T/h_$E run --oracle $T/$E.oracle < $T/$E.ops > $T/$E.impl || echo "HARNESS EXIT $?"
lean/.lake/build/bin/mdriver $E < $T/$E.ops > $T/$E.model
wc -l $T/$E.ops $T/$E.impl $T/$E.model $T/$E.oracle
python3 - <<PY
a=open('$T/$E.impl',errors='replace').read().split('\n'); b=open('$T/$E.model',errors='replace').read().split('\n'); o=open('$T/$E.ops',errors='replace').read().split('\n')
n=0
for i,(x,y) in enumerate(zip(a,b)):
    if x!=y and y!='?':
        n+=1
        if n<=8: print(i+1, o[i][:150], '\n   IMPL :',x[:300],'\n   MODEL:',y[:300])
print('mismatches',n, 'lines', len(a), len(b))
PY
head -5 $T/$E.oracle | cut -c1-400
