#!/bin/bash
# dev helper: quickrun.sh <engine> <harness-src> [seed] [tier]
set -e
E=$1; SRC=$2; SEED=${3:-1}; TIER=${4:-quick}
cd /verif
g++ -std=gnu++11 -O1 -g -w -DMUSCLE_ENABLE_ZLIB_ENCODING -DMUSCLE_NO_EXCEPTIONS -DMUSCLE_VERIF_HOOKS -fsanitize=address,undefined -I/repo -Iharness $SRC .build/repo/libmuscle.a -lz -lpthread -o .build/h_$E
(cd lean && lake build mdriver 2>&1 | grep -v "^✔\|^Build completed" || true)
export ASAN_OPTIONS=detect_leaks=0:allocator_may_return_null=1
.build/h_$E gen $SEED $TIER 0 1 > /tmp/$E.ops
.build/h_$E run --oracle /tmp/$E.oracle < /tmp/$E.ops > /tmp/$E.impl || echo "HARNESS EXIT $?"
lean/.lake/build/bin/mdriver $E < /tmp/$E.ops > /tmp/$E.model
wc -l /tmp/$E.ops /tmp/$E.impl /tmp/$E.model /tmp/$E.oracle
python3 - <<PY
a=open('/tmp/$E.impl',errors='replace').read().split('\n'); b=open('/tmp/$E.model',errors='replace').read().split('\n'); o=open('/tmp/$E.ops',errors='replace').read().split('\n')
n=0
for i,(x,y) in enumerate(zip(a,b)):
    if x!=y and y!='?':
        n+=1
        if n<=8: print(i+1, o[i][:150], '\n   IMPL :',x[:300],'\n   MODEL:',y[:300])
print('mismatches',n)
PY
head -5 /tmp/$E.oracle | cut -c1-400
