"""Shared machinery of ./check: builds, regeneration, Lean audit, correspondence runs, shrinking,
verdict and evidence.  Everything is derived from this file's location; nothing lives in /tmp."""
import fcntl, hashlib, json, os, re, shutil, subprocess, sys, time, glob
from concurrent.futures import ThreadPoolExecutor

VERIF = os.path.dirname(os.path.dirname(os.path.abspath(__file__)))
REPO = os.environ.get('VERIF_REPO', '/repo')
BUILD = os.path.join(VERIF, '.build')
LEAN = os.path.join(VERIF, 'lean')
REPO_BUILD = os.path.join(BUILD, 'repo')
LIB = os.path.join(REPO_BUILD, 'libmuscle.a')
MDRIVER = os.path.join(LEAN, '.lake', 'build', 'bin', 'mdriver')
WORK = os.path.join(BUILD, 'work')
EVID = os.path.join(VERIF, 'evidence')
REPLAY = os.path.join(EVID, 'replay')
GUARD = 'MUSCLE_VERIF_HOOKS'
DEFS = ['-DMUSCLE_ENABLE_ZLIB_ENCODING', '-DMUSCLE_NO_EXCEPTIONS', '-D' + GUARD]
CXXFLAGS = ['-std=gnu++11', '-O1', '-g', '-w', '-fsanitize=address,undefined'] + DEFS
ALLOWED_AXIOMS = {'propext', 'Classical.choice', 'Quot.sound'}
NCPU = os.cpu_count() or 4
# compilers, cmake and python put their temporaries here, not in /tmp: a check must not depend on (or be disturbed through) /tmp
TMP = os.path.join(BUILD, 'tmp')
os.makedirs(TMP, exist_ok=True)
os.environ['TMPDIR'] = TMP

RUN_ENV = dict(os.environ)
RUN_ENV['ASAN_OPTIONS'] = 'detect_leaks=0:allocator_may_return_null=1:abort_on_error=0:exitcode=99:handle_abort=1'
RUN_ENV['UBSAN_OPTIONS'] = 'halt_on_error=1:print_stacktrace=1:exitcode=98'


def log(*a):
    print(*a, file=sys.stderr, flush=True)


def sh(cmd, **kw):
    return subprocess.run(cmd, stdout=subprocess.PIPE, stderr=subprocess.STDOUT, text=True, errors='replace', **kw)


class Lock:
    def __init__(self, name):
        os.makedirs(BUILD, exist_ok=True)
        self.path = os.path.join(BUILD, name + '.lock')

    def __enter__(self):
        self.f = open(self.path, 'w')
        fcntl.flock(self.f, fcntl.LOCK_EX)
        return self

    def __exit__(self, *a):
        fcntl.flock(self.f, fcntl.LOCK_UN)
        self.f.close()


# --------------------------------------------------------------------------- builds

def build_repo():
    """(Re)build libmuscle.a from /repo's current working tree (hooks + ASan/UBSan), incrementally."""
    if os.environ.get('VERIF_SKIP_REPO_BUILD') and os.path.exists(LIB):
        return True, ''   # development only (several working copies sharing one library build)
    with Lock('repo'):
        if not os.path.exists(os.path.join(REPO_BUILD, 'build.ninja')):
            os.makedirs(REPO_BUILD, exist_ok=True)
            r = sh(['cmake', '-G', 'Ninja', '-S', REPO, '-B', REPO_BUILD, '-DCMAKE_BUILD_TYPE=RelWithDebInfo',
                    '-DWITH_SANITIZE=ON', '-DWITH_TESTS=OFF', '-DWITH_EXAMPLES=OFF', '-DWITH_TOOLS=OFF',
                    '-DWITH_MUSCLED=OFF', '-DWITH_QT=OFF', '-DCMAKE_CXX_FLAGS=-Wno-error -w -D' + GUARD])
            if r.returncode != 0:
                return False, r.stdout[-3000:]
        r = sh(['cmake', '--build', REPO_BUILD, '--target', 'muscle', '-j', str(NCPU)])
        if r.returncode != 0:
            return False, r.stdout[-6000:]
        return True, ''


def _deps_changed(target, depfile):
    if not os.path.exists(target) or not os.path.exists(depfile):
        return True
    t = os.path.getmtime(target)
    txt = open(depfile).read().replace('\\\n', ' ')
    deps = txt.split(':', 1)[1].split() if ':' in txt else []
    for d in deps:
        try:
            if os.path.getmtime(d) > t:
                return True
        except OSError:
            return True
    return os.path.getmtime(LIB) > t if os.path.exists(LIB) else True


CFLAGS_C = ['-O1', '-g', '-w', '-fcommon', '-fsanitize=address,undefined'] + DEFS


def build_c_object(spec):
    """Pre-build hook: compile one C source of /repo (`<path relative to /repo>[:<flag>,<flag>…]`) into an
    instrumented object.  `-fcommon` lets C files that repeat the same tentative global definitions be linked together."""
    os.makedirs(os.path.join(BUILD, 'obj'), exist_ok=True)
    rel, _, fl = spec.partition(':')
    flags = [f for f in fl.split(',') if f]
    out = os.path.join(BUILD, 'obj', re.sub(r'[^A-Za-z0-9_.=-]', '_', spec) + '.o')
    dep = out + '.d'
    with Lock('obj_' + os.path.basename(out)):
        if not _deps_changed(out, dep):
            return True, out, ''
        r = sh(['gcc'] + CFLAGS_C + flags + ['-MMD', '-MF', dep, '-I' + REPO, '-c', os.path.join(REPO, rel), '-o', out])
        if r.returncode != 0:
            if os.path.exists(out):
                os.remove(out)
            return False, out, r.stdout[-6000:]
        return True, out, ''


def build_harness(name, sources, extra=None, link_lib=True, cflags=None):
    """Compile a harness against /repo's current headers and the freshly built library.
    An `extra` entry `c:<path>` names a C source of /repo that is compiled (on every run, from the
    current source) into an object and linked in."""
    out = os.path.join(BUILD, 'h_' + name)
    dep = out + '.d'
    srcs = [os.path.join(VERIF, s) for s in sources]
    objs = []
    for x in list(extra or []):
        if x.startswith('c:'):
            ok, o, err = build_c_object(x[2:])
            if not ok:
                return False, out, 'C source %s of /repo does not compile:\n%s' % (x[2:], err)
            objs.append(o)
    extra = [x for x in (extra or []) if not x.startswith('c:')] + objs
    with Lock('h_' + name):
        # (one -MF file records the dependencies of a single translation unit only: several sources => always rebuild)
        if len(srcs) == 1 and not _deps_changed(out, dep) and all(os.path.getmtime(o) <= os.path.getmtime(out) for o in objs):
            return True, out, ''
        cmd = ['g++'] + (cflags or CXXFLAGS) + ['-MMD', '-MF', dep, '-I' + REPO, '-I' + os.path.join(VERIF, 'harness')] + srcs
        if link_lib:
            cmd += [LIB]
        cmd += (extra or []) + ['-lz', '-lpthread', '-o', out]
        r = sh(cmd)
        if r.returncode != 0:
            if os.path.exists(out):
                os.remove(out)
            return False, out, r.stdout[-6000:]
        return True, out, ''


def write_if_changed(path, text):
    old = open(path).read() if os.path.exists(path) else None
    if old != text:
        os.makedirs(os.path.dirname(path), exist_ok=True)
        with open(path, 'w') as f:
            f.write(text)
        return True
    return False


def regenerate():
    """Regenerate lean/MuscleModel/Generated/*.lean from /repo's current source."""
    changed = []
    with Lock('regen'):
        ok, exe, err = build_harness('extract_consts', ['tools/extract_consts.cpp'], cflags=['-std=gnu++11', '-O0', '-w', '-fsanitize=address,undefined'] + DEFS)
        if not ok:
            return False, 'extract_consts does not compile against /repo:\n' + err, changed
        r = subprocess.run([exe], stdout=subprocess.PIPE, stderr=subprocess.PIPE, text=True, env=RUN_ENV)
        if r.returncode != 0:
            return False, 'extract_consts failed:\n' + r.stderr[-3000:], changed
        if write_if_changed(os.path.join(LEAN, 'MuscleModel', 'Generated', 'Constants.lean'), r.stdout):
            changed.append('Constants.lean')
        # every tools/extract_*.py is an extractor: `<script> <repo> <Generated dir>`, prints `CHANGED <file>` per rewritten file
        for ext in sorted(glob.glob(os.path.join(VERIF, 'tools', 'extract_*.py'))):
            r = sh([sys.executable, ext, REPO, os.path.join(LEAN, 'MuscleModel', 'Generated')])
            if r.returncode != 0:
                return False, os.path.basename(ext) + ' failed:\n' + r.stdout[-3000:], changed
            changed += [l[8:] for l in r.stdout.splitlines() if l.startswith('CHANGED ')]
    return True, '', changed


def lake_build(targets):
    with Lock('lake'):
        r = sh(['lake', 'build'] + targets, cwd=LEAN)
        return r.returncode == 0, r.stdout


# --------------------------------------------------------------------------- Lean audit

FORBIDDEN = re.compile(r'\b(sorry|admit|native_decide|bv_decide|implemented_by|unsafe)\b|^\s*axiom\s|maxHeartbeats\s+0')


def strip_comments(src):
    src = re.sub(r'/-.*?-/', lambda m: '\n' * m.group(0).count('\n'), src, flags=re.S)
    return re.sub(r'--.*', '', src)


def grep_forbidden():
    hits = []
    for path in glob.glob(os.path.join(LEAN, '**', '*.lean'), recursive=True):
        if '/.lake/' in path:
            continue
        src = strip_comments(open(path).read())
        for i, line in enumerate(src.splitlines(), 1):
            if FORBIDDEN.search(line):
                if os.path.basename(path) == 'Main.lean' and 'partial' in line:
                    continue
                hits.append('%s:%d: %s' % (os.path.relpath(path, VERIF), i, line.strip()))
    return hits


def theorems_of(module):
    """Names of the theorems stated in a Props module (these are the registered obligations)."""
    path = os.path.join(LEAN, module.replace('.', '/') + '.lean')
    if not os.path.exists(path):
        return []
    src = strip_comments(open(path).read())
    ns, out = [], []
    for line in src.splitlines():
        m = re.match(r'\s*namespace\s+(\S+)', line)
        if m:
            ns.append(m.group(1)); continue
        m = re.match(r'\s*end\s+(\S+)', line)
        if m and ns and ns[-1] == m.group(1):
            ns.pop(); continue
        m = re.match(r'\s*(?:@\[[^\]]*\]\s*)?(?:private\s+|protected\s+)?theorem\s+([^\s:({\[]+)', line)
        if m:
            out.append('.'.join(ns + [m.group(1)]))
    return out


def leanchecker(modules):
    """Thorough tier: re-check the compiled property modules (and everything they import from this library) with
    Lean's independent re-checker of .olean files, one module per call.  Returns list of (module, error text)."""
    bad = []
    for m in modules:
        with Lock('lake'):
            r = sh(['lake', 'env', 'leanchecker', m], cwd=LEAN)
        if r.returncode != 0:
            bad.append((m, r.stdout[-1500:]))
    return bad


def audit(modules):
    """Build the property modules and print the axioms of every theorem stated in them.
    Returns dict: obligations, discharged, broken (list of (name, why)), axioms {name: [..]}, log."""
    res = {'obligations': [], 'discharged': [], 'broken': [], 'axioms': {}, 'log': ''}
    names = []
    for m in modules:
        names += [(m, n) for n in theorems_of(m)]
    res['obligations'] = [n for _, n in names]
    ok, out = lake_build(modules)
    res['log'] = out[-4000:]
    failed_modules = set()
    if not ok:
        for m in re.findall(r'✖ \[\d+/\d+\] (?:Building|Built) (\S+)', out):
            failed_modules.add(m)
        res['build_errors'] = [l for l in out.splitlines() if 'error' in l][:20]
        # anything that imports a failed module cannot be checked either: be conservative
        for m, n in names:
            res['broken'].append((n, 'module does not build: ' + ', '.join(sorted(failed_modules)) if failed_modules else 'lake build failed'))
        return res
    os.makedirs(WORK, exist_ok=True)
    tag = hashlib.sha1('|'.join(modules).encode()).hexdigest()[:10]
    af = os.path.join(WORK, 'Audit_%s_%d.lean' % (tag, os.getpid()))
    with open(af, 'w') as f:
        for m in modules:
            f.write('import %s\n' % m)
        for _, n in names:
            f.write('#print axioms %s\n' % n)
    r = sh(['lake', 'env', 'lean', af], cwd=LEAN)
    os.remove(af)
    txt = r.stdout
    for _, n in names:
        m = re.search(r"'%s' depends on axioms: \[([^\]]*)\]" % re.escape(n), txt, flags=re.S)
        if m:
            ax = [a.strip() for a in m.group(1).replace('\n', ' ').split(',') if a.strip()]
        elif re.search(r"'%s' does not depend on any axioms" % re.escape(n), txt):
            ax = []
        else:
            res['broken'].append((n, 'not found by #print axioms')); continue
        res['axioms'][n] = ax
        bad = [a for a in ax if a not in ALLOWED_AXIOMS]
        if bad:
            res['broken'].append((n, 'uses axioms outside the allowed set: ' + ', '.join(bad)))
        else:
            res['discharged'].append(n)
    hits = grep_forbidden()
    if hits:
        res['forbidden'] = hits
        for _, n in names:
            if n in res['discharged']:
                res['discharged'].remove(n)
            res['broken'].append((n, 'forbidden token in Lean sources: ' + hits[0]))
    return res


# --------------------------------------------------------------------------- running both sides

def split_cases(lines):
    """[(case_id, [op lines incl. the case line])]"""
    cases, cur = [], None
    for l in lines:
        if l.startswith('case '):
            cur = [l]; cases.append(cur)
        elif cur is not None:
            cur.append(l)
        elif l.strip():
            cur = ['case 0', l]; cases.append(cur)
    return cases


def run_impl(harness, ops_lines, timeout, tag, prop=None):
    """Run the real code on the op lines.  Survives crashes/hangs: the culprit case is recorded and
    the run resumes after it.  Returns (result_lines aligned with ops_lines, oracle_msgs, crashes)."""
    os.makedirs(WORK, exist_ok=True)
    cases = split_cases(ops_lines)
    results, oracle, crashes = [], [], []
    idx = 0
    guard = 0
    while idx < len(cases) and guard < 40:
        guard += 1
        chunk = cases[idx:]
        text = '\n'.join('\n'.join(c) for c in chunk) + '\n'
        of = os.path.join(WORK, 'oracle_%s_%d' % (tag, os.getpid()))
        try:
            p = subprocess.run([harness, 'run', '--oracle', of], input=text.encode(), stdout=subprocess.PIPE,
                               stderr=subprocess.PIPE, env=RUN_ENV, timeout=timeout)
            rc, out, err = p.returncode, p.stdout.decode(errors='replace'), p.stderr.decode(errors='replace')
        except subprocess.TimeoutExpired as e:
            rc, out, err = -999, (e.stdout or b'').decode(errors='replace'), (e.stderr or b'').decode(errors='replace') + '\nTIMEOUT after %ss' % timeout
        olines = out.split('\n')
        if olines and olines[-1] == '':
            olines.pop()
        if os.path.exists(of):
            for l in open(of, errors='replace'):
                m = re.match(r'ORACLE case=(-?\d+) line=(\d+) (.*)', l.rstrip('\n'))
                if m:
                    # an engine serving several properties prefixes its oracle messages with the property id
                    pm = re.match(r'(C\d+): ', m.group(3))
                    if prop is None or pm is None or pm.group(1) == prop:
                        oracle.append((int(m.group(1)), m.group(3)))
            os.remove(of)
        if rc == 0:
            results += olines
            idx = len(cases)
            break
        # abnormal end: find the case in progress
        done = 0
        pos = 0
        culprit = 0
        for ci, c in enumerate(chunk):
            if pos + len(c) <= len(olines):
                pos += len(c); done = ci + 1
            else:
                break
        culprit = min(done, len(chunk) - 1)
        # a case is "in progress" if its `case` line was echoed but not all of its results
        results += olines[:sum(len(c) for c in chunk[:culprit])]
        ccase = chunk[culprit]
        results += ['CRASH'] * len(ccase)
        cid = ccase[0].split()[1] if ccase[0].startswith('case ') else '?'
        crashes.append({'case': cid, 'ops': ccase, 'rc': rc, 'stderr': classify_crash(err), 'stderr_tail': err[-2500:]})
        idx += culprit + 1
    return results, oracle, crashes


def classify_crash(err):
    m = re.search(r'(ERROR: AddressSanitizer: [^\n]*|runtime error: [^\n]*|TIMEOUT[^\n]*|ASSERTION FAILED[^\n]*|muscle::Crash\(\)[^\n]*|AddressSanitizer:DEADLYSIGNAL|Segmentation fault)', err)
    kind = m.group(1) if m else 'abnormal exit'
    fr = re.search(r'#\d+ 0x[0-9a-f]+ in ((?:muscle::)?[A-Za-z_][\w:<>~, ]*)[^\n]*' + re.escape(REPO), err)
    frame = None
    for fm in re.finditer(r'#\d+ 0x[0-9a-f]+ in ([^\n]*?) (/[^\s:]+):(\d+)', err):
        if fm.group(2).startswith(REPO):
            frame = fm.group(1).strip() + ' ' + os.path.relpath(fm.group(2), REPO) + ':' + fm.group(3); break
    return kind + (' @ ' + frame if frame else '')


def run_model(engine, ops_lines, args=None, timeout=600):
    text = '\n'.join(ops_lines) + '\n'
    try:
        p = subprocess.run([MDRIVER, engine] + (args or []), input=text.encode(), stdout=subprocess.PIPE, stderr=subprocess.PIPE, timeout=timeout)
    except subprocess.TimeoutExpired:
        return None, 'model driver timed out'
    if p.returncode != 0:
        return None, p.stderr.decode(errors='replace')[-2000:]
    out = p.stdout.decode(errors='replace').split('\n')
    if out and out[-1] == '':
        out.pop()
    return out, ''


def compare(ops, impl, model):
    """indices of op lines whose results differ (model '?' = no prediction)"""
    bad = []
    n = min(len(impl), len(model))
    na = False   # the harness answered `n/a`: this recorded case names a tunable value the current build does not have
    for i in range(n):
        if i < len(ops) and ops[i].startswith('case '):
            na = False
        if impl[i] == 'n/a':
            na = True
        if na:
            continue
        if impl[i] != model[i] and model[i] != '?' and impl[i] != 'CRASH':
            bad.append(i)
    if len(impl) != len(model):
        bad.append(n)
    return bad


def case_of_line(ops, i):
    """(start, end) of the case containing op line i"""
    s = i
    while s > 0 and not ops[s].startswith('case '):
        s -= 1
    e = i + 1
    while e < len(ops) and not ops[e].startswith('case '):
        e += 1
    return s, e


class Failure:
    def __init__(self, kind, ops, detail, expected=None, observed=None):
        self.kind, self.ops, self.detail, self.expected, self.observed = kind, ops, detail, expected, observed
        self.shrunk = None


def evaluate_case(cfg, harness, ops, timeout=30):
    """Run one case on both sides; returns (mismatch lines, oracle msgs, crashes, impl, model)."""
    impl, oracle, crashes = run_impl(harness, ops, timeout, 'ev', cfg.get('pid'))
    model, merr = run_model(cfg['engine'], ops, cfg.get('model_args'))
    if model is None:
        return [0], oracle, crashes, impl, ['MODEL-ERROR ' + merr]
    return compare(ops, impl, model), oracle, crashes, impl, model


def shrink(cfg, harness, ops, kind, budget_s=25):
    """ddmin over the op lines of one failing case, keeping the failure kind."""
    head, body = ops[0], ops[1:]
    t0 = time.time()

    def fails(b):
        bad, oracle, crashes, _, _ = evaluate_case(cfg, harness, [head] + b)
        if kind == 'crash':
            return bool(crashes)
        if kind == 'oracle':
            return bool(oracle)
        return bool(bad)
    if not fails(body):
        return ops  # not reproducible in isolation: keep as is
    n = 2
    while len(body) >= 2 and time.time() - t0 < budget_s:
        chunk = max(1, len(body) // n)
        reduced = False
        for i in range(0, len(body), chunk):
            cand = body[:i] + body[i + chunk:]
            if cand and fails(cand):
                body = cand; n = max(n - 1, 2); reduced = True; break
            if time.time() - t0 > budget_s:
                break
        if not reduced:
            if chunk == 1:
                break
            n = min(len(body), n * 2)
    return [head] + body


# --------------------------------------------------------------------------- known findings

def load_known():
    p = os.path.join(VERIF, 'known_findings.json')
    if not os.path.exists(p):
        return []
    return json.load(open(p)).get('findings', [])


def match_known(prop, failure_text, known):
    for k in known:
        if k.get('status') != 'open' or prop not in k.get('properties', [k.get('property')]):
            continue
        sig = k.get('signature', {})
        pats = sig.get('all_of', [])
        if pats and all(re.search(p, failure_text, flags=re.S) for p in pats):
            return k
    return None


# --------------------------------------------------------------------------- evidence

def write_evidence(prop, data):
    os.makedirs(EVID, exist_ok=True)
    with open(os.path.join(EVID, prop + '.json'), 'w') as f:
        json.dump(data, f, indent=1, sort_keys=True)
        f.write('\n')


def save_replay(prop, name, payload):
    os.makedirs(REPLAY, exist_ok=True)
    path = os.path.join(REPLAY, '%s-%s.json' % (prop, name))
    with open(path, 'w') as f:
        json.dump(payload, f, indent=1)
        f.write('\n')
    return path
