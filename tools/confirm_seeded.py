#!/usr/bin/env python3
"""Confirms seeded changes delivered in a scratch worktree and imports the confirmed ones into /verif/seeded/<id>/<name>/:

    tools/confirm_seeded.py <property id> <worktree> [--skip-ctest] [name ...]

For every <worktree>/seeded/<name>/patch.diff: the worktree must be clean; the patch must apply with `git apply`; the
tree must build (the worktree's own _build, tests included); the pinned suite must pass (every test except testserial,
which fails on the clean tree as well — see /root/.vp/BASELINE.json); the demonstration `run.sh <worktree>` must exit
non-zero on the patched tree and zero on the clean tree.  Only then is the change copied (patch.diff, the demonstration
files, meta.json extended with what was confirmed here).  The worktree is left clean."""
import json, os, shutil, subprocess, sys, time

V = os.path.dirname(os.path.dirname(os.path.abspath(__file__)))


def sh(cmd, **kw):
    return subprocess.run(cmd, stdout=subprocess.PIPE, stderr=subprocess.STDOUT, text=True, errors='replace', **kw)


def build(wt):
    r = sh(['cmake', '--build', os.path.join(wt, '_build'), '-j', '12'])
    return r.returncode == 0, r.stdout[-1500:]


def ctest(wt):
    r = sh(['ctest', '--test-dir', os.path.join(wt, '_build'), '-j', '8', '--timeout', '900', '-E', '^testserial$'])
    tail = r.stdout[-1200:]
    import re
    m = re.search(r'(\d+)% tests passed, (\d+) tests failed out of (\d+)', r.stdout)
    failed = re.findall(r'^\s*\d+ - (\S+) \(', r.stdout, flags=re.M)
    return (m is not None and m.group(2) == '0'), (m.group(0) if m else tail), failed


def demo(wt, d):
    r = sh(['bash', os.path.join(d, 'run.sh'), wt], cwd=d, timeout=1800)
    return r.returncode, r.stdout[-1500:]


def main():
    pid, wt = sys.argv[1], sys.argv[2].rstrip('/')
    skip_ctest = '--skip-ctest' in sys.argv
    names = [a for a in sys.argv[3:] if not a.startswith('--')]
    sd = os.path.join(wt, 'seeded')
    if not names:
        names = sorted(n for n in os.listdir(sd) if os.path.exists(os.path.join(sd, n, 'patch.diff')))
    st = sh(['git', '-C', wt, 'status', '--porcelain', '--untracked-files=no']).stdout.strip()
    if st:
        print('worktree not clean:\n' + st); return 1
    if not os.path.exists(os.path.join(wt, '_build', 'CTestTestfile.cmake')):
        print('configuring tests in', wt)
        sh(['cmake', '-G', 'Ninja', '-S', wt, '-B', os.path.join(wt, '_build'), '-DCMAKE_BUILD_TYPE=RelWithDebInfo', '-DCMAKE_CXX_FLAGS=-Wno-error', '-DWITH_TESTS=ON'])
    ok, log = build(wt)
    if not ok:
        print('clean tree does not build:\n' + log); return 1
    out = {}
    for n in names:
        d = os.path.join(sd, n)
        res = {'name': n}
        t0 = time.time()
        a = sh(['git', '-C', wt, 'apply', '--whitespace=nowarn', os.path.join(d, 'patch.diff')])
        res['applies'] = a.returncode == 0
        if not res['applies']:
            res['error'] = a.stdout[-400:]; out[n] = res; print(n, 'DOES NOT APPLY'); continue
        try:
            ok, log = build(wt)
            res['builds'] = ok
            if ok:
                if skip_ctest:
                    res['ctest'] = 'skipped'
                else:
                    okc, summ, failed = ctest(wt)
                    res['ctest_ok'], res['ctest'], res['ctest_failed'] = okc, summ, failed
                rc, o = demo(wt, d)
                res['demo_patched_exit'], res['demo_patched_tail'] = rc, o[-600:]
        finally:
            sh(['git', '-C', wt, 'checkout', '--', '.'])
            sh(['git', '-C', wt, 'clean', '-fdq', '--exclude=seeded', '--exclude=_build', '--exclude=_var'])
        okb, log = build(wt)
        if res.get('builds'):
            rc, o = demo(wt, d)
            res['demo_clean_exit'], res['demo_clean_tail'] = rc, o[-300:]
        res['secs'] = int(time.time() - t0)
        res['confirmed'] = bool(res.get('builds') and (skip_ctest or res.get('ctest_ok')) and res.get('demo_patched_exit', 0) != 0 and res.get('demo_clean_exit', 1) == 0)
        out[n] = res
        print(n, 'CONFIRMED' if res['confirmed'] else 'NOT CONFIRMED', {k: v for k, v in res.items() if k in ('builds', 'ctest', 'ctest_failed', 'demo_patched_exit', 'demo_clean_exit', 'secs')}, flush=True)
        if res['confirmed']:
            dst = os.path.join(V, 'seeded', pid, n)
            shutil.rmtree(dst, ignore_errors=True)
            os.makedirs(dst)
            for f in os.listdir(d):
                p = os.path.join(d, f)
                if os.path.isfile(p) and os.path.getsize(p) < 400000 and not f.endswith(('.o', '.log')) and not os.access(p, os.X_OK) or f in ('run.sh',):
                    shutil.copy2(p, os.path.join(dst, f))
            try:
                meta = json.load(open(os.path.join(d, 'meta.json')))
            except (OSError, ValueError):
                meta = {'property': pid, 'name': n}
            meta['confirmed_here'] = {'applies': True, 'builds': True, 'suite': res.get('ctest'), 'suite_failed': res.get('ctest_failed', []),
                                      'suite_note': 'testserial excluded: it fails on the clean tree too (BASELINE.json)',
                                      'demo_patched_exit': res['demo_patched_exit'], 'demo_clean_exit': res['demo_clean_exit'],
                                      'repo_head': sh(['git', '-C', wt, 'rev-parse', '--short', 'HEAD']).stdout.strip()}
            json.dump(meta, open(os.path.join(dst, 'meta.json'), 'w'), indent=1)
    json.dump(out, open(os.path.join(sd, 'CONFIRM.json'), 'w'), indent=1)
    return 0


if __name__ == '__main__':
    sys.exit(main())
