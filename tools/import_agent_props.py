#!/usr/bin/env python3
"""dev helper: import_agent_props.py <agent verif dir> [ids...]  -> writes tools/props.d/<id>.py from the agent's props.py / manifest_text.py"""
import sys, os, pprint, importlib.util
V = os.path.dirname(os.path.dirname(os.path.abspath(__file__)))
w = sys.argv[1]
def load(path, name):
    spec = importlib.util.spec_from_file_location(name, path)
    m = importlib.util.module_from_spec(spec)
    sys.path.insert(0, os.path.dirname(path))
    spec.loader.exec_module(m)
    sys.path.pop(0)
    return m
P = load(os.path.join(w, 'tools', 'props.py'), 'agent_props').PROPS
T = load(os.path.join(w, 'tools', 'manifest_text.py'), 'agent_text').TEXT
ids = [a for a in sys.argv[2:] if not a.startswith('--')] or [i for i in P if i in T]
for i in ids:
    out = os.path.join(V, 'tools', 'props.d', i + '.py')
    if os.path.exists(out) and '--force' not in sys.argv:
        print('exists', out); continue
    with open(out, 'w') as f:
        f.write('"""Configuration of ./check for property %s (loaded by tools/props.py)."""\n\n' % i)
        f.write('PROP = ' + pprint.pformat(P[i], width=160, sort_dicts=False) + '\n\n')
        f.write('TEXT = ' + pprint.pformat(T[i], width=160, sort_dicts=False) + '\n')
    print('wrote', out)
