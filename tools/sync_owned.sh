#!/bin/bash
# dev helper: tools/sync_owned.sh <agent verif dir> <path>...   copies (overwriting) the listed files/dirs owned by that agent
W=$1; shift
for p in "$@"; do
  if [ -d $W/$p ]; then mkdir -p /verif/$p; rsync -a --delete $W/$p/ /verif/$p/; echo "SYNC dir $p";
  elif [ -e $W/$p ]; then mkdir -p /verif/$(dirname $p); cp -p $W/$p /verif/$p; echo "SYNC $p";
  else echo "MISSING $p"; fi
done
