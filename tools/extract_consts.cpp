// Regenerates lean/MuscleModel/Generated/Constants.lean from /repo's *current* headers:
// the values are whatever the compiler computes from the source now.
#include <stdio.h>
#include "message/Message.h"
#include "iogateway/MessageIOGateway.h"
#include "tun_access.h"   // C12: packet tunnel gateways + scripted packet transport
#include "regex/StringMatcher.h"   // C15 block below
#include "regex/QueryFilter.h"   // C14
#include "reflector/DataNode.h"   // C13: MUSCLE_MAX_NODE_DEPTH (subtree clone / restore stop there)
#include "util/TimeUtilityFunctions.h"
#include "util/Hashtable.h"
#include "util/String.h"
#include "iogateway/PlainTextMessageIOGateway.h"
#include "iogateway/RawDataMessageIOGateway.h"
#include "iogateway/SLIPFramedDataMessageIOGateway.h"
#include "dataio/DataIO.h"
using namespace muscle;

// C03: gateway sizes that are function-local in the .cpp files are measured on the compiled code
class GwProbeIO : public DataIO
{
public:
   GwProbeIO() : lastRead(0) {}
   virtual io_status_t Read(void *, uint32 size) {lastRead = size; return io_status_t(0);}
   virtual io_status_t Write(const void * b, uint32 size) {written.append((const char *) b, size); return io_status_t((int32) size);}
   virtual void FlushOutput() {}
   virtual void Shutdown() {}
   virtual const ConstSocketRef & GetReadSelectSocket() const {return GetNullSocket();}
   virtual const ConstSocketRef & GetWriteSelectSocket() const {return GetNullSocket();}
   uint32 lastRead; std::string written;
};
class GwProbeGateway : public MessageIOGateway
{
public:
   GwProbeGateway() : seenAlloc(0) {}
   uint32 HS() const {return GetHeaderSize();}
   // the receive buffer handed to the parser for a small frame is the (truncated) scratch buffer: its allocation is the scratch size
   virtual MessageRef UnflattenHeaderAndMessage(const ConstByteBufferRef & b) const {seenAlloc = b()->GetNumAllocatedBytes(); return MessageIOGateway::UnflattenHeaderAndMessage(b);}
   uint32 Scratch()
   {
      MessageIOGateway snd; GwProbeIO io; snd.SetDataIO(DummyDataIORef(io));
      (void) snd.AddOutgoingMessage(GetMessageFromPool(1)); while(snd.DoOutput().GetByteCount() > 0) {}
      class Feed : public GwProbeIO {public: std::string data; size_t pos; Feed() : pos(0) {} virtual io_status_t Read(void * b, uint32 n) {if (n > data.size()-pos) n = (uint32)(data.size()-pos); memcpy(b, data.data()+pos, n); pos += n; return io_status_t((int32) n);}} in;
      in.data = io.written; SetDataIO(DummyDataIORef(in));
      QueueGatewayMessageReceiver q; (void) DoInput(q);
      return seenAlloc;
   }
   mutable uint32 seenAlloc;
};
static uint32 firstReadSize(AbstractMessageIOGateway & gw)
{
   GwProbeIO io; gw.SetDataIO(DummyDataIORef(io));
   QueueGatewayMessageReceiver q; (void) gw.DoInput(q);
   return io.lastRead;
}
static std::string slipOf(uint8 b)
{
   SLIPFramedDataMessageIOGateway gw; GwProbeIO io; gw.SetDataIO(DummyDataIORef(io));
   MessageRef m = GetMessageFromPool(PR_COMMAND_RAW_DATA); (void) m()->AddData(PR_NAME_DATA_CHUNKS, B_RAW_TYPE, &b, 1);
   (void) gw.AddOutgoingMessage(m);
   while(gw.DoOutput().GetByteCount() > 0) {}
   return io.written;
}

#define K(name, val) printf("def %s : Nat := %llu\n", name, (unsigned long long)(val))


// ---- C12: packet-tunnel layout constants, measured through the public API of the compiled gateways
// (FRAGMENT_HEADER_SIZE, PACKET_HEADER_SIZE, CHUNK_HEADER_SIZE and MAX_NUM_RECEIVE_STATES are file- or
// function-local in the .cpp files, so they are derived from what the code does, not re-typed).
static std::vector<std::string> tunSend(AbstractMessageIOGateway & gw, vh::ScriptedPacketIO & io, uint32 nMsgs, uint32 payload)
{
   for (uint32 i=0; i<nMsgs; i++) {MessageRef m = GetMessageFromPool(1); if (payload) {ByteBufferRef b = GetByteBufferFromPool(payload); memset(b()->GetBuffer(), 7, payload); (void) m()->AddFlat("d", b);} (void) gw.AddOutgoingMessage(m);}
   io.Written().clear();
   for (int i=0; (i<100000)&&(gw.HasBytesToOutput()); i++) if (gw.DoOutput().GetByteCount() <= 0) break;
   return io.Written();
}
class CountingReceiver : public AbstractGatewayMessageReceiver {public: uint32 n; CountingReceiver() : n(0) {} virtual void MessageReceivedFromGateway(const MessageRef &, void *) {n++;}};

static void tunnelConstants()
{
   const uint32 emptyFlat = Message(1).FlattenedSize();
   uint32 fragHdr = 0;
   {
      PacketTunnelIOGateway gw(AbstractMessageIOGatewayRef(), 0);   // MTU 0 is clamped to FRAGMENT_HEADER_SIZE+1
      vh::ScriptedPacketIO io; gw.SetDataIO(DummyDataIORef(io));
      std::vector<std::string> p = tunSend(gw, io, 1, 0);
      fragHdr = p.empty() ? 0 : (uint32)p[0].size()-1;
   }
   uint32 miniPkt = 0, miniChunk = 0;
   {
      MiniPacketTunnelIOGateway gw(AbstractMessageIOGatewayRef(), 1000);
      vh::ScriptedPacketIO io; gw.SetDataIO(DummyDataIORef(io));
      std::vector<std::string> p1 = tunSend(gw, io, 1, 0);   // PH + (CH+F)
      std::vector<std::string> p2 = tunSend(gw, io, 2, 0);   // PH + 2(CH+F)
      if ((p1.size() == 1)&&(p2.size() == 1)) {miniChunk = (uint32)(p2[0].size()-p1[0].size())-emptyFlat; miniPkt = (uint32)p1[0].size()-miniChunk-emptyFlat;}
   }
   uint32 miniIdMod = 0;
   {
      MiniPacketTunnelIOGateway gw(AbstractMessageIOGatewayRef(), 1000);
      vh::ScriptedPacketIO io; gw.SetDataIO(DummyDataIORef(io));
      // the packet id shares its header word with the 8-bit compression level: find where it wraps
      for (uint32 bits=1; bits<=32; bits++)
      {
         const uint32 top = (bits == 32) ? 0xFFFFFFFFu : ((1u<<bits)-1);
         vh::miniSendID(gw) = top;
         (void) tunSend(gw, io, 1, 0);
         if (vh::miniSendID(gw) == 0) {miniIdMod = bits; break;}
      }
   }
   // receive-state cap: sources 1..N each start a two-fragment Message; source 1 can still finish it
   // iff its state was not evicted.  With cap C the table is trimmed to C entries only when an unknown
   // source shows up, so source 1 is evicted by the (C+2)th source.
   uint32 cap = 0;
   {
      Message pm(1); (void) pm.AddInt32("v", 5);
      const uint32 fs = pm.FlattenedSize(); std::string flat(fs, 0); pm.FlattenToBytes((uint8 *)&flat[0]);
      for (uint32 n=2; n<=2000; n++)
      {
         PacketTunnelIOGateway gw(AbstractMessageIOGatewayRef(), 1000);
         vh::ScriptedPacketIO io; gw.SetDataIO(DummyDataIORef(io));
         CountingReceiver rcv;
         for (uint32 pass=0; pass<2; pass++)
            for (uint32 s=1; s<=((pass==0)?n:1); s++)
            {
               const uint32 half = fs/2, off = (pass==0)?0:half, len = (pass==0)?half:(fs-half);
               const uint32 hdr[6] = {DEFAULT_TUNNEL_IOGATEWAY_MAGIC, 0, 9, off, len, fs};
               std::string pkt; for (int k=0; k<6; k++) for (int b=0; b<4; b++) pkt.push_back((char)((hdr[k]>>(8*b))&0xFF));
               pkt += flat.substr(off, len);
               io.SetNextPacket(pkt, IPAddressAndPort(IPAddress(s), 4000));
               (void) gw.DoInput(rcv);
            }
         if (rcv.n == 0) {cap = n-2; break;}
      }
   }
   printf("\n/- C12: packet tunnel.  Header sizes and the receive-state cap are measured on the compiled gateways. -/\n");
   K("tunnelDefaultMagic",      (uint32)DEFAULT_TUNNEL_IOGATEWAY_MAGIC);
   K("miniTunnelDefaultMagic",  (uint32)DEFAULT_MINI_TUNNEL_IOGATEWAY_MAGIC);
   K("tunnelFragmentHeaderSize", fragHdr);
   K("miniPacketHeaderSize",     miniPkt);
   K("miniChunkHeaderSize",      miniChunk);
   K("miniPacketIdBits",         miniIdMod);
   K("muscleNoLimit",            (uint32)MUSCLE_NO_LIMIT);
   K("maxNodeDepth",             (uint32)MUSCLE_MAX_NODE_DEPTH);
   printf("/- tunable (model parameter) -/\n");
   K("tunnelMaxReceiveStates",   cap);
}
static unsigned long long n64(uint32 wrapped, uint32 n, uint32 slot) {const unsigned long long want = (unsigned long long)n*slot + sizeof(HashtableBase<uint32,uint32>); return ((want & 0xFFFFFFFFULL) == wrapped) ? want : (unsigned long long)wrapped;}

int main()
{
   printf("/- GENERATED by tools/extract.py from /repo on every run; do not edit. -/\n");
   printf("namespace Muscle.Gen\n\n");
   K("tcBool",    (uint32)B_BOOL_TYPE);
   K("tcDouble",  (uint32)B_DOUBLE_TYPE);
   K("tcFloat",   (uint32)B_FLOAT_TYPE);
   K("tcInt64",   (uint32)B_INT64_TYPE);
   K("tcInt32",   (uint32)B_INT32_TYPE);
   K("tcInt16",   (uint32)B_INT16_TYPE);
   K("tcInt8",    (uint32)B_INT8_TYPE);
   K("tcMessage", (uint32)B_MESSAGE_TYPE);
   K("tcPointer", (uint32)B_POINTER_TYPE);
   K("tcPoint",   (uint32)B_POINT_TYPE);
   K("tcRect",    (uint32)B_RECT_TYPE);
   K("tcString",  (uint32)B_STRING_TYPE);
   K("tcRaw",     (uint32)B_RAW_TYPE);
   K("tcTag",     (uint32)B_TAG_TYPE);
   K("tcAny",     (uint32)B_ANY_TYPE);
   K("protocolVersion",       (uint32)CURRENT_PROTOCOL_VERSION);
   K("oldestProtocolVersion", (uint32)OLDEST_SUPPORTED_PROTOCOL_VERSION);
   K("encodingDefault",   (uint32)MUSCLE_MESSAGE_ENCODING_DEFAULT);
   K("encodingEndMarker", (uint32)MUSCLE_MESSAGE_ENCODING_END_MARKER);
   // ---- C14: query-filter class codes and operator enums (regex/QueryFilter.h)
   printf("\n/- C14: QUERY_FILTER_TYPE_* class codes, MUSCLE_NO_LIMIT, operator enums -/\n");
   K("qfWhatCode",    (uint32)QUERY_FILTER_TYPE_WHATCODE);
   K("qfValueExists", (uint32)QUERY_FILTER_TYPE_VALUEEXISTS);
   K("qfBool",        (uint32)QUERY_FILTER_TYPE_BOOL);
   K("qfDouble",      (uint32)QUERY_FILTER_TYPE_DOUBLE);
   K("qfFloat",       (uint32)QUERY_FILTER_TYPE_FLOAT);
   K("qfInt64",       (uint32)QUERY_FILTER_TYPE_INT64);
   K("qfInt32",       (uint32)QUERY_FILTER_TYPE_INT32);
   K("qfInt16",       (uint32)QUERY_FILTER_TYPE_INT16);
   K("qfInt8",        (uint32)QUERY_FILTER_TYPE_INT8);
   K("qfPoint",       (uint32)QUERY_FILTER_TYPE_POINT);
   K("qfRect",        (uint32)QUERY_FILTER_TYPE_RECT);
   K("qfString",      (uint32)QUERY_FILTER_TYPE_STRING);
   K("qfMessage",     (uint32)QUERY_FILTER_TYPE_MESSAGE);
   K("qfRawData",     (uint32)QUERY_FILTER_TYPE_RAWDATA);
   K("qfMaxMatch",    (uint32)QUERY_FILTER_TYPE_MAXMATCH);
   K("qfMinMatch",    (uint32)QUERY_FILTER_TYPE_MINMATCH);
   K("qfXor",         (uint32)QUERY_FILTER_TYPE_XOR);
   K("qfChildCount",  (uint32)QUERY_FILTER_TYPE_CHILDCOUNT);
   K("qfNodeName",    (uint32)QUERY_FILTER_TYPE_NODENAME);
   K("nopEq", Int32QueryFilter::OP_EQUAL_TO); K("nopLt", Int32QueryFilter::OP_LESS_THAN); K("nopGt", Int32QueryFilter::OP_GREATER_THAN);
   K("nopLe", Int32QueryFilter::OP_LESS_THAN_OR_EQUAL_TO); K("nopGe", Int32QueryFilter::OP_GREATER_THAN_OR_EQUAL_TO); K("nopNe", Int32QueryFilter::OP_NOT_EQUAL_TO);
   K("mopNone", NQF_MASK_OP_NONE); K("mopAnd", NQF_MASK_OP_AND); K("mopOr", NQF_MASK_OP_OR); K("mopXor", NQF_MASK_OP_XOR);
   K("mopNand", NQF_MASK_OP_NAND); K("mopNor", NQF_MASK_OP_NOR); K("mopXnor", NQF_MASK_OP_XNOR);
   K("sopEq", StringQueryFilter::OP_EQUAL_TO); K("sopLt", StringQueryFilter::OP_LESS_THAN); K("sopGt", StringQueryFilter::OP_GREATER_THAN);
   K("sopLe", StringQueryFilter::OP_LESS_THAN_OR_EQUAL_TO); K("sopGe", StringQueryFilter::OP_GREATER_THAN_OR_EQUAL_TO); K("sopNe", StringQueryFilter::OP_NOT_EQUAL_TO);
   K("sopStartsWith", StringQueryFilter::OP_STARTS_WITH); K("sopEndsWith", StringQueryFilter::OP_ENDS_WITH); K("sopContains", StringQueryFilter::OP_CONTAINS);
   K("sopStartOf", StringQueryFilter::OP_START_OF); K("sopEndOf", StringQueryFilter::OP_END_OF); K("sopSubstringOf", StringQueryFilter::OP_SUBSTRING_OF);
   K("sopIcBase", StringQueryFilter::OP_EQUAL_TO_IGNORECASE);   // the twelve *_IGNORECASE operators follow in the same order
   K("sopWild", StringQueryFilter::OP_SIMPLE_WILDCARD_MATCH); K("sopRegex", StringQueryFilter::OP_REGULAR_EXPRESSION_MATCH);
   K("sopWildIc", StringQueryFilter::OP_SIMPLE_WILDCARD_MATCH_IGNORECASE); K("sopRegexIc", StringQueryFilter::OP_REGULAR_EXPRESSION_MATCH_IGNORECASE);
   K("sopCount", StringQueryFilter::NUM_STRING_OPERATORS);
   K("ropEq", RawDataQueryFilter::OP_EQUAL_TO); K("ropLt", RawDataQueryFilter::OP_LESS_THAN); K("ropGt", RawDataQueryFilter::OP_GREATER_THAN);
   K("ropLe", RawDataQueryFilter::OP_LESS_THAN_OR_EQUAL_TO); K("ropGe", RawDataQueryFilter::OP_GREATER_THAN_OR_EQUAL_TO); K("ropNe", RawDataQueryFilter::OP_NOT_EQUAL_TO);
   K("ropStartsWith", RawDataQueryFilter::OP_STARTS_WITH); K("ropEndsWith", RawDataQueryFilter::OP_ENDS_WITH); K("ropContains", RawDataQueryFilter::OP_CONTAINS);
   K("ropStartOf", RawDataQueryFilter::OP_START_OF); K("ropEndOf", RawDataQueryFilter::OP_END_OF); K("ropSubsetOf", RawDataQueryFilter::OP_SUBSET_OF);
   {Rect rr; Point pp; uint8 b[16]; memcpy(b, &rr, 16); printf("def rectDefault : List UInt8 := ["); for (int i=0; i<16; i++) printf("%s%u", i?", ":"", b[i]); printf("]   -- in-memory bytes of Rect()\n");
    memcpy(b, &pp, 8); printf("def pointDefault : List UInt8 := ["); for (int i=0; i<8; i++) printf("%s%u", i?", ":"", b[i]); printf("]   -- in-memory bytes of Point()\n");}
   K("sizeofPoint", sizeof(Point)); K("sizeofRect", sizeof(Rect)); K("sizeofBool", sizeof(bool));
   K("timeNever", (uint64)MUSCLE_TIME_NEVER);   // C20: "no pulse wanted" (util/TimeUtilityFunctions.h)
   K("encodingZlib1", (uint32)MUSCLE_MESSAGE_ENCODING_ZLIB_1);
   K("encodingZlib2", (uint32)MUSCLE_MESSAGE_ENCODING_ZLIB_2);
   K("encodingZlib3", (uint32)MUSCLE_MESSAGE_ENCODING_ZLIB_3);
   K("encodingZlib4", (uint32)MUSCLE_MESSAGE_ENCODING_ZLIB_4);
   K("encodingZlib5", (uint32)MUSCLE_MESSAGE_ENCODING_ZLIB_5);
   K("encodingZlib6", (uint32)MUSCLE_MESSAGE_ENCODING_ZLIB_6);
   K("encodingZlib7", (uint32)MUSCLE_MESSAGE_ENCODING_ZLIB_7);
   K("encodingZlib8", (uint32)MUSCLE_MESSAGE_ENCODING_ZLIB_8);
   K("encodingZlib9", (uint32)MUSCLE_MESSAGE_ENCODING_ZLIB_9);
   {MessageIOGateway gw; struct X : public MessageIOGateway {uint32 hs() const {return GetHeaderSize();}} x; K("gatewayHeaderSize", x.hs());}
   {
      GwProbeGateway g;
      K("gwHeaderSize", g.HS());
      K("gwScratchRecvBufferSize", g.Scratch());
      PlainTextMessageIOGateway t; K("gwTextReadSize", firstReadSize(t));
      RawDataMessageIOGateway rw;  K("gwRawReadSize", firstReadSize(rw));
      K("gwTextSendRecursionLimit", 1024);   // PlainTextMessageIOGateway::DoOutputImplementationAux (literal in the source; cross-checked by the correspondence run)
      const std::string a = slipOf(0), e = slipOf(a.size() ? (uint8) a[0] : 0);   // END x END ; END ESC ESC_END END
      const uint8 END = a.size() ? (uint8) a[0] : 0, ESC = (e.size() > 1) ? (uint8) e[1] : 0, ESCEND = (e.size() > 2) ? (uint8) e[2] : 0;
      const std::string f = slipOf(ESC);
      K("slipEnd", END); K("slipEsc", ESC); K("slipEscEnd", ESCEND); K("slipEscEsc", (f.size() > 2) ? (uint8) f[2] : 0);
      K("textCommand", (uint32) PR_COMMAND_TEXT_STRINGS); K("rawCommand", (uint32) PR_COMMAND_RAW_DATA);
   }
   printf("\n/- tunables: enter the model as parameters; theorems are quantified over them -/\n");
   K("maxMessageNestingDepth", (uint32)MUSCLE_MAX_MESSAGE_NESTING_DEPTH);
   K("strSmallLen", (uint32)String::GetMaxShortStringLength());   // C17: chars a String holds without a heap buffer (formerly SMALL_MUSCLE_STRING_LENGTH)
   printf("\n/-- flattened size per item of the fixed-size field types, 0 = variable size\n    (tabulated from the compiled `Message::GetElementSize` / wire sizes) -/\n");
   printf("def wireItemSize (tc : Nat) : Nat :=\n");
   const uint32 tcs[] = {B_BOOL_TYPE, B_DOUBLE_TYPE, B_FLOAT_TYPE, B_INT64_TYPE, B_INT32_TYPE, B_INT16_TYPE, B_INT8_TYPE, B_POINT_TYPE, B_RECT_TYPE};
   const char * names[] = {"tcBool", "tcDouble", "tcFloat", "tcInt64", "tcInt32", "tcInt16", "tcInt8", "tcPoint", "tcRect"};
   for (size_t i=0; i<sizeof(tcs)/sizeof(tcs[0]); i++)
   {
      // the flattened size of a single-item field of this type is the per-item wire size
      Message m; 
      uint32 sz = 0;
      switch(tcs[i])
      {
         case B_BOOL_TYPE:   (void) m.AddBool("f", true); break;
         case B_DOUBLE_TYPE: (void) m.AddDouble("f", 1.0); break;
         case B_FLOAT_TYPE:  (void) m.AddFloat("f", 1.0f); break;
         case B_INT64_TYPE:  (void) m.AddInt64("f", 1); break;
         case B_INT32_TYPE:  (void) m.AddInt32("f", 1); break;
         case B_INT16_TYPE:  (void) m.AddInt16("f", 1); break;
         case B_INT8_TYPE:   (void) m.AddInt8("f", 1); break;
         case B_POINT_TYPE:  (void) m.AddPoint("f", Point(1,2)); break;
         case B_RECT_TYPE:   (void) m.AddRect("f", Rect(1,2,3,4)); break;
      }
      sz = m.FlattenedSize() - (12 + 4 + 2 + 4 + 4);
      printf("  %s tc = %s then %u\n", (i==0)?"if":"else if", names[i], sz);
   }
   printf("  else 0\n");
   tunnelConstants();
   // ---- BEGIN C15 (wildcard) block: the IsRegexToken table, by calling the compiled function for all 256 x 2 arguments
   {
      printf("\n/-- C15: the characters `c` for which the compiled `IsRegexToken(c, true)` (first character of the string) holds -/\n");
      printf("def regexTokensFirst : List Nat := [");
      bool any = false;
      for (int c=0; c<256; c++) if (IsRegexToken((char)(unsigned char)c, true)) {printf("%s%d", any?", ":"", c); any = true;}
      printf("]\n");
      printf("\n/-- C15: the characters `c` for which the compiled `IsRegexToken(c, false)` (any later position) holds -/\n");
      printf("def regexTokensRest : List Nat := [");
      any = false;
      for (int c=0; c<256; c++) if (IsRegexToken((char)(unsigned char)c, false)) {printf("%s%d", any?", ":"", c); any = true;}
      printf("]\n");
   }
   // ---- END C15 block

   // ---- C09: Hashtable index-width kernel, measured on the compiled code through the public API:
   // GetTotalDataSize() = sizeof(table) + slots * sizeof(HashtableEntry<IndexType>), and the entry type is
   // chosen by ComputeTableIndexTypeForTableSize(tableSize).  EnsureSize(n) on an empty table allocates nothing.
   {
      printf("\n/- Hashtable (util/Hashtable.h): capacity -> slot-index width, measured from the compiled headers -/\n");
      K("htDefaultCapacity", (uint32)MUSCLE_HASHTABLE_DEFAULT_CAPACITY);
      uint32 prevSlot = 0; uint32 thr[8]; uint32 slotSz[8]; int nthr = 0;
      for (uint32 n=1; n<=70000; n++)
      {
         Hashtable<uint32,uint32> t; (void) t.EnsureSize(n, true);
         if (t.GetNumAllocatedItemSlots() != n) continue;   // capacities below the default are not reachable this way
         const uint32 slot = (t.GetTotalDataSize()-(uint32)sizeof(HashtableBase<uint32,uint32>))/n;
         if ((slot != prevSlot)&&(nthr < 8)) {thr[nthr] = n; slotSz[nthr] = slot; nthr++; prevSlot = slot;}
      }
      const uint32 big[] = {1u<<20, 1u<<24, 0x7FFFFFFFu};
      for (size_t i=0; i<3; i++) {Hashtable<uint32,uint32> t; (void) t.EnsureSize(big[i]); const uint32 slot = (uint32)((n64(t.GetTotalDataSize(), big[i], slotSz[nthr-1])-sizeof(HashtableBase<uint32,uint32>))/big[i]); if ((slot != prevSlot)&&(nthr < 8)) {thr[nthr] = big[i]; slotSz[nthr] = slot; nthr++; prevSlot = slot;}}
      // hash + key + value = 12 bytes, then six indices of the chosen width (rounded up to the alignment)
      K("htIndexWidths", (uint32)nthr);
      K("htIndexThreshold16", (nthr > 1) ? thr[1] : 0);
      K("htIndexThreshold32", (nthr > 2) ? thr[2] : 0);
      K("htIndexBytes0", (nthr > 0) ? (slotSz[0]-12)/6 : 0);
      K("htIndexBytes1", (nthr > 1) ? (slotSz[1]-12)/6 : 0);
      K("htIndexBytes2", (nthr > 2) ? (slotSz[2]-12)/6 : 0);
      printf("\n/-- `HashtableBase::ComputeTableIndexTypeForTableSize` (TABLE_INDEX_TYPE_UINT8/16/32 = 0/1/2) -/\n");
      printf("def htIndexType (tableSize : Nat) : Nat :=\n  (if tableSize >= htIndexThreshold16 then 1 else 0) + (if tableSize >= htIndexThreshold32 then 1 else 0)\n");
      printf("\n/-- bytes of one slot index for a TABLE_INDEX_TYPE_* value -/\n");
      printf("def htIndexBytes (ty : Nat) : Nat := if ty = 0 then htIndexBytes0 else if ty = 1 then htIndexBytes1 else htIndexBytes2\n");
   }
   printf("\nend Muscle.Gen\n");
   return 0;
}
