#!/bin/bash
# dev helper: tools/integrate.sh /tmp/w_x/verif  -> copies files that are new, lists shared files that differ
W=$1
cd $W
find . -type f \( -path ./.build -prune -o -path ./lean/.lake -prune -o -path './evidence/*' -prune -o -print \) | grep -v "^./.build\|^./lean/.lake\|^./evidence\|__pycache__" | while read f; do
  if [ ! -e /verif/$f ]; then mkdir -p /verif/$(dirname $f); cp -p $f /verif/$f; echo "NEW  $f";
  elif ! cmp -s $f /verif/$f; then echo "DIFF $f"; fi
done
