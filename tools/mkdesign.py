#!/usr/bin/env python3
"""Regenerates the generated tables of DESIGN.md (between `<!-- BEGIN GENERATED x -->` / `<!-- END GENERATED x -->`
markers) from the committed machine-readable sources: tools/props.d, evidence/, known_findings.json,
mutants/RESULTS.json, seeded/*/*/meta.json.  Hand-written text is never touched."""
import glob, json, os, re, subprocess, sys

V = os.path.dirname(os.path.dirname(os.path.abspath(__file__)))
sys.path.insert(0, os.path.join(V, 'tools'))
import props  # noqa: E402


def esc(s):
    return str(s).replace('|', '\\|').replace('\n', ' ')


def status_table():
    titles = {}
    for l in open(os.path.join(V, 'properties.jsonl')):
        d = json.loads(l)
        titles[d['id']] = d['title']
    kf = json.load(open(os.path.join(V, 'known_findings.json')))['findings']
    rows = ['| id | property | engine / harness | theorems | last quick run | repaired defects | open findings |', '|---|---|---|---|---|---|---|']
    for pid in sorted(titles):
        p = props.PROPS.get(pid)
        if not p:
            rows.append('| %s | %s | — | — | — | — | — |' % (pid, esc(titles[pid]))); continue
        ev = {}
        try:
            ev = json.load(open(os.path.join(V, 'evidence', pid + '.json')))
        except (OSError, ValueError):
            pass
        cov = ev.get('coverage', {}) if isinstance(ev.get('coverage'), dict) else {}
        nth = '%s/%s' % (cov.get('discharged', '?'), cov.get('obligations', '?'))
        run = '%s op lines, %s distinct cases' % (cov.get('evaluations', '?'), cov.get('distinct_nontrivial', '?')) if cov else '?'
        def has(e):
            ps = e.get('properties') or e.get('property') or []
            return pid in (ps if isinstance(ps, list) else [ps])
        fixed = [e['id'] for e in kf if has(e) and e.get('status') == 'fixed']
        opn = [e['id'] for e in kf if has(e) and e.get('status') == 'open']
        rows.append('| %s | %s | `%s` (%s) | %s | %s | %s | %s |' % (pid, esc(titles[pid]), p.get('engine', '?'), ', '.join(h['sources'][0] for h in p.get('harnesses', [])), nth, run,
                    ', '.join(fixed) or '—', ', '.join(opn) or '—'))
    return '\n'.join(rows)


def findings_table(status):
    kf = json.load(open(os.path.join(V, 'known_findings.json')))['findings']
    if status == 'fixed':
        rows = ['| id | properties | commit in /repo | what failed |', '|---|---|---|---|']
    else:
        rows = ['| id | properties | what fails (signature in known_findings.json) | why not repaired |', '|---|---|---|---|']
    for e in kf:
        if e.get('status') != status:
            continue
        ps = e.get('properties') or e.get('property') or []
        ps = ps if isinstance(ps, list) else [ps]
        if status == 'fixed':
            subj = ''
            try:
                subj = subprocess.check_output(['git', '-C', os.environ.get('VERIF_REPO', '/repo'), 'log', '-1', '--format=%s', e.get('commit', '')], stderr=subprocess.DEVNULL).decode().strip()
            except Exception:
                pass
            rows.append('| %s | %s | `%s` %s | %s |' % (e['id'], ', '.join(ps), e.get('commit', '?'), esc(subj), esc(e.get('what', ''))))
        else:
            rows.append('| %s | %s | %s | %s |' % (e['id'], ', '.join(ps), esc(e.get('what', '')), esc(e.get('repair_note', e.get('why_open', '')))))
    return '\n'.join(rows)


def detection_table():
    path = os.path.join(V, 'mutants', 'RESULTS.json')
    if not os.path.exists(path):
        return '(no results recorded yet)'
    res = json.load(open(path))
    rows = ['| property | change | origin | result of `./check <id>` (quick) | how it was noticed |', '|---|---|---|---|---|']
    tot = caught = 0
    for pid in sorted(res):
        for name in sorted(res[pid]):
            if name == '_clean':
                continue
            r = res[pid][name]
            origin = 'seeded (property text only)' if name.startswith('seeded/') else 'written with the engine'
            if not r.get('applied', True):
                rows.append('| %s | `%s` | %s | does not apply to the current tree | — |' % (pid, name, origin)); continue
            if 'EQUIVALENT' in name:
                # a harmless rewrite kept on purpose: the right outcome is silence
                rows.append('| %s | `%s` | %s (behaviour-preserving rewrite) | %s | — |' % (pid, name, origin, '**false alarm**' if r.get('caught') else 'not reported (correct)'))
                continue
            tot += 1
            caught += 1 if r.get('caught') else 0
            how = ', '.join(r.get('kinds', [])) or '—'
            if r.get('nofail'):
                how += ' (%d without failing input)' % r['nofail']
            oc = r.get('other_checks')
            if oc:
                how += '; also noticed by ' + ', '.join(sorted(oc))
            rows.append('| %s | `%s` | %s | %s | %s |' % (pid, name, origin, 'VIOLATION (exit 1)' if r.get('caught') else '**missed**', how))
    rows.append('')
    rows.append('%d of %d applied changes are reported.' % (caught, tot))
    return '\n'.join(rows)


def sync_fixed_lines():
    """known_findings.json: `fixed_lines` is derived from the fixed entries (one literal line per property and finding)."""
    p = os.path.join(V, 'known_findings.json')
    b = json.load(open(p))
    lines = []
    for e in b['findings']:
        ps = e.get('properties') or e.get('property') or []
        ps = ps if isinstance(ps, list) else [ps]
        if e.get('status') == 'fixed':
            for q in ps:
                lines.append('fixed: property=%s %s %s [%s]' % (q, e.get('commit', '?'), e.get('what', '').replace('\n', ' ')[:300], e['id']))
    if b.get('fixed_lines') != lines:
        b['fixed_lines'] = lines
        json.dump(b, open(p, 'w'), indent=1)


def main():
    sync_fixed_lines()
    path = os.path.join(V, 'DESIGN.md')
    s = open(path).read()
    gens = {'status': status_table, 'fixed': lambda: findings_table('fixed'), 'open': lambda: findings_table('open'), 'detection': detection_table}
    for k, f in gens.items():
        b, e = '<!-- BEGIN GENERATED %s -->' % k, '<!-- END GENERATED %s -->' % k
        if b in s and e in s:
            i, j = s.index(b) + len(b), s.index(e)
            s = s[:i] + '\n' + f() + '\n' + s[j:]
    open(path, 'w').write(s)


if __name__ == '__main__':
    main()
