#!/usr/bin/env python3
"""Line-protocol driver around /repo/lang/python3/message.py (the Python Message codec) and the
framing code of message_transceiver_thread.py.  Used by harness/xwire.cpp (C08) and harness/parse.cpp (C02).

   msg x<hex>     -> ok x<hex of Flatten() of the parsed Message> <FlattenedSize()> <canonical dump>   |  err <why>
   frame x<hex>   -> ok x<hex of the 8-byte header + body as MessageTransceiverThread queues it for sending>  |  err <why>

The canonical dump is the format of harness/msgdump.h: {what name:type:count[item,item,...] ...}; every item is
shown as the bytes the codec holds for it (arrays: the array's own bytes; points/rects: packed the way Flatten packs them).
Only the public accessors of the Message class are used for the dump."""
import io, os, struct, sys

repo = os.environ.get('VERIF_REPO', '/repo')
sys.path.insert(0, os.path.join(repo, 'lang', 'python3'))
import message                       # noqa: E402
import message_transceiver_thread    # noqa: E402

ITEM = {message.B_BOOL_TYPE: 1, message.B_INT8_TYPE: 1, message.B_INT16_TYPE: 2, message.B_INT32_TYPE: 4,
        message.B_INT64_TYPE: 8, message.B_FLOAT_TYPE: 4, message.B_DOUBLE_TYPE: 8}


def hx(b):
    return 'x' + bytes(b).hex()


def dump(m):
    s = '{%d' % m.what
    for name in m.GetFieldNames():
        tc = m.GetFieldType(name)
        fc = m.GetFieldContents(name)
        items = []
        if tc in ITEM:
            raw = fc.tobytes() if hasattr(fc, 'tobytes') else b''.join(struct.pack({1: '<b', 2: '<h', 4: '<i', 8: '<q'}[ITEM[tc]], v) for v in fc)
            n = ITEM[tc]
            items = [hx(raw[i:i + n]) for i in range(0, len(raw), n)]
        elif tc == message.B_POINT_TYPE:
            items = [hx(struct.pack('<2f', *p)) for p in fc]
        elif tc == message.B_RECT_TYPE:
            items = [hx(struct.pack('<4f', *r)) for r in fc]
        elif tc == message.B_STRING_TYPE:
            items = [hx(x.encode()) for x in fc]
        elif tc == message.B_MESSAGE_TYPE:
            items = [dump(x) for x in fc]
        else:
            items = [hx(x) for x in fc]
        s += ' %s:%d:%d[%s]' % (hx(name.encode()), tc, len(fc), ','.join(items))
    return s + '}'


_mtt = None


def mtt():
    global _mtt
    if _mtt is None:
        _mtt = message_transceiver_thread.MessageTransceiverThread('127.0.0.1', 1)   # never started: no connection is made
    return _mtt


def handle(line):
    t = line.split()
    if len(t) != 2 or not t[1].startswith('x'):
        return 'err bad-request'
    data = bytes.fromhex(t[1][1:])
    if t[0] == 'msg':
        m = message.Message()
        m.SetFromFlattenedBuffer(data)
        return 'ok %s %d %s' % (hx(m.GetFlattenedBuffer()), m.FlattenedSize(), dump(m))
    if t[0] == 'frame':
        m = message.Message()
        m.SetFromFlattenedBuffer(data)
        th = mtt()
        th.SendOutgoingMessage(m)
        hdr, body = th._MessageTransceiverThread__getNextMessageFromMain()
        return 'ok %s' % hx(hdr + body)
    return 'err bad-request'


def main():
    for line in sys.stdin:
        try:
            out = handle(line)
        except BaseException as e:     # noqa: the codec raises many kinds; RecursionError and MemoryError included
            if isinstance(e, KeyboardInterrupt):
                raise
            out = 'err %s' % type(e).__name__
        sys.stdout.write(out + '\n')
        sys.stdout.flush()


if __name__ == '__main__':
    main()
