// Engine `rc` (C10): thread programs over REAL muscle::Ref<Obj> slots, heap objects and ONE real muscle::ObjectPool<Obj, tiny slab>,
// executed on REAL threads under the deterministic cooperative scheduler (libvh/coop.h).  One op line = one complete execution:
//
//    x <N> <maxPool> <nthreads> <prog_0> … <prog_{n-1}> <event>*
//
//    N       = NUM_OBJECTS_PER_SLAB of the pool (1..4; chosen through the pool's slab-size template parameter), maxPool = its constructor argument
//    prog    = operations joined by `.` (`-` = empty); every thread owns L=3 private Ref<Obj> slots `a`,`b`; G=2 global slots `g` are mailboxes
//              Na   slot[a].SetRef(new Obj)                        Pa   slot[a].SetRef(pool.ObtainObject())
//              Cab  slot[a] = slot[b]                              Sab  slot[a].SetRef(slot[b]())
//              Ra   slot[a].Reset()                                Wab  slot[a].SwapContents(slot[b])
//              Xag  slot[a].SwapContents(global[g])  (hand-off)    Va   if (slot[a]()) slot[a]()->val = tid+1
//              Kab  {ConstRef<Obj> c = AddConstToRef(slot[b]); slot[a] = CastAwayConstFromRef(c);}
//              objects hold a reference themselves (member `Ref<Obj> next`):
//              Lab  slot[a]()->next = slot[b]   (only if slot a is the ONLY reference to its object, and slot b is NULL or counts another object)
//              Ua   slot[a]()->next.Reset()      (same privacy guard)
//              Ta   slot[a] = slot[a]()->next    Qa  slot[a].SetRef(slot[a]()->next())      (the linked-list pop)
//              non-counting Refs:
//              Yab  slot[a].SetRef(slot[b](), false)      Ma  slot[a].SetRef(slot[a](), true)  (only if another slot of the thread counts the same object)
//              Da   slot[a].SetRef(slot[a](), false)      Za  slot[a].Neutralize()
//              (Sab is skipped unless slot b is NULL or counting; Va, Lab, Ua, Ta, Qa need a counting slot a: a non-counting Ref may dangle)
//    event   = `<i>`: thread i takes one step (from its park point to its next one) if it has not finished, else SKIP
//    after the listed events the TAIL rule completes the run (lowest unfinished thread steps).
//
// Park points: an explicit yieldPoint() at the start of every operation; the hook before every AtomicIncrement/AtomicDecrement
// of a reference count; the hook before Lock(pool._mutex); in ReleaseObject() the return of the pthread_mutex_unlock() that
// releases pool._mutex (this file interposes on that function: there is no hook behind the unlock, and what the code does
// between the unlock and `delete slabToDelete` must be a step of its own); the first node destructor inside
// `delete slabToDelete` (outside the lock).
//
// Result line: one token per event `<i>:<o>`, o = `-` skipped | `<events>=<digest>`;
//    events (in program order): n<k> new heap object k | S new slab | o<k> ObtainObject() returned k (`!v` if its payload v != 0) |
//                               r<k> k reset to default by ReleaseObject | d<k> heap object k destroyed | F a slab destroyed
//    digest = every live object `k/refcount/payload[>next]` in identity order (`_` if none); identities k are first-seen numbers.
//    then `|`, the tail's tokens, the verdict, `cur=<_curPoolSize>` and `L=<_numNodesInUse of each slab in slab-list order>`.
//
// A second op, `stress <lastrefs|churn|pop> <threads 1..8> <rounds>`, runs REAL UNSCHEDULED threads (see the comment at `class SObj`):
// testing by provocation for races below the hook granularity, not part of the model; its result line is a constant.
#include <string>
#include <vector>
#include <set>
#include <map>
#include <algorithm>
#include <deque>
#include <signal.h>
#include <sched.h>
#include <atomic>
#include <thread>
#include <dlfcn.h>
#include <pthread.h>
#include <typeinfo>
#include "system/Mutex.h"
#include "util/OutputPrinter.h"
// The oracle inspects the pool's bookkeeping (_curPoolSize, slab list, free lists) and registers &_mutex with the scheduler.
// Every header that ObjectPool.h includes has been included above, so the define below only opens this one file.
#define private public
#include "util/ObjectPool.h"
#undef private
#include "system/AtomicCounter.h"
#include "util/PointerAndBits.h"
#include "util/RefCount.h"
#include "system/SetupSystem.h"

#include "libvh/vh.h"
#include "libvh/coop.h"

using namespace muscle;

// ---------------------------------------------------------------------------------------------------------------------
// Interposition on pthread_mutex_unlock (the executable's definition wins over libc's): lets a managed thread that is
// inside ObjectPool::ReleaseObject() park right AFTER it has really released the pool's mutex.
static pthread_mutex_t * g_poolNative = NULL;      // the pthread mutex inside pool._mutex (found by recording, see Exec::run)
static bool g_recordUnlock = false;
static pthread_mutex_t * g_recorded = NULL;
static int g_releaseUnlocksDue[16];                // per managed thread: ReleaseObject() calls that have not unlocked the pool yet
typedef int (*vh_unlock_fn)(pthread_mutex_t *);
static vh_unlock_fn g_realUnlock = NULL;
static bool g_resolvingUnlock = false;
static void vhAfterPoolUnlock();
extern "C" int pthread_mutex_unlock(pthread_mutex_t * m)
{
   if (g_realUnlock == NULL)
   {
      if (g_resolvingUnlock) return 0;   // dlsym's own bookkeeping while we resolve (single-threaded start-up)
      g_resolvingUnlock = true;
      g_realUnlock = (vh_unlock_fn) dlvsym(RTLD_NEXT, "pthread_mutex_unlock", "GLIBC_2.2.5");
      if (g_realUnlock == NULL) g_realUnlock = (vh_unlock_fn) dlsym(RTLD_NEXT, "pthread_mutex_unlock");
      g_resolvingUnlock = false;
   }
   const int r = g_realUnlock(m);
   if (g_recordUnlock) g_recorded = m;
   else if ((m == g_poolNative)&&(m != NULL)) vhAfterPoolUnlock();
   return r;
}

namespace {

enum {MAXT = 6, NSLOTS = 3, NGLOB = 2, MAXN = 4, TAIL_CAP = 4000};
enum {CANARY = 0x5AFEC0DE};

// ---------------------------------------------------------------------------------------------------------------------
// Instrumentation shared by every Obj.  Only one thread runs at a time (the controller or the granted thread).
struct Info
{
   bool heap;        // created by `new Obj` (else: a slab node)
   int canon;        // first-seen identity, -1 = never handed out
   bool alive;       // handed out / constructed and not yet released
   uint32_t acq, rel;
   long slab; int idx;  // slab serial number and construction index of a slab node
   bool abandoned;      // its count was brought to 0 by SetRef(p,false)/Neutralize(): alive for ever, by the documented semantics
   Info() : heap(false), canon(-1), alive(false), acq(0), rel(0), slab(-1), idx(-1), abandoned(false) {}
};

struct Track
{
   std::map<const void *, Info> objs;     // every constructed, not yet destroyed Obj of this run
   std::vector<const void *> byCanon;      // identity -> address (NULL once destroyed)
   std::string slice;                      // events of the step in progress
   std::vector<std::string> oracle;
   bool heapCtor;                          // the next Obj constructor is `new Obj` of a thread program
   int N;
   long nodeCtors, nodeDtors;
   uint32_t heapLive;
   bool active;
   bool yieldInDtor;
   Track() : heapCtor(false), N(1), nodeCtors(0), nodeDtors(0), heapLive(0), active(false), yieldInDtor(true) {}
   void clear() {objs.clear(); byCanon.clear(); slice.clear(); oracle.clear(); heapCtor = false; nodeCtors = nodeDtors = 0; heapLive = 0;}
   void fail(const std::string & msg) {if ((oracle.size() < 8)&&(std::find(oracle.begin(), oracle.end(), msg) == oracle.end())) oracle.push_back(msg);}
   int newCanon(const void * p) {byCanon.push_back(p); return (int) byCanon.size()-1;}
};
static Track g_T;

static std::string cs(int k) {return vh::u64s((uint64_t)(int64_t)k);}
} // namespace
static void vhAfterPoolUnlock()
{
   const int me = vh::CoopScheduler::currentIndex();
   if ((me >= 0)&&(me < 16)&&(g_releaseUnlocksDue[me] > 0)) {g_releaseUnlocksDue[me]--; vh::CoopScheduler::yieldPoint((const void *)2);}
}
namespace {

class Obj : public RefCountable
{
public:
   uint32 canary;
   uint32 val;
   Ref<Obj> next;    // an object may hold a reference to another one (linked list)

   Obj() : canary(CANARY), val(0)
   {
      if (!g_T.active) return;
      Info & in = g_T.objs[this];
      in = Info();
      if (g_T.heapCtor) {g_T.heapCtor = false; in.heap = true; in.alive = true; in.acq = 1; in.canon = g_T.newCanon(this); g_T.heapLive++; g_T.slice += "n" + cs(in.canon);}
      else
      {
         in.slab = g_T.nodeCtors / g_T.N; in.idx = (int)(g_T.nodeCtors % g_T.N);
         if (in.idx == 0) g_T.slice += "S";
         g_T.nodeCtors++;
      }
   }

   Obj(const Obj & rhs) : RefCountable(rhs), canary(CANARY), val(rhs.val) {if (g_T.active) g_T.fail("unexpected Obj copy-construction");}

   // ObjectPool::ReleaseObject():  *obj = GetDefaultObject();
   Obj & operator=(const Obj & rhs)
   {
      if (canary != CANARY) g_T.fail("canary of an object being reset is damaged");
      val = rhs.val;
      if (!g_T.active) {next = rhs.next; return *this;}
      std::map<const void *, Info>::iterator it = g_T.objs.find(this);
      if (it == g_T.objs.end()) {g_T.fail("an unknown object is being reset (recycled)"); next = rhs.next; return *this;}
      Info & in = it->second;
      if (in.heap) g_T.fail("heap object " + cs(in.canon) + " is being recycled into the pool");
      if (!in.alive) g_T.fail("object " + cs(in.canon) + " is released a second time (recycled while not handed out)");
      if (GetRefCount() != 0) g_T.fail("object " + cs(in.canon) + " is recycled while its reference count is " + vh::u64s(GetRefCount()));
      in.alive = false; in.rel++;
      g_T.slice += "r" + cs(in.canon);
      {const int me = vh::CoopScheduler::currentIndex(); if ((me >= 0)&&(me < 16)) g_releaseUnlocksDue[me]++;}   // ReleaseObject() will lock and unlock the pool once
      next = rhs.next;   // releases what this object referenced (park point: the decrement), as any member Ref would
      return *this;
   }

   virtual ~Obj()
   {
      if (!g_T.active) {canary = 0; return;}
      std::map<const void *, Info>::iterator it = g_T.objs.find(this);
      if (it == g_T.objs.end()) {g_T.fail("an unknown object is being destroyed (double delete?)"); canary = 0; return;}
      if (it->second.heap)
      {
         Info & in = it->second;
         if (canary != CANARY) g_T.fail("canary of heap object " + cs(in.canon) + " is damaged at destruction");
         if (!in.alive) g_T.fail("heap object " + cs(in.canon) + " is destroyed a second time");
         if (GetRefCount() != 0) g_T.fail("heap object " + cs(in.canon) + " is destroyed while its reference count is " + vh::u64s(GetRefCount()));
         in.alive = false; in.rel++; g_T.heapLive--;
         g_T.slice += "d" + cs(in.canon);
         if (in.canon >= 0) g_T.byCanon[(size_t)in.canon] = NULL;
         g_T.objs.erase(it);
      }
      else
      {
         // array elements are destroyed in reverse order: the node constructed last goes first
         const bool first = (it->second.idx == g_T.N-1);
         if ((first)&&(g_T.yieldInDtor)) {vh::CoopScheduler::yieldPoint(this); it = g_T.objs.find(this);}   // park point "delete slabToDelete", outside the pool lock
         if (it == g_T.objs.end()) {canary = 0; return;}
         Info & in = it->second;
         if (first) g_T.slice += "F";
         if (canary != CANARY) g_T.fail("canary of a slab node is damaged at destruction");
         if (in.alive) g_T.fail("a slab is destroyed while its object " + cs(in.canon) + " is handed out");
         if (GetRefCount() != 0) g_T.fail("a slab is destroyed while a node's reference count is " + vh::u64s(GetRefCount()));
         g_T.nodeDtors++;
         if (in.canon >= 0) g_T.byCanon[(size_t)in.canon] = NULL;
         g_T.objs.erase(it);
      }
      canary = 0;
   }
};
typedef Ref<Obj> ObjRef;
typedef ConstRef<Obj> ConstObjRef;

// ---------------------------------------------------------------------------------------------------------------------
// Pools with 1..4 objects per slab: the slab size is the second template parameter of ObjectPool (bytes); the header computes
// NUM_OBJECTS_PER_SLAB = (bytes - sizeof(ObjectSlabData)) / sizeof(ObjectNode).
struct PoolBase
{
   virtual ~PoolBase() {}
   virtual Obj * obtain() = 0;
   virtual const void * mutexAddr() const = 0;
   virtual uint32_t cur() const = 0;
   virtual std::string slabsText() const = 0;
   virtual void sanity() const = 0;
   virtual void structure(Track & T) const = 0;   // direct oracle on the bookkeeping
   virtual AbstractObjectManager * mgr() = 0;
   virtual bool allFree() const = 0;
   virtual void lockUnlock() = 0;
};

typedef ObjectPool<Obj> DefPool;
template<int K> struct PoolK : public PoolBase
{
   enum {BYTES = sizeof(DefPool::ObjectSlabData) + K*sizeof(DefPool::ObjectNode)};
   typedef ObjectPool<Obj, BYTES> P;
   P p;
   PoolK(uint32 maxPool) : p(maxPool) {static_assert(P::NUM_OBJECTS_PER_SLAB == K, "slab size computation is off");}
   virtual Obj * obtain() {return p.ObtainObject();}
   virtual const void * mutexAddr() const {return &p._mutex;}
   virtual uint32_t cur() const {return p._curPoolSize;}
   virtual AbstractObjectManager * mgr() {return &p;}
   virtual void lockUnlock() {(void) p._mutex.Lock(); (void) p._mutex.Unlock();}
   virtual void sanity() const {p.PerformSanityCheck();}
   virtual std::string slabsText() const
   {
      std::string s;
      for (typename P::ObjectSlab * sl = p._firstSlab; sl; sl = sl->GetNext()) {if (!s.empty()) s += ","; s += vh::u64s(sl->_data.GetNumNodesInUse());}
      return s.empty() ? std::string("_") : s;
   }
   virtual bool allFree() const {for (typename P::ObjectSlab * sl = p._firstSlab; sl; sl = sl->GetNext()) if (sl->IsInUse()) return false; return true;}
   virtual void structure(Track & T) const
   {
      // evaluated while every thread is parked outside the pool's critical sections
      uint64_t freeTotal = 0; uint32_t nslabs = 0;
      const typename P::ObjectSlab * prev = NULL;
      std::set<const void *> seen;
      for (typename P::ObjectSlab * sl = p._firstSlab; sl; sl = sl->GetNext())
      {
         if (++nslabs > 10000) {T.fail("slab list is cyclic"); return;}
         if (!seen.insert(sl).second) {T.fail("slab list visits a slab twice"); return;}
         if (sl->GetPrev() != prev) T.fail("slab list back pointer is wrong");
         prev = sl;
         // free list: acyclic, in range, length + in-use = K; nodes on it are not handed out; nodes off it have an INVALID next index
         std::set<uint32_t> onList; uint32_t idx = sl->_data.GetFirstFreeNodeIndex(); uint32_t len = 0;
         while(idx != (uint16)-1)
         {
            if (idx >= (uint32_t)K) {T.fail("free list index out of range"); break;}
            if (!onList.insert(idx).second) {T.fail("free list is cyclic"); break;}
            len++;
            idx = sl->_nodes[idx].GetNextIndex();
         }
         if (len + sl->_data.GetNumNodesInUse() != (uint32_t)K) T.fail("free-list length " + vh::u64s(len) + " + nodes in use " + vh::u64s(sl->_data.GetNumNodesInUse()) + " != " + vh::u64s(K));
         freeTotal += len;
         for (uint32_t i=0; i<(uint32_t)K; i++)
         {
            const Obj * o = &sl->_nodes[i].GetObject();
            std::map<const void *, Info>::const_iterator it = T.objs.find(o);
            if (it == T.objs.end()) {T.fail("a listed slab holds a node that was never constructed or is already destroyed"); continue;}
            if ((onList.count(i))&&(it->second.alive)) T.fail("object " + cs(it->second.canon) + " is handed out but sits on its slab's free list");
            if ((onList.count(i))&&((o->GetRefCount() != 0)||(o->val != 0)||(o->GetManager() != NULL)||(o->canary != CANARY)||(o->next() != NULL))) T.fail("a node on a free list is not in the default state");
            if (sl->_nodes[i].GetArrayIndex() != i) T.fail("node array index damaged");
         }
      }
      if (p._lastSlab != prev) T.fail("_lastSlab does not point to the last slab of the list");
      if ((uint64_t)p._curPoolSize != freeTotal) T.fail("_curPoolSize " + vh::u64s(p._curPoolSize) + " != number of free nodes in the listed slabs " + vh::u64s(freeTotal));
      // every handed-out pooled object lives in a listed slab
      for (std::map<const void *, Info>::const_iterator it = T.objs.begin(); it != T.objs.end(); ++it) if ((!it->second.heap)&&(it->second.alive))
      {
         bool found = false;
         for (typename P::ObjectSlab * sl = p._firstSlab; sl; sl = sl->GetNext()) if (((const char *)it->first >= (const char *)sl)&&((const char *)it->first < (const char *)(sl+1))) found = true;
         if (!found) T.fail("handed-out object " + cs(it->second.canon) + " lives in a slab that is not on the slab list");
      }
   }
};

static PoolBase * makePool(int N, uint32 maxPool)
{
   switch(N)
   {
      case 1: return new PoolK<1>(maxPool);
      case 2: return new PoolK<2>(maxPool);
      case 3: return new PoolK<3>(maxPool);
      case 4: return new PoolK<4>(maxPool);
   }
   return NULL;
}

// ---------------------------------------------------------------------------------------------------------------------
struct OpC {char k; int a, b;};

struct Line
{
   int N; uint32_t maxPool;
   std::vector<std::vector<OpC> > progs;
   std::vector<std::string> progText;
   std::vector<int> evs;
};

static bool parseOp(const std::string & s, OpC & o)
{
   if ((s.size() < 2)||(s.size() > 3)) return false;
   o.k = s[0]; o.a = s[1]-'0'; o.b = (s.size() == 3) ? (s[2]-'0') : 0;
   if ((s[1] < '0')||(s[1] > '9')||(o.a >= NSLOTS)) return false;
   if (strchr("NPRVUTQMDZ", o.k)) return (s.size() == 2);
   if (s.size() != 3) return false;
   if ((s[2] < '0')||(s[2] > '9')) return false;
   if (strchr("CSWKLY", o.k)) return (o.b < NSLOTS);
   if (o.k == 'X') return (o.b < NGLOB);
   return false;
}

static bool parseProg(const std::string & s, std::vector<OpC> & p)
{
   p.clear();
   if (s == "-") return true;
   std::vector<std::string> parts = vh::split(s, '.');
   if (parts.empty()) return false;
   for (size_t i=0; i<parts.size(); i++) {OpC o; if (!parseOp(parts[i], o)) return false; p.push_back(o);}
   return true;
}

static bool parseLine(const std::vector<std::string> & t, Line & L)
{
   if ((t.size() < 4)||(t[0] != "x")) return false;
   uint64_t N, mp, n;
   if ((!vh::toU64(t[1], N))||(N < 1)||(N > MAXN)) return false;
   if ((!vh::toU64(t[2], mp))||(mp > 1000)) return false;
   if ((!vh::toU64(t[3], n))||(n < 1)||(n > MAXT)||(t.size() < 4+n)) return false;
   L.N = (int) N; L.maxPool = (uint32_t) mp; L.progs.clear(); L.progText.clear(); L.evs.clear();
   for (size_t i=0; i<n; i++) {std::vector<OpC> p; if (!parseProg(t[4+i], p)) return false; L.progs.push_back(p); L.progText.push_back(t[4+i]);}
   for (size_t i=4+n; i<t.size(); i++) {uint64_t k; if ((!vh::toU64(t[i], k))||(k >= MAXT)) return false; L.evs.push_back((int) k);}
   return true;
}

static std::string lineTextOf(const Line & L)
{
   std::string s = "x " + cs(L.N) + " " + vh::u64s(L.maxPool) + " " + vh::u64s(L.progText.size());
   for (size_t i=0; i<L.progText.size(); i++) s += " " + L.progText[i];
   for (size_t i=0; i<L.evs.size(); i++) s += " " + cs(L.evs[i]);
   return s;
}

// Generator mode executes what it generates.  If the real code crashes there, the line being executed is written out first,
// so that the crash reproduces in `run` mode (./check re-runs the partial op file of a generator that died).
static bool g_genMode = false;
static std::string g_pendingLine;
static const char * g_stressKind = NULL;          // the stress op in progress (for the note a sanitizer abort leaves behind)
static std::atomic<uint64_t> g_stressRound(0);
static unsigned g_stressThreads = 0;
static void emitPendingAndDie()
{
   static bool once = false;
   if ((g_genMode)&&(!once)&&(!g_pendingLine.empty())) {once = true; fputs(g_pendingLine.c_str(), stdout); fputc('\n', stdout); fflush(stdout);}
   if (g_stressKind) fprintf(stderr, "rc: the abort happened in `stress %s %u ...` (unscheduled real threads), thread 0 was in round %llu\n", g_stressKind, g_stressThreads, (unsigned long long) g_stressRound.load()+1);
}
static void onFatalSignal(int sig) {emitPendingAndDie(); signal(sig, SIG_DFL); raise(sig);}
extern "C" void __sanitizer_set_death_callback(void (*cb)(void));

// ---------------------------------------------------------------------------------------------------------------------
struct Exec
{
   vh::CoopScheduler & S;
   Exec(vh::CoopScheduler & s) : S(s), pool(NULL) {}

   PoolBase * pool;
   int n;
   Line cur;
   ObjRef slot[MAXT][NSLOTS];
   ObjRef glob[NGLOB];
   int busy[MAXT];            // slot being modified by the operation in progress of thread i, or -1
   bool inOp[MAXT];           // thread i is between the first hook of an operation and its end
   int opsDone[MAXT];
   const Obj * busyNext[MAXT];    // object whose `next` member thread i is modifying, or NULL
   const Obj * busyOldT[MAXT], * busyNewT[MAXT];   // … its old target and the one being installed (NULL = cleared)
   int stepsInOp[MAXT];           // steps thread i has taken in its current operation (1 = the step from the yield point)
   std::vector<int> executed;     // every event that RAN (plan + explicit + tail), in order
   std::vector<std::vector<int> > enabledAt;
   size_t planLen;

   void body(int i)
   {
      const std::vector<OpC> & prog = cur.progs[(size_t)i];
      for (size_t k=0; k<prog.size(); k++)
      {
         if (S.aborting()) break;
         const OpC & o = prog[k];
         vh::CoopScheduler::yieldPoint();
         if (S.aborting()) break;
         inOp[i] = true; busy[i] = o.a;
         ObjRef & A = slot[i][o.a];
         const Obj * before = A.IsRefCounting() ? A() : NULL;   // the object slot a counts before the operation
         // a non-counting Ref may dangle: only a counting one is ever dereferenced
         Obj * priv = ((A.IsRefCounting())&&(A())&&(A()->GetRefCount() == 1)) ? A() : NULL;   // slot a holds the ONLY reference to its object
         switch(o.k)
         {
            case 'L':
               if (priv)
               {
                  ObjRef & B = slot[i][o.b];
                  if (B() == NULL) {busyNext[i] = priv; busyOldT[i] = busyNewT[i] = NULL; priv->next = B;}
                  else if ((B.IsRefCounting())&&(B() != priv)&&(B() != priv->next())) {busyNext[i] = priv; busyOldT[i] = priv->next(); busyNewT[i] = B(); priv->next = B;}
               }
            break;
            case 'U': if (priv) {busyNext[i] = priv; busyOldT[i] = busyNewT[i] = NULL; priv->next.Reset();} break;
            case 'T': if ((A.IsRefCounting())&&(A())) A = A()->next; break;
            case 'Q': if ((A.IsRefCounting())&&(A())) A.SetRef(A()->next()); break;
            case 'Y': A.SetRef(slot[i][o.b](), false); break;
            case 'M': if ((A())&&(!A.IsRefCounting())&&(countsElsewhere(i, o.a, A()))) A.SetRef(A(), true); break;
            case 'D': A.SetRef(A(), false); break;
            case 'Z': A.Neutralize(); break;
            case 'N': {g_T.heapCtor = true; Obj * p = new Obj; g_T.heapCtor = false; slot[i][o.a].SetRef(p);} break;
            case 'P': {Obj * p = pool->obtain(); noteObtained(p); slot[i][o.a].SetRef(p);} break;
            case 'C': slot[i][o.a] = slot[i][o.b]; break;
            case 'S': if ((slot[i][o.b]() == NULL)||(slot[i][o.b].IsRefCounting())) slot[i][o.a].SetRef(slot[i][o.b]()); break;
            case 'R': slot[i][o.a].Reset(); break;
            case 'W': slot[i][o.a].SwapContents(slot[i][o.b]); break;
            case 'X': slot[i][o.a].SwapContents(glob[o.b]); break;
            case 'V': if ((A.IsRefCounting())&&(A())) A()->val = (uint32)(i+1); break;
            case 'K': {ConstObjRef c = AddConstToRef(slot[i][o.b]); slot[i][o.a] = CastAwayConstFromRef(c);} break;
         }
         if ((before)&&(strchr("DZYC", o.k)))
         {
            // SetRef(p,false) / Neutralize() give up a reference WITHOUT ever deleting: an object whose count reaches 0 that way stays alive for ever
            std::map<const void *, Info>::iterator it = g_T.objs.find(before);
            if ((it != g_T.objs.end())&&(it->second.alive)&&(before->GetRefCount() == 0)) it->second.abandoned = true;
         }
         inOp[i] = false; busy[i] = -1; busyNext[i] = NULL; opsDone[i]++;
      }
   }

   bool countsElsewhere(int i, int a, const Obj * p) const
   {
      for (int b=0; b<NSLOTS; b++) if ((b != a)&&(slot[i][b]() == p)&&(slot[i][b].IsRefCounting())) return true;
      return false;
   }

   // DIRECT ORACLE (hand-out): the object is not handed out already, is in the default state, and belongs to the pool
   void noteObtained(Obj * p)
   {
      if (p == NULL) {g_T.fail("ObtainObject() returned NULL"); return;}
      std::map<const void *, Info>::iterator it = g_T.objs.find(p);
      if (it == g_T.objs.end()) {g_T.fail("ObtainObject() returned an object that was never constructed (or is destroyed)"); return;}
      Info & in = it->second;
      if (in.heap) g_T.fail("ObtainObject() returned a heap object");
      if (in.canon < 0) in.canon = g_T.newCanon(p);
      g_T.slice += "o" + cs(in.canon);
      if (p->val != 0) g_T.slice += "!" + vh::u64s(p->val);
      if (in.alive) g_T.fail("object " + cs(in.canon) + " is handed out to a second holder while the first still has it");
      if ((p->val != 0)||(p->canary != CANARY)||(p->GetRefCount() != 0)) g_T.fail("object " + cs(in.canon) + " handed out by the pool differs from a default-constructed one (payload " + vh::u64s(p->val) + ", refcount " + vh::u64s(p->GetRefCount()) + ")");
      if (p->GetManager() != pool->mgr()) g_T.fail("object handed out by the pool has the wrong manager");
      for (int t=0; t<n; t++) for (int a=0; a<NSLOTS; a++) if ((slot[t][a]() == p)&&(slot[t][a].IsRefCounting())&&(busy[t] != a)) g_T.fail("object " + cs(in.canon) + " is handed out while thread " + cs(t) + " still references it");
      for (int g=0; g<NGLOB; g++) if ((glob[g]() == p)&&(glob[g].IsRefCounting())) g_T.fail("object " + cs(in.canon) + " is handed out while a global slot still references it");
      in.alive = true; in.acq++;
   }

   std::string digest() const
   {
      std::string s;
      for (size_t k=0; k<g_T.byCanon.size(); k++) if (g_T.byCanon[k])
      {
         std::map<const void *, Info>::const_iterator it = g_T.objs.find(g_T.byCanon[k]);
         if ((it == g_T.objs.end())||(!it->second.alive)) continue;
         const Obj * o = (const Obj *) g_T.byCanon[k];
         if (!s.empty()) s += ",";
         s += vh::u64s(k) + "/" + vh::u64s(o->GetRefCount()) + "/" + vh::u64s(o->val);
         // the member Ref writes its pointer only after the old target has been released (several steps later): show the
         // logical value — the new target from the step of the increment on, NULL at once when the member is being cleared
         const Obj * nx = o->next();
         for (int t=0; t<n; t++) if (busyNext[t] == o) nx = (stepsInOp[t] >= 2) ? busyNewT[t] : busyOldT[t];
         if (nx)
         {
            std::map<const void *, Info>::const_iterator nt = g_T.objs.find(nx);
            s += ">" + ((nt == g_T.objs.end()) ? std::string("?") : cs(nt->second.canon));
         }
      }
      return s.empty() ? std::string("_") : s;
   }

   // DIRECT ORACLE (after every step, every thread parked): never early, count covers the visible references, pool bookkeeping
   void afterStep()
   {
      std::map<const void *, uint32_t> visible;
      bool quiet = true;
      for (int t=0; t<n; t++) if (inOp[t]) quiet = false;
      for (int t=0; t<n; t++) for (int a=0; a<NSLOTS; a++) if ((slot[t][a]())&&(slot[t][a].IsRefCounting())&&(busy[t] != a)) visible[slot[t][a]()]++;
      for (int g=0; g<NGLOB; g++) if ((glob[g]())&&(glob[g].IsRefCounting())) visible[glob[g]()]++;
      // the `next` member of every live object is a reference too (unless that member is being modified right now)
      for (std::map<const void *, Info>::const_iterator it = g_T.objs.begin(); it != g_T.objs.end(); ++it) if (it->second.alive)
      {
         const Obj * o = (const Obj *) it->first;
         bool skip = false;
         for (int t=0; t<n; t++) if (busyNext[t] == o) skip = true;
         if ((!skip)&&(o->next())) visible[o->next()]++;
      }
      for (std::map<const void *, uint32_t>::const_iterator v = visible.begin(); v != visible.end(); ++v)
      {
         std::map<const void *, Info>::const_iterator it = g_T.objs.find(v->first);
         if (it == g_T.objs.end()) {g_T.fail("a Ref points to an object that has been destroyed (released early)"); continue;}
         const Obj * o = (const Obj *) v->first;
         if (!it->second.alive) g_T.fail("a Ref points to object " + cs(it->second.canon) + " which has been released (released early)");
         if (o->canary != CANARY) g_T.fail("canary of a referenced object is damaged");
         if (o->GetRefCount() < v->second) g_T.fail("reference count " + vh::u64s(o->GetRefCount()) + " of object " + cs(it->second.canon) + " is below its " + vh::u64s(v->second) + " visible references");
         if ((quiet)&&(o->GetRefCount() != v->second)) g_T.fail("reference count " + vh::u64s(o->GetRefCount()) + " of object " + cs(it->second.canon) + " differs from its " + vh::u64s(v->second) + " references while no operation is in progress");
      }
      if (quiet) for (std::map<const void *, Info>::const_iterator it = g_T.objs.begin(); it != g_T.objs.end(); ++it) if ((it->second.alive)&&(!it->second.abandoned)&&(visible.count(it->first) == 0)) g_T.fail("object " + cs(it->second.canon) + " is alive but unreferenced while no operation is in progress (leak)");
      for (std::map<const void *, Info>::const_iterator it = g_T.objs.begin(); it != g_T.objs.end(); ++it) if (it->second.acq != it->second.rel + (it->second.alive ? 1 : 0)) g_T.fail("object " + cs(it->second.canon) + ": hand-outs " + vh::u64s(it->second.acq) + " vs releases " + vh::u64s(it->second.rel));
      pool->sanity();
      pool->structure(g_T);
   }

   void countStep(int i) {const vh::CoopScheduler::Park p = S.parkOf(i); if ((p.kind == vh::CoopScheduler::PK_YIELD)&&(p.obj == NULL)) stepsInOp[i] = 1; else stepsInOp[i]++;}

   void noteEnabled()
   {
      std::vector<int> en;
      for (int i=0; i<n; i++) if (S.runnable(i)) en.push_back(i);
      enabledAt.push_back(en);
   }

   // policy: 0 = the TAIL rule of the line protocol; 1 = the generator's non-preemptive default (keep running the last thread)
   // plan (generator only): (thread, number of operations) pairs executed first
   std::string run(const Line & L, int policy = 0, const std::vector<std::pair<int,int> > * plan = NULL)
   {
      S.reset();
      S.uninstall();
      g_poolNative = NULL;
      for (int i=0; i<16; i++) g_releaseUnlocksDue[i] = 0;
      g_T.clear(); g_T.N = L.N; g_T.active = true;
      pool = makePool(L.N, L.maxPool);
      g_recorded = NULL; g_recordUnlock = true; pool->lockUnlock(); g_recordUnlock = false; g_poolNative = g_recorded;   // which pthread mutex is the pool's?
      if (g_poolNative == NULL) g_T.fail("harness: could not identify the pool's pthread mutex");
      S.install();
      S.setAllAtomicCountersRelevant(true);
      S.registerObject(pool->mutexAddr());
      cur = L; n = (int) L.progs.size();
      for (int i=0; i<MAXT; i++) {busy[i] = -1; inOp[i] = false; opsDone[i] = 0; busyNext[i] = NULL; stepsInOp[i] = 0;}
      executed.clear(); enabledAt.clear(); planLen = 0;
      for (int i=0; i<n; i++) {Exec * self = this; S.spawn([self, i]() {self->body(i);});}

      std::string out;
      int last = -1;
      std::string ranText;
      if (g_genMode) {Line b = L; b.evs.clear(); ranText = lineTextOf(b);}
      if (plan) for (size_t q=0; q<plan->size(); q++)
      {
         const int i = (*plan)[q].first;
         while((i < n)&&(opsDone[i] < (*plan)[q].second)&&(S.runnable(i))&&(executed.size() < TAIL_CAP))
         {
            g_T.slice.clear();
            if (g_genMode) {g_pendingLine = ranText + " " + cs(i); ranText = g_pendingLine;}
            noteEnabled(); countStep(i); (void) S.grant(i); executed.push_back(i); afterStep(); last = i;
         }
         planLen = executed.size();
      }
      for (size_t e=0; e<L.evs.size(); e++)
      {
         const int i = L.evs[e];
         if (g_genMode) g_pendingLine = ranText + " " + cs(i);
         g_T.slice.clear();
         const bool en = (i < n)&&(S.runnable(i));
         if (en) {noteEnabled(); countStep(i);}
         const vh::CoopScheduler::StepResult r = (i < n) ? S.grant(i) : vh::CoopScheduler::STEP_SKIPPED;
         if (!out.empty()) out += " ";
         out += cs(i) + ":";
         if (r == vh::CoopScheduler::STEP_SKIPPED) out += "-";
         else {afterStep(); out += g_T.slice + "=" + digest(); executed.push_back(i); if (g_genMode) ranText += " " + cs(i); last = i;}
      }
      out += out.empty() ? "|" : " |";
      for (int steps=0; steps<TAIL_CAP; steps++)
      {
         int pick = -1;
         if ((policy == 1)&&(last >= 0)&&(S.runnable(last))) pick = last;
         else for (int i=0; i<n; i++) if (S.runnable(i)) {pick = i; break;}
         if (pick < 0) break;
         g_T.slice.clear();
         if (g_genMode) {g_pendingLine = ranText + " " + cs(pick); ranText = g_pendingLine;}
         noteEnabled(); countStep(pick);
         (void) S.grant(pick);
         afterStep();
         out += " " + cs(pick) + ":" + g_T.slice + "=" + digest();
         executed.push_back(pick); last = pick;
      }
      const bool done = S.allFinished();
      out += done ? " done" : " livelock";
      out += " cur=" + vh::u64s(pool->cur()) + " L=" + pool->slabsText();
      if (!done)
      {
         g_T.fail("some thread did not finish although no step of this engine can block");
         if (S.abortAll() == false) {fprintf(stderr, "rc: cannot unwind\n"); fflush(stdout); _exit(3);}
      }
      // tear-down on the controller thread (hooks pass through): drop every reference, then the pool.
      // DIRECT ORACLE (end of run): every object was released exactly once per hand-out, nothing leaks, the pool is all free.
      g_T.yieldInDtor = false;
      g_T.slice.clear();
      for (int t=0; t<MAXT; t++) for (int a=0; a<NSLOTS; a++) slot[t][a].Reset();
      for (int g=0; g<NGLOB; g++) glob[g].Reset();
      {
         // objects abandoned by SetRef(p,false)/Neutralize() (count 0, alive): released here, by hand, as their owner would have to
         std::vector<Obj *> ab;
         for (std::map<const void *, Info>::const_iterator it = g_T.objs.begin(); it != g_T.objs.end(); ++it) if ((it->second.alive)&&(it->second.abandoned)&&(((const Obj *)it->first)->GetRefCount() == 0)) ab.push_back((Obj *) it->first);
         for (size_t k=0; k<ab.size(); k++) {if (g_T.objs.count(ab[k]) == 0) continue; if (ab[k]->GetManager()) ab[k]->GetManager()->RecycleObject(ab[k]); else delete ab[k];}
      }
      if (done)
      {
         for (std::map<const void *, Info>::const_iterator it = g_T.objs.begin(); it != g_T.objs.end(); ++it)
         {
            if (it->second.alive) g_T.fail("object " + cs(it->second.canon) + " is still alive after every reference was dropped (leak)");
            if (it->second.acq != it->second.rel) g_T.fail("object " + cs(it->second.canon) + ": hand-outs " + vh::u64s(it->second.acq) + " vs releases " + vh::u64s(it->second.rel) + " at the end");
         }
         if (g_T.heapLive != 0) g_T.fail("heap objects leaked: " + vh::u64s(g_T.heapLive));
         pool->sanity(); pool->structure(g_T);
         if (!pool->allFree()) g_T.fail("a slab is still in use after every reference was dropped");
      }
      g_poolNative = NULL;
      if (pool->allFree()) delete pool; /* else: deleting it would MCRASH; leak it (already reported) */
      pool = NULL;
      if ((done)&&(g_T.nodeCtors != g_T.nodeDtors)) g_T.fail("slab nodes constructed " + vh::u64s((uint64_t)g_T.nodeCtors) + " vs destroyed " + vh::u64s((uint64_t)g_T.nodeDtors));
      g_T.active = false; g_T.yieldInDtor = true;
      g_pendingLine.clear();
      return out;
   }
};

// ---------------------------------------------------------------------------------------------------------------------
// `stress <kind> <threads> <rounds>`: REAL, UNSCHEDULED threads (the verification hook is uninstalled: every hook site is
// a pass-through), released together from a spin barrier.  This is a PROVOCATION, not a model of a schedule: it exists
// for races below the hook granularity (e.g. a decrement and its zero-test split inside AtomicDecrement), which the
// cooperative scheduler cannot place.  The outcome of a correct library is a constant (which the Lean engine echoes):
//    lastrefs  every thread holds one counting Ref to the same fresh object (heap in even rounds, pooled in odd ones) and
//              drops it right after the barrier: exactly one release per round          -> ok rounds=<n> released=<n>
//    churn     threads obtain 3 pooled objects and release them, slab size 2, pool limit 0 (first half) / 1 (second half),
//              so slabs are created and deleted constantly: nothing handed out twice, everything released once,
//              PerformSanityCheck(), pool all free at the end                           -> ok rounds=<n> released=<3*threads*n>
//    pop       every thread builds head->second in Refs of its own and pops it (a = a->next), heap / pooled alternating,
//              no sharing: regression for /repo 3dba531 under real timing                -> ok rounds=<n> released=<2*threads*n>
class SObj : public RefCountable
{
public:
   std::atomic<int> state;     // 1 = constructed (heap) / handed out (pooled) and not yet released; 0 = released / free
   std::atomic<int> owner;     // churn: who holds it (-1 = nobody)
   uint32 canary;
   bool isHeap;
   Ref<SObj> next;
   static std::atomic<uint64_t> released, doubleRelease, slabFreedWhileOut, damaged;

   SObj() : state(0), owner(-1), canary(CANARY), isHeap(false) {}
   SObj & operator=(const SObj & rhs)   // ObjectPool::ReleaseObject(): *obj = GetDefaultObject()
   {
      if (canary != CANARY) damaged++;
      if (state.exchange(0) == 1) released++; else doubleRelease++;
      next = rhs.next;
      return *this;
   }
   virtual ~SObj()
   {
      if (canary != CANARY) damaged++;
      if (isHeap) {if (state.exchange(0) == 1) released++; else doubleRelease++;}
      else if (state.load() != 0) slabFreedWhileOut++;
      canary = 0;
   }
private:
   SObj(const SObj &);
};
std::atomic<uint64_t> SObj::released(0), SObj::doubleRelease(0), SObj::slabFreedWhileOut(0), SObj::damaged(0);
typedef Ref<SObj> SObjRef;
typedef ObjectPool<SObj> SDefPool;
typedef ObjectPool<SObj, sizeof(SDefPool::ObjectSlabData) + 2*sizeof(SDefPool::ObjectNode)> SPool;   // 2 objects per slab

struct SpinBarrier
{
   std::atomic<uint32_t> count, gen; uint32_t n;
   explicit SpinBarrier(uint32_t k) : count(0), gen(0), n(k) {}
   void wait()
   {
      const uint32_t g = gen.load(std::memory_order_acquire);
      if (count.fetch_add(1, std::memory_order_acq_rel)+1 == n) {count.store(0, std::memory_order_relaxed); gen.store(g+1, std::memory_order_release);}
      else {uint32_t spins = 0; while(gen.load(std::memory_order_acquire) == g) if (++spins > 2000) {sched_yield(); spins = 0;}}
   }
};

struct Stress
{
   enum {MAXK = 8, PER_ROUND = 3};
   std::atomic<uint64_t> handedOutTwice, wrongOwner, early, wrongCount, nullObj;
   uint64_t firstBadRound;
   Stress() : handedOutTwice(0), wrongOwner(0), early(0), wrongCount(0), nullObj(0), firstBadRound(0) {}

   static SObj * make(SPool * pool, bool heap, std::atomic<uint64_t> & twice, std::atomic<uint64_t> & nul)
   {
      SObj * o;
      if (heap) {o = new SObj; o->isHeap = true;} else o = pool->ObtainObject();
      if (o == NULL) {nul++; return NULL;}
      if (o->state.exchange(1) != 0) twice++;      // handed out while somebody else still has it
      return o;
   }

   static bool poolAllFree(SPool & p) {for (SPool::ObjectSlab * sl = p._firstSlab; sl; sl = sl->GetNext()) if (sl->IsInUse()) return false; return true;}

   std::string run(const std::string & kind, uint32_t k, uint64_t rounds)
   {
      g_stressKind = (kind == "lastrefs") ? "lastrefs" : ((kind == "churn") ? "churn" : "pop"); g_stressThreads = k; g_stressRound = 0;
      SObj::released = 0; SObj::doubleRelease = 0; SObj::slabFreedWhileOut = 0; SObj::damaged = 0;
      handedOutTwice = 0; wrongOwner = 0; early = 0; wrongCount = 0; nullObj = 0; firstBadRound = 0;
      SPool * poolA = new SPool((kind == "churn") ? 0 : 1);
      SPool * poolB = new SPool(1);
      uint64_t expected = 0;
      std::vector<std::thread> th;
      SpinBarrier bar(k);          // these outlive the threads (joined below)
      SObjRef slots[MAXK];
      Stress * self = this;
      if (kind == "lastrefs")
      {
         expected = rounds;
         for (uint32_t i=0; i<k; i++) th.push_back(std::thread([=, &bar, &slots]() {
            for (uint64_t r=0; r<rounds; r++)
            {
               if (i == 0)
               {
                  g_stressRound.store(r, std::memory_order_relaxed);
                  SObj * o = make(poolA, (r%2) == 0, self->handedOutTwice, self->nullObj);
                  for (uint32_t j=0; j<k; j++) slots[j].SetRef(o);
                  if ((o)&&(o->GetRefCount() != k)) self->wrongCount++;
               }
               bar.wait();
               slots[i].Reset();          // k threads drop the k last references at once
               bar.wait();
               if ((i == 0)&&(self->firstBadRound == 0)&&((SObj::released.load() != r+1)||(SObj::doubleRelease.load() != 0))) self->firstBadRound = r+1;
            }
         }));
      }
      else if (kind == "churn")
      {
         expected = (uint64_t) PER_ROUND * k * rounds;
         for (uint32_t i=0; i<k; i++) th.push_back(std::thread([=, &bar]() {
            bar.wait();
            for (uint64_t r=0; r<rounds; r++)
            {
               SPool * pool = (r < rounds/2) ? poolA : poolB;
               if (i == 0) g_stressRound.store(r, std::memory_order_relaxed);
               SObjRef held[PER_ROUND];
               for (int j=0; j<PER_ROUND; j++)
               {
                  SObj * o = make(pool, false, self->handedOutTwice, self->nullObj);
                  if (o == NULL) continue;
                  int nobody = -1;
                  if (!o->owner.compare_exchange_strong(nobody, (int) i)) self->wrongOwner++;   // somebody else holds this very object
                  if ((o->canary != CANARY)||(o->GetRefCount() != 0)||(o->next() != NULL)) self->early++;   // not in the default state
                  held[j].SetRef(o);
               }
               for (int j=0; j<PER_ROUND; j++) if (held[j]())
               {
                  if (held[j]()->owner.exchange(-1) != (int) i) self->wrongOwner++;
                  held[j].Reset();
               }
               if ((i == 0)&&((r & 1023) == 0)) pool->PerformSanityCheck();
            }
         }));
      }
      else   // pop
      {
         expected = (uint64_t) 2 * k * rounds;
         for (uint32_t i=0; i<k; i++) th.push_back(std::thread([=, &bar]() {
            bar.wait();
            for (uint64_t r=0; r<rounds; r++)
            {
               const bool heap = ((r+i)%2) == 0;
               if (i == 0) g_stressRound.store(r, std::memory_order_relaxed);
               SObjRef a(make(poolB, heap, self->handedOutTwice, self->nullObj));
               SObjRef b(make(poolB, ((r/2+i)%2) == 0, self->handedOutTwice, self->nullObj));
               if ((a() == NULL)||(b() == NULL)) continue;
               const SObj * second = b();
               a()->next = b;
               b.Reset();
               a = a()->next;             // the pop: the old head held the only other reference to `second`
               if ((a() != second)||(second->state.load() != 1)||(second->canary != CANARY)||(second->GetRefCount() != 1)) self->early++;
               a.Reset();
            }
         }));
      }
      for (size_t i=0; i<th.size(); i++) th[i].join();
      g_stressKind = NULL;

      poolA->PerformSanityCheck(); poolB->PerformSanityCheck();
      const bool allFree = poolAllFree(*poolA) && poolAllFree(*poolB);
      const uint64_t rel = SObj::released.load();
      const bool ok = (rel == expected)&&(SObj::doubleRelease.load() == 0)&&(SObj::slabFreedWhileOut.load() == 0)&&(SObj::damaged.load() == 0)&&(handedOutTwice.load() == 0)
                    &&(wrongOwner.load() == 0)&&(early.load() == 0)&&(wrongCount.load() == 0)&&(nullObj.load() == 0)&&(allFree)&&(firstBadRound == 0);
      if (allFree) {delete poolA; delete poolB;}   // else: ~ObjectPool would MCRASH; leak them (reported below)
      if (ok) return "ok rounds=" + vh::u64s(rounds) + " released=" + vh::u64s(rel);
      const std::string msg = "stress " + kind + " threads=" + vh::u64s(k) + " rounds=" + vh::u64s(rounds) + ": releases " + vh::u64s(rel) + " (expected " + vh::u64s(expected) + "), released twice " + vh::u64s(SObj::doubleRelease.load())
         + ", handed out twice " + vh::u64s(handedOutTwice.load()) + ", wrong owner tag " + vh::u64s(wrongOwner.load()) + ", released early / not default " + vh::u64s(early.load()) + ", slab destroyed while an object was out " + vh::u64s(SObj::slabFreedWhileOut.load())
         + ", wrong count " + vh::u64s(wrongCount.load()) + ", canary damaged " + vh::u64s(SObj::damaged.load()) + ", NULL from the pool " + vh::u64s(nullObj.load()) + (allFree ? "" : ", pool not all free at the end") + (firstBadRound ? (", first bad round " + vh::u64s(firstBadRound)) : std::string());
      vh::oracleFail(msg);
      return "fail released=" + vh::u64s(rel) + " expected=" + vh::u64s(expected);
   }
};

static bool parseStress(const std::vector<std::string> & t, std::string & kind, uint64_t & k, uint64_t & rounds)
{
   if ((t.size() != 4)||(t[0] != "stress")) return false;
   kind = t[1];
   if ((kind != "lastrefs")&&(kind != "churn")&&(kind != "pop")) return false;
   if ((!vh::toU64(t[2], k))||(k < 1)||(k > Stress::MAXK)) return false;
   if ((!vh::toU64(t[3], rounds))||(rounds < 1)||(rounds > 10000000)) return false;
   return true;
}

// ---------------------------------------------------------------------------------------------------------------------
struct RCEngine : public vh::Engine
{
   vh::CoopScheduler S;
   Exec X;
   uint64_t lineNo;
   RCEngine() : X(S), lineNo(0) {}

   virtual void reset() {}

   virtual std::string step(const std::vector<std::string> & toks)
   {
      if ((!toks.empty())&&(toks[0] == "stress"))
      {
         std::string kind; uint64_t k, rounds;
         if (!parseStress(toks, kind, k, rounds)) return "bad-op";
         S.uninstall();      // unmanaged threads: every hook site is a pass-through
         Stress st;
         return st.run(kind, (uint32_t) k, rounds);
      }
      Line L;
      if (!parseLine(toks, L)) return "bad-op";
      const std::string r = X.run(L);
      std::vector<std::string> orc = g_T.oracle;
      for (size_t i=0; i<orc.size(); i++) vh::oracleFail(orc[i]);
      if ((lineNo++ % 8) == 0)
      {
         // scheduler self-test: the result must be a function of the line alone
         const std::string r2 = X.run(L);
         if (r2 != r) vh::oracleFail("scheduler self-test: two executions of the same line differ: [" + r + "] vs [" + r2 + "]");
      }
      return r;
   }

   // ---- generator -------------------------------------------------------------------------------------------------
   static std::string opText(char k, int a, int b = -1) {std::string s(1, k); s += (char)('0'+a); if (b >= 0) s += (char)('0'+b); return s;}

   std::string randomOp(vh::Rng & rng, uint32_t poolBias)
   {
      const uint32_t k = rng.below(38);
      const int a = (int) rng.below(NSLOTS), b = (int) rng.below(NSLOTS);
      if (k >= 24)
      {
         if (k < 28) return opText('L', a, b);
         if (k < 29) return opText('U', a);
         if (k < 32) return opText(rng.chance(1,2) ? 'T' : 'Q', a);
         if (k < 34) return opText('Y', a, b);
         if (k < 35) return opText('M', a);
         if (k < 36) return opText('D', a);
         if (k < 37) return opText('Z', a);
         return opText('C', a, b);
      }
      if (k < 5)  return rng.chance(poolBias, 10) ? opText('P', a) : opText('N', a);
      if (k < 9)  return opText('C', a, b);
      if (k < 10) return opText('S', a, b);
      if (k < 15) return opText('R', a);
      if (k < 16) return opText('W', a, b);
      if (k < 19) return opText('X', a, (int) rng.below(NGLOB));
      if (k < 21) return opText('V', a);
      return opText('K', a, b);
   }

   std::string joinOps(const std::vector<std::string> & v) {if (v.empty()) return "-"; std::string s; for (size_t i=0; i<v.size(); i++) {if (i) s += "."; s += v[i];} return s;}

   bool setLine(Line & L, int N, uint32_t maxPool, const std::vector<std::string> & progs)
   {
      std::vector<std::string> t; t.push_back("x"); t.push_back(cs(N)); t.push_back(vh::u64s(maxPool)); t.push_back(vh::u64s(progs.size()));
      for (size_t i=0; i<progs.size(); i++) t.push_back(progs[i]);
      return parseLine(t, L);
   }

   uint32_t pickMaxPool(vh::Rng & rng, int N)
   {
      switch(rng.below(6)) {case 0: return 0; case 1: return 1; case 2: return (uint32_t) N; case 3: return (uint32_t) N+1; case 4: return 0; default: return rng.chance(1,2) ? 100 : (uint32_t)(2*N);}
   }

   void emitLine(FILE * out, const Line & L) {fputs(lineTextOf(L).c_str(), out); fputc('\n', out);}

   // bounded-preemption exploration (stateless, by re-execution) behind a fixed prefix: schedules with at most `bound`
   // preemptions, fewest first, each emitted as a fully explicit event list
   struct Item {std::vector<int> prefix; int cost;};
   void explore(FILE * out, const Line & base, const std::vector<std::pair<int,int> > & plan, int bound, uint32_t quota)
   {
      std::vector<std::deque<Item> > work((size_t)bound+1);
      // the set-up prefix
      std::vector<int> pre;
      {Line L = base; L.evs.clear(); (void) X.run(L, 1, &plan); pre.assign(X.executed.begin(), X.executed.begin()+X.planLen);}
      Item first; first.cost = 0; first.prefix = pre; work[0].push_back(first);
      while(quota > 0)
      {
         int lvl = -1;
         for (int b=0; b<=bound; b++) if (!work[(size_t)b].empty()) {lvl = b; break;}
         if (lvl < 0) break;
         const Item it = work[(size_t)lvl].front(); work[(size_t)lvl].pop_front();
         Line L = base; L.evs = it.prefix;
         (void) X.run(L, 1);
         const std::vector<int> ex = X.executed;
         const std::vector<std::vector<int> > en = X.enabledAt;
         Line full = base; full.evs = ex;
         emitLine(out, full); quota--;
         int lastThread = -1;
         for (size_t j=0; j<ex.size(); j++)
         {
            if ((j >= it.prefix.size())&&(j < en.size())) for (size_t a=0; a<en[j].size(); a++)
            {
               if (en[j][a] == ex[j]) continue;
               bool lastRunnable = false;
               for (size_t b=0; b<en[j].size(); b++) if (en[j][b] == lastThread) lastRunnable = true;
               const int cost = ((lastRunnable)&&(en[j][a] != lastThread)) ? 1 : 0;
               if (it.cost+cost > bound) continue;
               Item ni; ni.prefix.assign(ex.begin(), ex.begin()+j); ni.prefix.push_back(en[j][a]); ni.cost = it.cost+cost;
               work[(size_t)ni.cost].push_back(ni);
            }
            lastThread = ex[j];
         }
      }
   }

   virtual void gen(vh::Rng & rng, const vh::Tier & tier, FILE * out)
   {
      g_genMode = true;
      signal(SIGABRT, onFatalSignal); signal(SIGSEGV, onFatalSignal);
      __sanitizer_set_death_callback(emitPendingAndDie);
      const uint32_t nprogs  = tier.thorough ? 400 : 50;     // programs explored per shard
      const uint32_t perProg = tier.thorough ? 600 : 250;    // cap on explored schedules per program (fewest preemptions first)
      const uint32_t nrandom = tier.thorough ? 40000 : 2500;   // random multi-threaded lines per shard
      const uint32_t nsingle = tier.thorough ? 20000 : 1500;   // single-threaded histories per shard
      const int bound = tier.thorough ? 3 : 2;
      uint32_t caseNo = tier.shard*100000;
      for (uint32_t p=0; p<nprogs; p++)
      {
         const int N = (int) rng.range(1, (p%4 == 0) ? 3 : 2);
         const uint32_t maxPool = pickMaxPool(rng, N);
         const uint32_t nt = rng.range(2, (p%3 == 0) ? 3 : 2);
         std::vector<std::string> progs;
         std::vector<std::pair<int,int> > plan;
         const uint32_t shape = rng.below(7);
         if (shape == 4)
         {
            // a linked list built by thread 0 (head -> second [-> third]); every thread gets a reference to the head, then pops / drops concurrently
            std::vector<std::string> p0;
            const char mk = rng.chance(2,3) ? 'P' : 'N';
            p0.push_back(opText(mk, 0)); p0.push_back(opText(mk, 1)); p0.push_back("L01"); p0.push_back("R1");
            if (rng.chance(1,2)) {p0.push_back(opText(mk, 1)); p0.push_back("L10"); p0.push_back("W01"); p0.push_back("R1");}   // third -> head: the new object becomes the head
            for (uint32_t j=1; j<nt; j++) {p0.push_back("C10"); p0.push_back(opText('X', 1, (int)(j-1)));}
            plan.push_back(std::make_pair(0, (int) p0.size()));
            const uint32_t extra0 = rng.range(1, 3);
            for (uint32_t e=0; e<extra0; e++) p0.push_back(rng.chance(1,2) ? std::string(rng.chance(1,2) ? "T0" : "Q0") : (rng.chance(1,2) ? std::string("R0") : randomOp(rng, 8)));
            progs.push_back(joinOps(p0));
            for (uint32_t j=1; j<nt; j++)
            {
               std::vector<std::string> pj; pj.push_back(opText('X', 0, (int)(j-1)));
               plan.push_back(std::make_pair((int) j, 1));
               const uint32_t extra = rng.range(1, 3);
               for (uint32_t e=0; e<extra; e++) pj.push_back(rng.chance(1,2) ? std::string(rng.chance(1,2) ? "T0" : "Q0") : (rng.chance(1,2) ? std::string("R0") : randomOp(rng, 8)));
               progs.push_back(joinOps(pj));
            }
         }
         else if (shape == 5)
         {
            // non-counting Refs: an alias is made, promoted / demoted / neutralized while another thread drops its counting reference
            std::vector<std::string> p0;
            p0.push_back(rng.chance(2,3) ? "P0" : "N0");
            for (uint32_t j=1; j<nt; j++) {p0.push_back("C10"); p0.push_back(opText('X', 1, (int)(j-1)));}
            plan.push_back(std::make_pair(0, (int) p0.size()));
            static const char * W[] = {"Y10", "M1", "R0", "D0", "Z0", "M0", "C21", "R1", "Y20", "M2", "C10", "D1", "K10"};
            const uint32_t extra0 = rng.range(2, 4);
            for (uint32_t e=0; e<extra0; e++) p0.push_back(W[rng.below(13)]);
            progs.push_back(joinOps(p0));
            for (uint32_t j=1; j<nt; j++)
            {
               std::vector<std::string> pj; pj.push_back(opText('X', 0, (int)(j-1)));
               plan.push_back(std::make_pair((int) j, 1));
               const uint32_t extra = rng.range(1, 3);
               for (uint32_t e=0; e<extra; e++) pj.push_back(rng.chance(1,2) ? std::string(W[rng.below(13)]) : std::string("R0"));
               progs.push_back(joinOps(pj));
            }
         }
         else if (shape == 6)
         {
            // single-thread set-up of a chain, then two threads each hold the head and walk it
            std::vector<std::string> p0;
            p0.push_back("P0"); p0.push_back("P1"); p0.push_back("P2"); p0.push_back("L12"); p0.push_back("R2"); p0.push_back("L01"); p0.push_back("R1");
            for (uint32_t j=1; j<nt; j++) {p0.push_back("C10"); p0.push_back(opText('X', 1, (int)(j-1)));}
            plan.push_back(std::make_pair(0, (int) p0.size()));
            p0.push_back(rng.chance(1,2) ? "T0" : "R0"); if (rng.chance(1,2)) p0.push_back("T0");
            progs.push_back(joinOps(p0));
            for (uint32_t j=1; j<nt; j++)
            {
               std::vector<std::string> pj; pj.push_back(opText('X', 0, (int)(j-1)));
               plan.push_back(std::make_pair((int) j, 1));
               pj.push_back(rng.chance(1,2) ? "Q0" : "R0"); if (rng.chance(1,2)) pj.push_back("T0");
               progs.push_back(joinOps(pj));
            }
         }
         else if (shape < 3)
         {
            // thread 0 creates an object and hands one reference to every other thread; then everybody drops/copies concurrently
            std::vector<std::string> p0;
            p0.push_back(rng.chance(3,4) ? "P0" : "N0");
            if (rng.chance(1,3)) p0.push_back("V0");
            for (uint32_t j=1; j<nt; j++) {p0.push_back("C10"); p0.push_back(opText('X', 1, (int)(j-1)));}
            plan.push_back(std::make_pair(0, (int) p0.size()));
            const uint32_t extra0 = rng.range(1, (nt >= 3) ? 3 : 4);
            for (uint32_t e=0; e<extra0; e++) p0.push_back((rng.chance(1,2)) ? std::string("R0") : randomOp(rng, 8));
            progs.push_back(joinOps(p0));
            for (uint32_t j=1; j<nt; j++)
            {
               std::vector<std::string> pj; pj.push_back(opText('X', 0, (int)(j-1)));
               plan.push_back(std::make_pair((int) j, 1));
               const uint32_t extra = rng.range(1, (nt >= 3) ? 3 : 4);
               for (uint32_t e=0; e<extra; e++) pj.push_back((rng.chance(1,2)) ? std::string("R0") : randomOp(rng, 8));
               progs.push_back(joinOps(pj));
            }
         }
         else
         {
            // pool contention: every thread obtains and releases on its own
            for (uint32_t j=0; j<nt; j++)
            {
               std::vector<std::string> pj;
               const uint32_t len = rng.range(2, (nt >= 3) ? 3 : 4);
               for (uint32_t e=0; e<len; e++) pj.push_back(rng.chance(1,2) ? opText('P', (int) rng.below(2)) : (rng.chance(2,3) ? opText('R', (int) rng.below(2)) : randomOp(rng, 9)));
               progs.push_back(joinOps(pj));
            }
         }
         Line L; if (!setLine(L, N, maxPool, progs)) continue;
         fprintf(out, "case %u\n", caseNo++);
         explore(out, L, plan, bound, perProg);
      }
      // random beyond the bound: arbitrary programs and event lists (disabled events are skipped, the tail rule completes the run)
      for (uint32_t k=0; k<nrandom; k++)
      {
         if ((k % 50) == 0) fprintf(out, "case %u\n", caseNo++);
         const int N = (int) rng.range(1, MAXN);
         const uint32_t nt = rng.range(2, 4);
         std::vector<std::string> progs;
         const uint32_t poolBias = rng.range(3, 10);
         for (uint32_t i=0; i<nt; i++)
         {
            std::vector<std::string> pj;
            const uint32_t len = rng.chance(1,12) ? 0 : rng.range(3, 12);
            for (uint32_t e=0; e<len; e++) pj.push_back(randomOp(rng, poolBias));
            progs.push_back(joinOps(pj));
         }
         Line L; if (!setLine(L, N, pickMaxPool(rng, N), progs)) continue;
         const uint32_t nev = rng.chance(1,6) ? 0 : rng.range(1, 120);
         int curT = (int) rng.below(nt);
         for (uint32_t e=0; e<nev; e++)
         {
            if (rng.chance(1,3)) curT = (int) rng.below(nt + (rng.chance(1,20) ? 1 : 0));
            L.evs.push_back(curT);
         }
         g_pendingLine = lineTextOf(L);
         emitLine(out, L);
      }
      // single-threaded histories
      for (uint32_t k=0; k<nsingle; k++)
      {
         if ((k % 50) == 0) fprintf(out, "case %u\n", caseNo++);
         const int N = (int) rng.range(1, MAXN);
         std::vector<std::string> pj;
         const uint32_t len = rng.range(1, 30);
         const uint32_t poolBias = rng.range(5, 10);
         for (uint32_t e=0; e<len; e++) pj.push_back(randomOp(rng, poolBias));
         std::vector<std::string> progs; progs.push_back(joinOps(pj));
         Line L; if (!setLine(L, N, pickMaxPool(rng, N), progs)) continue;
         emitLine(out, L);
      }
      g_pendingLine.clear();
      // provocation by real, unscheduled threads (testing, not part of the model): a few lines per shard, fixed sizes per tier
      {
         const uint64_t f = tier.thorough ? 3 : 1;
         fprintf(out, "case %u\n", caseNo++);
         fprintf(out, "stress lastrefs 2 %llu\n", (unsigned long long)(200000*f));
         fprintf(out, "stress lastrefs 3 %llu\n", (unsigned long long)(60000*f));
         fprintf(out, "stress lastrefs 4 %llu\n", (unsigned long long)(30000*f));
         fprintf(out, "stress churn 3 %llu\n",    (unsigned long long)(20000*f));
         fprintf(out, "stress churn 4 %llu\n",    (unsigned long long)(10000*f));
         fprintf(out, "stress pop 2 %llu\n",      (unsigned long long)(50000*f));
         fprintf(out, "stress pop 4 %llu\n",      (unsigned long long)(20000*f));
      }
   }
};

} // namespace

int main(int argc, char ** argv)
{
   CompleteSetupSystem css;
   {for (int k=1; k<=MAXN; k++) {PoolBase * p = makePool(k, 0); delete p;}}   // builds the default-object singletons before any run
   RCEngine e;
   __sanitizer_set_death_callback(emitPendingAndDie);   // run mode too: says which stress op (and round) a sanitizer abort happened in
   return vh::harnessMain(argc, argv, e);
}
