// Engine `gw` (C03; gateway part of C02): REAL sender and receiver gateway objects of every stream
// gateway kind, connected by a transport whose every Read/Write transfers exactly the number of
// bytes the op line's schedule says (0 = would block).
//
// Op lines (see FRAMEWORK.md for the token conventions):
//   run  <kind> <param> <sched> <unit> <unit> ...   send the units through a sender/receiver pair
//   wire <kind> <param> <unit> ...                  all bytes the sender writes for the units (whole-buffer transport)
//   feed <kind> <param> <sched> x<hex>              ARBITRARY bytes pushed into a receiver (hostile input)
//   share <enc> <unit A> <unit B> <unit S>          S tagged for multi-gateway reuse, sent after A on link 1 and after B on link 2
//   bigws <dir> <flattened size>                    one big Message through a WebSocket pair
//   tcache <enc>/<cacheBytes> <id>/<tsize>/x<layout>/x<msg> ...   template-cache protocol: frame form chosen per Message, deliveries
// kinds / param:  bin <enc 0..9> | tmpl <enc>/<cacheBytes> | text <eol 0=CRLF 1=LF 2=CR> | raw <minChunk> | slip 0
//                 | ws <dir 0=server->client 1=client->server>/<handshake 0=none 1=whole 2=halves 4=byte by byte> or ws <dir>/3/<cut after byte>
//                 | m2c 0 | c2m 0 | u2c 0 | c2u 0
// units: bin/tmpl/ws/C kinds: x<flattened Message>;  text: lines `x..` joined by '/' (`-` = a Message without lines);
//        raw/slip: chunks joined by '/'.
// sched: items joined by ',' (`-` = empty):  a = queue the next unit on the sender;  e<n> = SetOutgoingEncoding(n) (bin, tmpl);
//        o<maxBytes>:<grants> = one DoOutput(maxBytes);  i<maxBytes>:<grants> = one DoInput(maxBytes);  optional suffix *<count>.
//        grants: `u` (every Read/Write of the call transfers all it asks for) or g.g.g with g = <bytes>[^<repeat>]; a call that
//        performs more Reads/Writes than it has grants gets 0 bytes (would block) for the rest.  A zero-size Read/Write
//        transfers nothing and consumes no grant.
// After the schedule the link is DRAINED: remaining units are queued and DoOutput/DoInput are called with unlimited
// grants until nothing moves.  Result: `ok mid=<delivered>/<bytes in transit>/<HasBytesToOutput> end=<receiver error>/<drained>
// n=<deliveries> <delivered unit> ...` (mid = state right after the scheduled part; `-` where the wire bytes cannot be
// predicted by the model: zlib, templating, masked or handshaking WebSocket).
#include <deque>
#include <map>
#include "libvh/vh.h"
#include "message/Message.h"
#include "dataio/DataIO.h"
#include "iogateway/MessageIOGateway.h"
#include "iogateway/TemplatingMessageIOGateway.h"
#include "iogateway/PlainTextMessageIOGateway.h"
#include "iogateway/RawDataMessageIOGateway.h"
#include "iogateway/SLIPFramedDataMessageIOGateway.h"
#include "iogateway/WebSocketMessageIOGateway.h"
#include "util/ByteBuffer.h"
#include "syslog/SysLog.h"
#include "gw_c.h"

using namespace muscle;
using namespace vh;

// ------------------------------------------------------------------------------------ transport
struct Pipe {std::deque<uint8_t> q; std::string log;};   // log = every byte ever written

struct Chan   // one endpoint's view: where it reads, where it writes, and the grants of the call in progress
{
   Pipe * rd; Pipe * wr;
   std::vector<uint32_t> grants; size_t gi; bool unlimited;
   Chan() : rd(NULL), wr(NULL), gi(0), unlimited(false) {}
   void setGrants(const std::vector<uint32_t> & g, bool u) {grants = g; gi = 0; unlimited = u;}
   uint32_t next() {if (unlimited) return 0xFFFFFFFFu; return (gi < grants.size()) ? grants[gi++] : 0;}
   int32_t doRead(uint8_t * b, uint32_t size)
   {
      if ((size == 0)||(rd == NULL)) return 0;
      uint32_t n = next(); if (n > size) n = size; if (n > rd->q.size()) n = (uint32_t) rd->q.size();
      for (uint32_t i=0; i<n; i++) {b[i] = rd->q.front(); rd->q.pop_front();}
      return (int32_t) n;
   }
   int32_t doWrite(const uint8_t * b, uint32_t size)
   {
      if ((size == 0)||(wr == NULL)) return 0;
      uint32_t n = next(); if (n > size) n = size;
      for (uint32_t i=0; i<n; i++) wr->q.push_back(b[i]);
      wr->log.append((const char *) b, n);
      return (int32_t) n;
   }
};
static int32_t chanRead(uint8_t * b, uint32_t n, void * arg)  {return ((Chan *)arg)->doRead(b, n);}
static int32_t chanWrite(uint8_t * b, uint32_t n, void * arg) {return ((Chan *)arg)->doWrite(b, n);}

class ScheduledDataIO : public DataIO
{
public:
   ScheduledDataIO(Chan * c) : _c(c) {}
   virtual io_status_t Read(void * buffer, uint32 size) {return io_status_t(_c->doRead((uint8_t *) buffer, size));}
   virtual io_status_t Write(const void * buffer, uint32 size) {return io_status_t(_c->doWrite((const uint8_t *) buffer, size));}
   virtual void FlushOutput() {}
   virtual void Shutdown() {}
   virtual const ConstSocketRef & GetReadSelectSocket() const {return GetNullSocket();}
   virtual const ConstSocketRef & GetWriteSelectSocket() const {return GetNullSocket();}
private:
   Chan * _c;
};

// ------------------------------------------------------------------------------------ units
enum {U_MSG = 0, U_TEXT, U_RAW, U_SLIP};

struct Deliv {uint32_t ncalls; std::vector<std::string> units; std::string stream; Deliv() : ncalls(0) {}};

class Collector : public AbstractGatewayMessageReceiver
{
public:
   Collector(int mode, Deliv * d) : _mode(mode), _d(d) {}
protected:
   virtual void MessageReceivedFromGateway(const MessageRef & msg, void *)
   {
      _d->ncalls++;
      if (msg() == NULL) {_d->units.push_back("NULL"); return;}
      if (_mode == U_MSG)
      {
         std::string f(msg()->FlattenedSize(), '\0');
         msg()->FlattenToBytes((uint8 *) &f[0]);
         _d->units.push_back(f);
      }
      else if (_mode == U_TEXT)
      {
         const String * s;
         for (uint32 i=0; msg()->FindString(PR_NAME_TEXT_LINE, i, &s).IsOK(); i++) _d->units.push_back(std::string(s->Cstr(), s->Length()));
      }
      else
      {
         const void * p; uint32 n;
         for (uint32 i=0; msg()->FindData(PR_NAME_DATA_CHUNKS, B_ANY_TYPE, i, &p, &n).IsOK(); i++)
         {
            if (_mode == U_RAW) _d->stream.append((const char *) p, n); else _d->units.push_back(std::string((const char *) p, n));
         }
      }
   }
private:
   int _mode; Deliv * _d;
};

static bool splitParts(const std::string & tok, std::vector<std::string> & parts)   // `-` or x../x../..
{
   parts.clear();
   if (tok == "-") return true;
   std::vector<std::string> p = split(tok, '/');
   if (p.empty()) return false;
   for (size_t i=0; i<p.size(); i++) {std::string b; if (!unhex(p[i], b)) return false; parts.push_back(b);}
   return true;
}

// what the sent units should arrive as (the direct oracle's expectation)
struct Expect {std::vector<std::string> units; std::string stream; bool comparable; Expect() : comparable(true) {}};

static MessageRef unitToMessage(int mode, const std::string & tok, Expect & ex)
{
   if (mode == U_MSG)
   {
      std::string b; if (!unhex(tok, b)) return MessageRef();
      uint8_t * copy = (uint8_t *) malloc(b.size() ? b.size() : 1); memcpy(copy, b.data(), b.size());
      MessageRef m = GetMessageFromPool();
      const status_t r = m()->UnflattenFromBytes(copy, (uint32) b.size());
      free(copy);
      if (r.IsError()) return MessageRef();
      std::string f(m()->FlattenedSize(), '\0'); m()->FlattenToBytes((uint8 *) &f[0]);
      ex.units.push_back(f);
      return m;
   }
   std::vector<std::string> parts; if (!splitParts(tok, parts)) return MessageRef();
   MessageRef m = GetMessageFromPool((mode == U_TEXT) ? PR_COMMAND_TEXT_STRINGS : PR_COMMAND_RAW_DATA);
   for (size_t i=0; i<parts.size(); i++)
   {
      const std::string & p = parts[i];
      if (mode == U_TEXT)
      {
         if (p.find_first_of(std::string("\r\n\0", 3)) != std::string::npos) ex.comparable = false;  // not a "line": outside the property's unit
         if (m()->AddString(PR_NAME_TEXT_LINE, String(p.data(), (uint32) p.size())).IsError()) return MessageRef();
         ex.units.push_back(p);
      }
      else
      {
         if (m()->AddFlat(PR_NAME_DATA_CHUNKS, GetByteBufferFromPool((uint32) p.size(), (const uint8 *) p.data())).IsError()) return MessageRef();
         if (mode == U_RAW) ex.stream += p; else if (!p.empty()) ex.units.push_back(p);   // the SLIP decoder drops empty frames
      }
   }
   return m;
}

// ------------------------------------------------------------------------------------ endpoints
struct Tx
{
   virtual ~Tx() {}
   virtual bool add(const std::string & tok, Expect & ex) = 0;
   virtual int64_t out(uint32_t maxBytes) = 0;
   virtual bool hasOut() = 0;
   virtual bool err() {return false;}
   virtual bool setEnc(uint32_t) {return false;}
};
struct Rx
{
   virtual ~Rx() {}
   virtual int64_t in(uint32_t maxBytes) = 0;
   virtual bool err() = 0;
};

struct CppTx : public Tx
{
   AbstractMessageIOGatewayRef gw; int mode; Chan * ch;
   CppTx(const AbstractMessageIOGatewayRef & g, int m, Chan * c) : gw(g), mode(m), ch(c) {}
   virtual bool add(const std::string & tok, Expect & ex) {MessageRef m = unitToMessage(mode, tok, ex); if (m() == NULL) return false; (void) gw()->AddOutgoingMessage(m); return true;}
   virtual int64_t out(uint32_t maxBytes) {const io_status_t r = gw()->DoOutput(maxBytes); return r.IsError() ? -1 : (int64_t) r.GetByteCount();}
   virtual bool hasOut() {return gw()->HasBytesToOutput();}
   virtual bool err() {return gw()->GetUnrecoverableErrorStatus().IsError();}
   virtual bool setEnc(uint32_t e)
   {
      MessageIOGateway * m = dynamic_cast<MessageIOGateway *>(gw());
      if ((m == NULL)||(e > 9)) return false;
      m->SetOutgoingEncoding(MUSCLE_MESSAGE_ENCODING_DEFAULT + (int32) e);
      return true;
   }
};
struct CppRx : public Rx
{
   AbstractMessageIOGatewayRef gw; Collector col; bool sawErr;
   CppRx(const AbstractMessageIOGatewayRef & g, int mode, Deliv * d) : gw(g), col(mode, d), sawErr(false) {}
   virtual int64_t in(uint32_t maxBytes) {const io_status_t r = gw()->DoInput(col, maxBytes); if (r.IsError()) sawErr = true; return r.IsError() ? -1 : (int64_t) r.GetByteCount();}
   virtual bool err() {return sawErr || gw()->GetUnrecoverableErrorStatus().IsError();}
};
struct CTx : public Tx
{
   CGw * gw; Chan * ch; bool bad;
   CTx(CGw * g, Chan * c) : gw(g), ch(c), bad(false) {}
   virtual ~CTx() {delete gw;}
   virtual bool add(const std::string & tok, Expect & ex)
   {
      // the expectation is what the C++ codec makes of the same bytes (C08 ties the codecs; here: the framing)
      Expect tmp; MessageRef m = unitToMessage(U_MSG, tok, tmp); if (m() == NULL) return false;
      std::string b; (void) unhex(tok, b);
      if (!gw->add(b)) return false;
      ex.units.push_back(tmp.units[0]);
      return true;
   }
   virtual int64_t out(uint32_t maxBytes) {const int32_t r = gw->out(maxBytes, chanWrite, ch); if (r < 0) bad = true; return r;}
   virtual bool hasOut() {return gw->hasOut();}
   virtual bool err() {return bad;}
};
struct CRx : public Rx
{
   CGw * gw; Chan * ch; Deliv * d; bool bad;
   CRx(CGw * g, Chan * c, Deliv * dd) : gw(g), ch(c), d(dd), bad(false) {}
   virtual ~CRx() {delete gw;}
   virtual int64_t in(uint32_t maxBytes)
   {
      if (bad) return -1;   // the C gateways have no sticky error state: the caller is expected to drop the connection
      std::string f; bool got = false;
      const int32_t r = gw->in(maxBytes, chanRead, ch, f, got);
      if (got) {d->ncalls++; d->units.push_back(f);}
      if (r < 0) bad = true;
      return r;
   }
   virtual bool err() {return bad;}
};

// ------------------------------------------------------------------------------------ a link of one kind
struct Link
{
   Pipe fwd, back;         // fwd: sender -> receiver;  back: only used by the WebSocket handshake
   Chan txc, rxc;
   Tx * tx; Rx * rx;
   Deliv deliv; Expect expect;
   int mode; bool predictable; bool wirePredictable; uint32_t minChunk;
   std::string kind;
   AbstractMessageIOGatewayRef txg, rxg;
   Link() : tx(NULL), rx(NULL), mode(U_MSG), predictable(true), wirePredictable(true), minChunk(0) {}
   ~Link() {delete tx; delete rx;}
};

static bool parseSlash(const std::string & tok, std::vector<uint64_t> & v)
{
   v.clear();
   std::vector<std::string> p = split(tok, '/');
   for (size_t i=0; i<p.size(); i++) {uint64_t x; if (!toU64(p[i], x)) return false; v.push_back(x);}
   return !v.empty();
}

// Hands the bytes waiting in (c)'s read pipe to (gw) in pieces, with a would-block (a DoInput call that finds nothing more) after each piece.
// mode 1: all at once; 2: two halves; 3: cut after byte (cut); 4: one byte at a time (a would-block at EVERY byte boundary)
static void inputPieces(AbstractMessageIOGateway * gw, Chan & c, Collector & sink, uint32_t mode, uint32_t cut)
{
   Pipe & p = *c.rd;
   std::deque<uint8_t> all; all.swap(p.q);
   std::vector<uint32_t> none; c.setGrants(none, true);
   size_t first = all.size();
   if (mode == 2) first = all.size()/2; else if (mode == 3) first = (cut < all.size()) ? cut : all.size(); else if (mode == 4) first = 1;
   while(!all.empty())
   {
      for (size_t i=0; (i<first)&&(!all.empty()); i++) {p.q.push_back(all.front()); all.pop_front();}
      (void) gw->DoInput(sink);
      (void) gw->DoInput(sink);   // nothing there: a pure would-block call
      if (mode != 4) first = all.size();
   }
}

static void pumpHandshake(AbstractMessageIOGateway * cl, Chan & cc, AbstractMessageIOGateway * sv, Chan & sc, Collector & sink, uint32_t mode, uint32_t cut)
{
   std::vector<uint32_t> none;
   for (int round=0; round<6; round++)
   {
      cc.setGrants(none, true); sc.setGrants(none, true);
      if (mode == 4) {while(cl->DoOutput(7).GetByteCount() > 0) {}} else (void) cl->DoOutput();    // mode 4: the HTTP text also leaves in short writes
      inputPieces(sv, sc, sink, mode, cut);
      cc.setGrants(none, true); sc.setGrants(none, true);
      if (mode == 4) {while(sv->DoOutput(7).GetByteCount() > 0) {}} else (void) sv->DoOutput();
      inputPieces(cl, cc, sink, mode, cut);
   }
}

static Link * makeLink(const std::string & kind, const std::string & param)
{
   std::vector<uint64_t> pv; if (!parseSlash(param, pv)) return NULL;
   Link * L = new Link; L->kind = kind;
   L->txc.wr = &L->fwd; L->rxc.rd = &L->fwd;
   DataIORef txio(new ScheduledDataIO(&L->txc)), rxio(new ScheduledDataIO(&L->rxc));
   if (kind == "bin")
   {
      if ((pv.size() != 1)||(pv[0] > 9)) {delete L; return NULL;}
      L->txg.SetRef(new MessageIOGateway(MUSCLE_MESSAGE_ENCODING_DEFAULT + (int32) pv[0])); L->rxg.SetRef(new MessageIOGateway);
      L->predictable = L->wirePredictable = (pv[0] == 0);
   }
   else if (kind == "tmpl")
   {
      if ((pv.size() != 2)||(pv[0] > 9)||(pv[1] > 0xFFFFFFFFu)) {delete L; return NULL;}
      L->txg.SetRef(new TemplatingMessageIOGateway((uint32) pv[1], MUSCLE_MESSAGE_ENCODING_DEFAULT + (int32) pv[0]));
      L->rxg.SetRef(new TemplatingMessageIOGateway((uint32) pv[1]));
      L->predictable = L->wirePredictable = false;
   }
   else if (kind == "text")
   {
      if ((pv.size() != 1)||(pv[0] > 2)) {delete L; return NULL;}
      PlainTextMessageIOGateway * t = new PlainTextMessageIOGateway;
      t->SetOutgoingEndOfLineString((pv[0] == 0) ? "\r\n" : (pv[0] == 1) ? "\n" : "\r");
      L->txg.SetRef(t); L->rxg.SetRef(new PlainTextMessageIOGateway); L->mode = U_TEXT;
   }
   else if (kind == "raw")
   {
      if ((pv.size() != 1)||(pv[0] > 1000000)) {delete L; return NULL;}
      L->minChunk = (uint32_t) pv[0];
      L->txg.SetRef(new RawDataMessageIOGateway); L->rxg.SetRef(new RawDataMessageIOGateway((uint32) pv[0])); L->mode = U_RAW;
   }
   else if (kind == "slip")
   {
      if ((pv.size() != 1)||(pv[0] != 0)) {delete L; return NULL;}
      L->txg.SetRef(new SLIPFramedDataMessageIOGateway); L->rxg.SetRef(new SLIPFramedDataMessageIOGateway); L->mode = U_SLIP;
   }
   else if (kind == "ws")
   {
      // <dir>/<handshake>[/<cut>]: handshake 0 = none, 1 = whole, 2 = two halves, 3 = cut after byte <cut>, 4 = one byte at a time
      if ((pv.size() < 2)||(pv[0] > 1)||(pv[1] > 4)||((pv[1] == 3) != (pv.size() == 3))||(pv.size() > 3)||((pv.size() == 3)&&(pv[2] > 100000))) {delete L; return NULL;}
      const bool clientSends = (pv[0] == 1);
      WebSocketMessageIOGateway * cl; WebSocketMessageIOGateway * sv;
      if (pv[1] == 0) {const bool t = true, f = false; cl = new WebSocketMessageIOGateway(&t); sv = new WebSocketMessageIOGateway(&f);}
                 else {cl = new WebSocketMessageIOGateway("/path", "host", "", ""); sv = new WebSocketMessageIOGateway();}
      cl->SetSlaveGateway(AbstractMessageIOGatewayRef(new MessageIOGateway)); sv->SetSlaveGateway(AbstractMessageIOGatewayRef(new MessageIOGateway));
      AbstractMessageIOGatewayRef clr(cl), svr(sv);
      L->txg = clientSends ? clr : svr; L->rxg = clientSends ? svr : clr;
      L->txc.rd = &L->back; L->rxc.wr = &L->back;
      L->predictable = false;                                // (the WebSocket receive loop is not modelled step by step)
      L->wirePredictable = (!clientSends)&&(pv[1] == 0);     // client frames carry a random mask; the handshake a random key
      L->txg()->SetDataIO(txio); L->rxg()->SetDataIO(rxio);
      if (pv[1] != 0)
      {
         Deliv junk; Collector sink(U_MSG, &junk);
         pumpHandshake(cl, clientSends ? L->txc : L->rxc, sv, clientSends ? L->rxc : L->txc, sink, (uint32_t) pv[1], (pv.size() == 3) ? (uint32_t) pv[2] : 0);
         if (junk.ncalls) oracleFail("a Message was delivered during the WebSocket handshake");
         if ((cl->IsHandshakeInProgress())||(sv->IsHandshakeInProgress())||(cl->GetUnrecoverableErrorStatus().IsError())||(sv->GetUnrecoverableErrorStatus().IsError()))
            oracleFail("WebSocket handshake did not complete (client in progress=" + u64s(cl->IsHandshakeInProgress()) + " server in progress=" + u64s(sv->IsHandshakeInProgress()) + " client err=" + u64s(cl->GetUnrecoverableErrorStatus().IsError()) + " server err=" + u64s(sv->GetUnrecoverableErrorStatus().IsError()) + ")");
         L->fwd.log.clear(); L->back.log.clear();
      }
   }
   else if ((kind == "m2c")||(kind == "u2c"))
   {
      if ((pv.size() != 1)||(pv[0] != 0)) {delete L; return NULL;}
      L->tx = new CTx((kind == "m2c") ? newMiniGw() : newMicroGw(), &L->txc);
      L->rxg.SetRef(new MessageIOGateway);
      L->predictable = false;   // the C gateways' call loops are not modelled step by step: wire bytes and deliveries only
   }
   else if ((kind == "c2m")||(kind == "c2u"))
   {
      if ((pv.size() != 1)||(pv[0] != 0)) {delete L; return NULL;}
      L->txg.SetRef(new MessageIOGateway);
      L->rx = new CRx((kind == "c2m") ? newMiniGw() : newMicroGw(), &L->rxc, &L->deliv);
      L->predictable = false;
   }
   else {delete L; return NULL;}
   if (L->txg()) {L->txg()->SetDataIO(txio); L->tx = new CppTx(L->txg, L->mode, &L->txc);}
   if (L->rxg()) {L->rxg()->SetDataIO(rxio); L->rx = new CppRx(L->rxg, L->mode, &L->deliv);}
   return L;
}

// ------------------------------------------------------------------------------------ schedules
struct Item {char what; uint32_t arg; std::vector<uint32_t> grants; bool unlimited; uint32_t count;};

static bool parseGrants(const std::string & s, std::vector<uint32_t> & g, bool & unlimited)
{
   g.clear(); unlimited = false;
   if (s == "u") {unlimited = true; return true;}
   std::vector<std::string> p = split(s, '.');
   if (p.empty()) return false;
   for (size_t i=0; i<p.size(); i++)
   {
      std::vector<std::string> kr = split(p[i], '^');
      uint64_t k, r = 1;
      if ((kr.size() < 1)||(kr.size() > 2)||(!toU64(kr[0], k))||(k > 0xFFFFFFFFu)) return false;
      if ((kr.size() == 2)&&((!toU64(kr[1], r))||(r > 1000000))) return false;
      if (g.size() + r > 2000000) return false;
      for (uint64_t j=0; j<r; j++) g.push_back((uint32_t) k);
   }
   return true;
}

static bool parseSched(const std::string & tok, std::vector<Item> & items)
{
   items.clear();
   if (tok == "-") return true;
   std::vector<std::string> p = split(tok, ',');
   if (p.empty()) return false;
   for (size_t i=0; i<p.size(); i++)
   {
      std::string s = p[i];
      if (s.empty()) return false;
      Item it; it.what = s[0]; it.arg = 0; it.unlimited = false; it.count = 1;
      s = s.substr(1);
      const size_t star = s.find('*');
      if (star != std::string::npos) {uint64_t c; if ((!toU64(s.substr(star+1), c))||(c > 1000000)) return false; it.count = (uint32_t) c; s = s.substr(0, star);}
      if (it.what == 'a') {if (!s.empty()) return false;}
      else if (it.what == 'e') {uint64_t e; if ((!toU64(s, e))||(e > 9)) return false; it.arg = (uint32_t) e;}
      else if ((it.what == 'o')||(it.what == 'i'))
      {
         const size_t colon = s.find(':');
         uint64_t mb;
         if (!toU64((colon == std::string::npos) ? s : s.substr(0, colon), mb)||(mb > 0xFFFFFFFFu)) return false;
         it.arg = (uint32_t) mb;
         if ((colon != std::string::npos)&&(!parseGrants(s.substr(colon+1), it.grants, it.unlimited))) return false;
      }
      else return false;
      items.push_back(it);
   }
   return true;
}

static const uint32_t NOLIM = 0xFFFFFFFFu;

struct GwEngine : public Engine
{
   // -------------------------------------------------------------------------------- execution
   virtual void reset() {}

   static std::string unitsLine(const Link & L)
   {
      std::string s;
      if (L.mode == U_RAW) return " " + hexOf(L.deliv.stream);
      for (size_t i=0; i<L.deliv.units.size(); i++) s += " " + hexOf(L.deliv.units[i]);
      return s;
   }
   static uint32_t ndeliv(const Link & L) {return (L.mode == U_RAW) ? L.deliv.ncalls : (uint32_t) L.deliv.units.size();}

   // prefix check, also used mid-way: nothing lost/duplicated/merged/split/altered so far
   static bool prefixOk(const Link & L)
   {
      if (!L.expect.comparable) return true;
      if (L.mode == U_RAW) return (L.deliv.stream.size() <= L.expect.stream.size())&&(L.expect.stream.compare(0, L.deliv.stream.size(), L.deliv.stream) == 0);
      if (L.deliv.units.size() > L.expect.units.size()) return false;
      for (size_t i=0; i<L.deliv.units.size(); i++) if (L.deliv.units[i] != L.expect.units[i]) return false;
      return true;
   }

   std::string doRun(const std::vector<std::string> & t, bool wireOnly)
   {
      const size_t firstUnit = wireOnly ? 3 : 4;
      if (t.size() < firstUnit) return "bad-op";
      std::vector<Item> items;
      if ((!wireOnly)&&(!parseSched(t[3], items))) return "bad-op";
      Link * L = makeLink(t[1], t[2]);
      if (L == NULL) return "bad-op";
      std::vector<uint32_t> none;
      size_t nextUnit = firstUnit;
      bool bad = false, predictable = L->predictable;
      for (size_t i=0; (i<items.size())&&(!bad); i++)
      {
         const Item & it = items[i];
         for (uint32_t c=0; (c<it.count)&&(!bad); c++)
         {
            switch(it.what)
            {
               case 'a': if (nextUnit < t.size()) {if (!L->tx->add(t[nextUnit++], L->expect)) bad = true;} break;
               case 'e': if (!L->tx->setEnc(it.arg)) bad = true; if (it.arg != 0) predictable = false; break;
               case 'o': L->txc.setGrants(it.grants, it.unlimited); (void) L->tx->out(it.arg); break;
               case 'i': L->rxc.setGrants(it.grants, it.unlimited); (void) L->rx->in(it.arg); break;
            }
         }
      }
      while((!bad)&&(nextUnit < t.size())) if (!L->tx->add(t[nextUnit++], L->expect)) bad = true;
      if (bad) {delete L; return "bad-op";}
      if (!prefixOk(*L)) oracleFail("after the scheduled part the deliveries are not a prefix of what was sent");
      std::string mid = "-";
      if (predictable) mid = u64s(ndeliv(*L)) + "/" + u64s(L->fwd.q.size()) + "/" + u64s(L->tx->hasOut() ? 1 : 0);
      // drain
      uint64_t cap = 64 + 4*(t.size()) + L->fwd.q.size()/256;
      for (size_t i=firstUnit; i<t.size(); i++) {cap += t[i].size()/512; for (size_t j=0; j<t[i].size(); j++) if (t[i][j] == '/') cap += 2;}
      for (uint64_t round=0; round<cap; round++)
      {
         L->txc.setGrants(none, true); L->rxc.setGrants(none, true);
         const uint32_t before = L->deliv.ncalls;
         const int64_t o = L->tx->out(NOLIM);
         const int64_t r = L->rx->in(NOLIM);
         if (L->rx->err()) break;
         if ((o <= 0)&&(r <= 0)&&(L->deliv.ncalls == before)&&((!L->tx->hasOut())||(L->tx->err()))&&(L->fwd.q.empty())) break;
      }
      const bool drained = (!L->tx->hasOut())&&(L->fwd.q.empty());
      std::string res;
      if (wireOnly) res = L->wirePredictable ? ("ok " + hexOf(L->fwd.log)) : std::string("ok -");
      else res = "ok mid=" + mid + " end=" + u64s(L->rx->err() ? 1 : 0) + "/" + u64s(drained ? 1 : 0) + " n=" + u64s(ndeliv(*L)) + unitsLine(*L);
      // ---- the direct oracle: delivered units = sent units, nothing lost, duplicated, merged, split or altered; no error
      if (L->rx->err()) oracleFail("receiver reports an error on a stream produced by the matching sender");
      else if (L->tx->err()) oracleFail("sender reports an error");
      else if (!drained) oracleFail("link does not drain: HasBytesToOutput=" + u64s(L->tx->hasOut()) + " in transit=" + u64s(L->fwd.q.size()));
      else if (L->expect.comparable)
      {
         if (L->mode == U_RAW)
         {
            const std::string & d = L->deliv.stream; const std::string & e = L->expect.stream;
            if (L->minChunk == 0) {if (d != e) oracleFail("raw stream altered: sent " + u64s(e.size()) + " bytes, delivered " + u64s(d.size()));}
            else if ((!prefixOk(*L))||(d.size() % L->minChunk)||(e.size()-d.size() >= L->minChunk)) oracleFail("raw stream (min chunk) altered: sent " + u64s(e.size()) + " bytes, delivered " + u64s(d.size()));
         }
         else if (L->deliv.units.size() != L->expect.units.size()) oracleFail("sent " + u64s(L->expect.units.size()) + " units, delivered " + u64s(L->deliv.units.size()));
         else if (!prefixOk(*L)) oracleFail("a delivered unit differs from the unit sent");
      }
      delete L;
      return res;
   }

   std::string doFeed(const std::vector<std::string> & t)
   {
      if (t.size() != 5) return "bad-op";
      std::vector<Item> items; std::string bytes;
      if ((!parseSched(t[3], items))||(!unhex(t[4], bytes))) return "bad-op";
      for (size_t i=0; i<items.size(); i++) if (items[i].what != 'i') return "bad-op";
      Link * L = makeLink(t[1], t[2]);
      if (L == NULL) return "bad-op";
      for (size_t i=0; i<bytes.size(); i++) L->fwd.q.push_back((uint8_t) bytes[i]);
      std::vector<uint32_t> none;
      for (size_t i=0; i<items.size(); i++) for (uint32_t c=0; c<items[i].count; c++) {L->rxc.setGrants(items[i].grants, items[i].unlimited); (void) L->rx->in(items[i].arg);}
      const uint64_t cap = 64 + bytes.size()/8;
      for (uint64_t round=0; round<cap; round++)
      {
         L->rxc.setGrants(none, true);
         const uint32_t before = L->deliv.ncalls;
         const int64_t r = L->rx->in(NOLIM);
         if ((L->rx->err())||((r <= 0)&&(L->deliv.ncalls == before))) break;
      }
      const std::string res = "ok end=" + u64s(L->rx->err() ? 1 : 0) + "/" + u64s(L->fwd.q.size()) + " n=" + u64s(ndeliv(*L)) + unitsLine(*L);
      delete L;   // C02: the objects must be destructible after any input
      return res;
   }

   // share <enc> <unit A> <unit B> <shared unit>: link 1 carries A then S, link 2 carries B then S, where S is ONE Message
   // object tagged with OptimizeMessageForTransmissionToMultipleGateways() and queued on both senders
   std::string doShare(const std::vector<std::string> & t)
   {
      if (t.size() != 5) return "bad-op";
      Link * L1 = makeLink("bin", t[1]); Link * L2 = makeLink("bin", t[1]);
      if ((L1 == NULL)||(L2 == NULL)) {delete L1; delete L2; return "bad-op";}
      Expect exs; MessageRef shared = unitToMessage(U_MSG, t[4], exs);
      bool bad = (shared() == NULL)||(!L1->tx->add(t[2], L1->expect))||(!L2->tx->add(t[3], L2->expect));
      if (!bad)
      {
         (void) OptimizeMessageForTransmissionToMultipleGateways(shared);
         (void) L1->txg()->AddOutgoingMessage(shared); L1->expect.units.push_back(exs.units[0]);
         (void) L2->txg()->AddOutgoingMessage(shared); L2->expect.units.push_back(exs.units[0]);
      }
      std::string res = "bad-op";
      if (!bad)
      {
         std::vector<uint32_t> none;
         Link * Ls[2] = {L1, L2};
         for (int round=0; round<16; round++) for (int k=0; k<2; k++)
         {
            Ls[k]->txc.setGrants(none, true); Ls[k]->rxc.setGrants(none, true);
            (void) Ls[k]->tx->out(NOLIM); (void) Ls[k]->rx->in(NOLIM);
         }
         res = "ok n=" + u64s(L1->deliv.units.size()) + "," + u64s(L2->deliv.units.size()) + " e=" + u64s(L1->rx->err() ? 1 : 0) + "," + u64s(L2->rx->err() ? 1 : 0);
         for (int k=0; k<2; k++)
         {
            const std::string which = "link " + u64s(k+1) + " of a shared (multi-gateway reuse) Message: ";
            if (Ls[k]->rx->err()) oracleFail(which + "receiver reports an error");
            else if (Ls[k]->deliv.units.size() != Ls[k]->expect.units.size()) oracleFail(which + "sent " + u64s(Ls[k]->expect.units.size()) + " units, delivered " + u64s(Ls[k]->deliv.units.size()));
            else if (!prefixOk(*Ls[k])) oracleFail(which + "a delivered unit differs from the unit sent");
         }
      }
      delete L1; delete L2;
      return res;
   }

   // bigws <dir> <n>: ONE Message of flattened size <n> (built here: the op line stays short) through a WebSocket pair without
   // handshake, whole-buffer transport.  Result `ok end=<receiver error>/<drained> n=<delivered>`
   std::string doBigWs(const std::vector<std::string> & t)
   {
      uint64_t dir, n;
      if ((t.size() != 3)||(!toU64(t[1], dir))||(dir > 1)||(!toU64(t[2], n))||(n < 40)||(n > 64*1024*1024)) return "bad-op";
      Link * L = makeLink("ws", u64s(dir) + "/0");
      if (L == NULL) return "bad-op";
      MessageRef m = GetMessageFromPool(7);
      {
         ByteBufferRef pad = GetByteBufferFromPool((uint32) (n - (12 + 4+4+4+4 + 4+4)));   // header, "pad" field overhead, item count + item length
         if (pad() == NULL) {delete L; return "bad-op";}
         uint8 * b = pad()->GetBuffer(); for (uint32 i=0; i<pad()->GetNumBytes(); i++) b[i] = (uint8) (i*31 + (i>>8));
         (void) m()->AddFlat("pad", pad);
      }
      std::string sent(m()->FlattenedSize(), '\0'); m()->FlattenToBytes((uint8 *) &sent[0]);
      (void) L->txg()->AddOutgoingMessage(m);
      std::vector<uint32_t> none;
      for (int round=0; round<64; round++)
      {
         L->txc.setGrants(none, true); L->rxc.setGrants(none, true);
         const int64_t o = L->tx->out(NOLIM), r = L->rx->in(NOLIM);
         if ((L->rx->err())||((o <= 0)&&(r <= 0))) break;
      }
      const bool drained = (!L->tx->hasOut())&&(L->fwd.q.empty());
      const std::string res = "ok end=" + u64s(L->rx->err() ? 1 : 0) + "/" + u64s(drained ? 1 : 0) + " n=" + u64s(L->deliv.units.size());
      if (L->rx->err()) oracleFail("WebSocket receiver reports an error on a " + u64s(sent.size()) + "-byte Message produced by the matching sender");
      else if ((L->deliv.units.size() != 1)||(L->deliv.units[0] != sent)) oracleFail("a " + u64s(sent.size()) + "-byte Message did not arrive intact over the WebSocket pair");
      delete L;
      return res;
   }

   // what DoesMessageMatchTemplate() compares: the flattenable fields in order (name, type code, item count), recursively; no what-codes
   static void layoutOf(const Message & m, std::string & out)
   {
      out += "{";
      for (MessageFieldNameIterator it = m.GetFieldNameIterator(); it.HasData(); it++)
      {
         const String & fn = it.GetFieldName();
         uint32 tc = 0, cnt = 0;
         if ((m.GetInfo(fn, &tc, &cnt).IsError())||(tc == B_POINTER_TYPE)||(tc == B_TAG_TYPE)) continue;
         out += hexOf((const uint8_t *) fn.Cstr(), fn.Length()) + ":" + u64s(tc) + ":" + u64s(cnt);
         if (tc == B_MESSAGE_TYPE) for (uint32 i=0; i<cnt; i++) {ConstMessageRef sub; if ((m.FindMessage(fn, i, sub).IsOK())&&(sub())) layoutOf(*sub(), out);}
         out += ";";
      }
      out += "}";
   }
   // the token of a tcache unit: <template id>/<template size>/x<layout>/x<flattened Message>, all computed by the real code
   static std::string tcacheUnit(const std::string & flat)
   {
      Message m; if (m.UnflattenFromBytes((const uint8 *) flat.data(), (uint32) flat.size()).IsError()) return "";
      MessageRef t = m.CreateMessageTemplate(); if (t() == NULL) return "";
      std::string lay; layoutOf(m, lay);
      return u64s(m.TemplateHashCode64()) + "/" + u64s(t()->FlattenedSize()) + "/" + hexOf(lay) + "/" + hexOf(flat);
   }

   // tcache <enc>/<cacheBytes> <unit> ...: the template-cache protocol.  A unit carries, next to the Message, its template id, template
   // size and layout AS THE REAL CODE COMPUTES THEM (re-checked here: a wrong claim is a bad-op); the model runs both ends' LRU caches on
   // these.  Result: the frame form the sender chose for each Message, read off the wire (C = full Message + create-template flag,
   // T = payload-only for a cached template, P = plain), receiver error / drained, number delivered.
   std::string doTcache(const std::vector<std::string> & t)
   {
      if (t.size() < 2) return "bad-op";
      Link * L = makeLink("tmpl", t[1]);
      if (L == NULL) return "bad-op";
      bool bad = false;
      for (size_t i=2; (i<t.size())&&(!bad); i++)
      {
         std::vector<std::string> p = split(t[i], '/');
         std::string flat;
         if ((p.size() != 4)||(!unhex(p[3], flat))||(tcacheUnit(flat) != t[i])||(!L->tx->add(p[3], L->expect))) bad = true;
      }
      if (bad) {delete L; return "bad-op";}
      std::vector<uint32_t> none;
      for (size_t round=0; round<t.size()+8; round++)
      {
         L->txc.setGrants(none, true); L->rxc.setGrants(none, true);
         const int64_t o = L->tx->out(NOLIM), r = L->rx->in(NOLIM);
         if ((L->rx->err())||((o <= 0)&&(r <= 0))) break;
      }
      std::string kinds;
      {
         const std::string & w = L->fwd.log; size_t pos = 0;
         while(pos+8 <= w.size())
         {
            const uint32_t lw = ((uint8_t) w[pos]) | (((uint8_t) w[pos+1])<<8) | (((uint8_t) w[pos+2])<<16) | (((uint32_t)(uint8_t) w[pos+3])<<24);
            const bool create = (lw & 0x80000000u) != 0, payload = (((uint8_t) w[pos+7]) & 0x80) != 0;
            kinds.push_back(payload ? 'T' : (create ? 'C' : 'P'));
            pos += 8 + (size_t) (lw & 0x7FFFFFFFu);
         }
      }
      const bool drained = (!L->tx->hasOut())&&(L->fwd.q.empty());
      const std::string res = "ok k=" + kinds + " end=" + u64s(L->rx->err() ? 1 : 0) + "/" + u64s(drained ? 1 : 0) + " n=" + u64s(L->deliv.units.size());
      if (L->rx->err()) oracleFail("templating receiver reports an error on a stream produced by the matching sender (frame forms " + kinds + ")");
      else if (L->tx->err()) oracleFail("templating sender reports an error");
      else if (L->deliv.units.size() != L->expect.units.size()) oracleFail("sent " + u64s(L->expect.units.size()) + " units, delivered " + u64s(L->deliv.units.size()));
      else if (!prefixOk(*L)) oracleFail("a delivered unit differs from the unit sent");
      delete L;
      return res;
   }

   virtual std::string step(const std::vector<std::string> & t)
   {
      if (t[0] == "share") return doShare(t);
      if (t[0] == "tcache") return doTcache(t);
      if (t[0] == "bigws") return doBigWs(t);
      if (t[0] == "run")  return doRun(t, false);
      if (t[0] == "wire") return doRun(t, true);
      if (t[0] == "feed") return doFeed(t);
      return "bad-op";
   }

   // -------------------------------------------------------------------------------- generator
#include "gw_gen.inc"
};

// the C gateways of /repo (one translation unit: see gw_micro.cpp)
#include "gw_mini.cpp"
#include "gw_micro.cpp"

int main(int argc, char ** argv) {SetConsoleLogLevel(MUSCLE_LOG_CRITICALERROR); GwEngine e; return harnessMain(argc, argv, e);}
