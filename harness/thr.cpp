// Engine `thr` (C11): the Message queues of ONE real muscle::Thread, driven by its owner, 0-2 extra sender threads and
// its own internal thread(s) — all REAL threads — under the deterministic cooperative scheduler (libvh/coop.h).
// One op line = one complete execution:
//
//    x <mode s|c> <nusers> <prog_0> … <prog_{n-1}> <event>*
//
//    mode  = s: Thread(useMessagingSockets=true) (socket pair)     c: Thread(false) (wait conditions)
//    prog  = `-` (empty) or a comma-separated list (at most 12) of
//               S          StartInternalThread()
//               s<id>.<k>  SendMessageToInternalThread(Message id; the internal thread answers it with k replies id*10+1 … id*10+k)
//               g G t      GetNextReplyFromInternalThread(ref, 0 / MUSCLE_TIME_NEVER / a finite time)
//               X x        ShutdownInternalThread(true / false)
//               J          WaitForInternalThreadToExit()
//            thread 0 is the owner; threads 1 … n-1 may only send.
//    event = `<i>`  thread i takes one step (from its park point to its next one) if it is runnable, else SKIP
//            `T<i>` the time-out of thread i's timed wait fires if that is legal now, else SKIP
//    threads are numbered: users 0 … n-1, then every internal thread that a start spawns gets the next number.
//    After the listed events the TAIL rule completes the run (lowest runnable thread; else lowest legal time-out; else stop).
//
// Result line: one token per event `<event>:<o>`, o = `-` skipped | `.` ran, nothing returned | `+` the call in progress
//    returned B_NO_ERROR | `t` B_TIMED_OUT | `e` another error | `n` Shutdown on a thread that is not running |
//    `m<id>` / `mN` a receive returned Message id (the owner's call, or the internal thread's loop; N = the NULL reference);
//    then `|`, the tail's tokens, the verdict (`done` | `deadlock B=<unfinished threads>`), and
//    I=<ids the internal threads received> O=<ids the owner received> QI=<ids still queued for the internal thread> QO=<…for the owner>.
//
// Park points: Lock(_queueLock) of either queue, SignalAux() (SIG_SEND / WC_NOTIFY), the select()/Wait() of
// WaitForNextMessageAux (SIG_WAIT / WC_WAIT), THREAD_START, THREAD_JOIN, and a yield point of this harness in front of
// every owner call other than a send.
#include <string>
#include <vector>
#include <set>
#include <map>
#include <algorithm>
#include <deque>
#include <atomic>
#include <thread>
#include <signal.h>
#include "support/NotCopyable.h"
#include "system/Mutex.h"
#include "system/WaitCondition.h"
#include "message/Message.h"
#include "util/DemandConstructedObject.h"
#include "util/Queue.h"
#include "util/ICallbackSubscriber.h"
#include "util/SocketMultiplexer.h"
#include "util/NetworkUtilityFunctions.h"
#include "system/SetupSystem.h"
// The oracle inspects the two Message queues and registers the queue locks / wait conditions with the scheduler.
// Every header that Thread.h includes has been included above, so the define below only opens this one header.
#define private public
#include "system/Thread.h"
#undef private

#include "libvh/vh.h"
#include "libvh/coop.h"

using namespace muscle;

namespace {

enum {MAXU = 3, MAXTID = 16, MAXID = 100, MAXREP = 3, MAXOPS = 12, TAIL_CAP = 4000};
enum {SIDE_INT = 0, SIDE_OWN = 1};   // = Thread::MESSAGE_THREAD_INTERNAL / MESSAGE_THREAD_OWNER

struct OpT {char kind; uint32_t id, nrep; OpT() : kind(0), id(0), nrep(0) {}};

struct Line
{
   bool sock;
   std::vector<std::vector<OpT> > progs;
   std::vector<std::string> progText;
   std::vector<std::pair<bool,int> > evs;   // (isTimeout, thread)
};

static bool parseProg(const std::string & s, std::vector<OpT> & out)
{
   out.clear();
   if (s == "-") return true;
   if (s.empty()) return false;
   std::vector<std::string> parts = vh::split(s, ',');
   for (size_t i=0; i<parts.size(); i++)
   {
      const std::string & p = parts[i];
      OpT o;
      if ((p == "S")||(p == "g")||(p == "G")||(p == "t")||(p == "X")||(p == "x")||(p == "J")) o.kind = p[0];
      else if ((p.size() >= 4)&&(p[0] == 's'))
      {
         const size_t dot = p.find('.');
         if ((dot == std::string::npos)||(p.find('.', dot+1) != std::string::npos)) return false;
         uint64_t id, k;
         if ((!vh::toU64(p.substr(1, dot-1), id))||(!vh::toU64(p.substr(dot+1), k))||(id >= MAXID)||(k > MAXREP)) return false;
         o.kind = 's'; o.id = (uint32_t) id; o.nrep = (uint32_t) k;
      }
      else return false;
      out.push_back(o);
   }
   return (out.size() <= MAXOPS);
}

static bool parseLine(const std::vector<std::string> & t, Line & L)
{
   if ((t.size() < 3)||(t[0] != "x")) return false;
   if ((t[1] != "s")&&(t[1] != "c")) return false;
   L.sock = (t[1] == "s");
   uint64_t n;
   if ((!vh::toU64(t[2], n))||(n < 1)||(n > MAXU)||(t.size() < 3+n)) return false;
   L.progs.clear(); L.evs.clear(); L.progText.clear();
   for (size_t i=0; i<n; i++)
   {
      std::vector<OpT> p;
      if (!parseProg(t[3+i], p)) return false;
      if (i > 0) for (size_t k=0; k<p.size(); k++) if (p[k].kind != 's') return false;   // only the owner starts, receives, shuts down, joins
      L.progs.push_back(p); L.progText.push_back(t[3+i]);
   }
   for (size_t i=3+n; i<t.size(); i++)
   {
      const std::string & e = t[i];
      const bool to = (e[0] == 'T');
      uint64_t k;
      if ((!vh::toU64(to ? e.substr(1) : e, k))||(k >= MAXTID)) return false;
      L.evs.push_back(std::make_pair(to, (int) k));
   }
   return true;
}

static std::string evName(bool to, int i) {return (to ? "T" : "") + vh::u64s((uint64_t)i);}

static std::string progTextOf(const std::vector<OpT> & p)
{
   if (p.empty()) return "-";
   std::string s;
   for (size_t i=0; i<p.size(); i++)
   {
      if (i) s += ",";
      if (p[i].kind == 's') s += "s" + vh::u64s(p[i].id) + "." + vh::u64s(p[i].nrep);
                       else s += p[i].kind;
   }
   return s;
}

static std::string lineTextOf(const Line & L)
{
   std::string s = std::string("x ") + (L.sock ? "s" : "c") + " " + vh::u64s(L.progs.size());
   for (size_t i=0; i<L.progs.size(); i++) s += " " + progTextOf(L.progs[i]);
   for (size_t i=0; i<L.evs.size(); i++) s += " " + evName(L.evs[i].first, L.evs[i].second);
   return s;
}

// Generator mode executes what it generates.  If the real code crashes there, the line being executed is written out
// first, so that the crash reproduces in `run` mode (same scheme as harness/rw.cpp).
static bool g_genMode = false;
static std::string g_pendingLine;
static void emitPendingAndDie()
{
   static bool once = false;
   if ((g_genMode)&&(!once)&&(!g_pendingLine.empty())) {once = true; fputs(g_pendingLine.c_str(), stdout); fputc('\n', stdout); fflush(stdout);}
}
static void onFatalSignal(int sig) {emitPendingAndDie(); signal(sig, SIG_DFL); raise(sig);}
extern "C" void __sanitizer_set_death_callback(void (*cb)(void));

static std::string idName(int id) {return (id < 0) ? std::string("N") : vh::u64s((uint64_t)id);}
static std::string idList(const std::vector<int> & v)
{
   if (v.empty()) return "_";
   std::string s;
   for (size_t i=0; i<v.size(); i++) {if (i) s += ","; s += idName(v[i]);}
   return s;
}

struct Exec;

// The Thread under test: the library's own InternalThreadEntry() loop; each Message is answered with the requested
// number of replies; the NULL Message goes to the base class (B_SHUTTING_DOWN ends the loop).
class TestThread : public Thread
{
public:
   TestThread(bool useSockets, Exec * x) : Thread(useSockets), _x(x) {/* empty */}
   virtual status_t MessageReceivedFromOwner(const MessageRef & msg, uint32 numLeft);
private:
   Exec * _x;
};

// ---------------------------------------------------------------------------------------------------------------------
struct Exec
{
   vh::CoopScheduler & S;
   Exec(vh::CoopScheduler & s) : S(s), T(NULL) {}

   TestThread * T;
   const void * tobj;                    // the Thread as the hooks name it
   bool sock;
   int n;                                // user threads
   std::vector<std::vector<OpT> > progs;
   std::string slice;                    // what the running thread reports for this step
   std::vector<std::string> oracle;
   volatile bool recording;

   // what each side saw (ids; -1 = the NULL reference)
   std::vector<int> recvI, recvO;
   // ghost log for the direct oracle: a global stamp counter orders "send begun" / "send returned"
   struct SendRec {int id; int thread; uint64_t begun, returned;};   // returned = 0 while in progress
   std::vector<SendRec> sendsI;          // SendMessageToInternalThread calls (incl. the NULL of Shutdown), in begin order
   std::vector<SendRec> sendsO;          // SendMessageToOwner calls of the internal thread(s)
   uint64_t stamp;
   bool uniqueIds;
   char curKind[MAXU];                   // the call each user thread is inside (0 = between calls)

   // exploration record
   std::vector<std::pair<bool,int> > executed;
   std::vector<std::vector<std::pair<bool,int> > > enabledAt;

   void fail(const std::string & msg) {if ((oracle.size() < 8)&&(std::find(oracle.begin(), oracle.end(), msg) == oracle.end())) oracle.push_back(msg);}

   std::vector<int> peek(int side) const
   {
      std::vector<int> v;
      const Queue<MessageRef> & q = T->_threadData[side]._messages;
      for (uint32 i=0; i<q.GetNumItems(); i++) v.push_back(q[i]() ? (int) q[i]()->what : -1);
      return v;
   }

   // ---- called on the internal thread (inside one of its granted steps)
   void intGot(int id) {if (recording) {recvI.push_back(id); slice += "m" + idName(id);}}
   size_t replyBegun(int id) {if (!recording) return 0; SendRec r; r.id = id; r.thread = -1; r.begun = ++stamp; r.returned = 0; sendsO.push_back(r); return sendsO.size()-1;}
   void replyReturned(size_t k) {if ((recording)&&(k < sendsO.size())) sendsO[k].returned = ++stamp;}

   // ---- a user thread
   void body(int i)
   {
      const std::vector<OpT> & prog = progs[(size_t)i];
      for (size_t k=0; k<prog.size(); k++)
      {
         if (S.aborting()) break;
         const OpT & op = prog[k];
         if (op.kind != 's') vh::CoopScheduler::yieldPoint();
         if ((S.aborting())||(!recording)) break;
         std::string res;
         curKind[i] = op.kind;
         switch(op.kind)
         {
            case 'S': res = T->StartInternalThread().IsOK() ? "+" : "e"; break;
            case 's':
            {
               MessageRef m = GetMessageFromPool(op.id);
               if (m()) (void) m()->AddInt32("r", (int32) op.nrep);
               SendRec r; r.id = (int) op.id; r.thread = i; r.begun = ++stamp; r.returned = 0; sendsI.push_back(r);
               const size_t at = sendsI.size()-1;
               const status_t ret = T->SendMessageToInternalThread(m);
               if ((S.aborting())||(!recording)) break;
               sendsI[at].returned = ++stamp;
               res = ret.IsOK() ? "+" : "e";
            }
            break;
            case 'g': case 'G': case 't':
            {
               MessageRef ref;
               const uint64 when = (op.kind == 'g') ? 0 : ((op.kind == 'G') ? MUSCLE_TIME_NEVER : 1);   // 1 = any finite non-zero time: the clock is never consulted under the scheduler
               const status_t ret = T->GetNextReplyFromInternalThread(ref, when);
               if ((S.aborting())||(!recording)) break;
               if (ret.IsOK()) {const int id = ref() ? (int) ref()->what : -1; recvO.push_back(id); res = "m" + idName(id);}
               else res = (ret == B_TIMED_OUT) ? "t" : "e";
            }
            break;
            case 'X': case 'x':
            {
               const bool running = T->IsInternalThreadRunning();
               size_t at = 0;
               if (running) {SendRec r; r.id = -1; r.thread = i; r.begun = ++stamp; r.returned = 0; sendsI.push_back(r); at = sendsI.size()-1;}
               T->ShutdownInternalThread(op.kind == 'X');
               if ((S.aborting())||(!recording)) break;
               if ((running)&&(sendsI[at].returned == 0)) sendsI[at].returned = ++stamp;
               res = running ? "+" : "n";
            }
            break;
            default: res = T->WaitForInternalThreadToExit().IsOK() ? "+" : "e"; break;
         }
         if ((S.aborting())||(!recording)) break;
         curKind[i] = 0;
         slice += res;
      }
   }

   // ---- observer of every hook (scheduler lock held)
   static void onHook(vh::CoopScheduler & s, int /*me*/, int kind, const void * obj, long /*arg*/, void * user)
   {
      Exec * X = (Exec *) user;
      if ((X->T == NULL)||(obj != X->tobj)) return;
      switch(kind)
      {
         case MUSCLE_VH_THREAD_SPAWN:   // StartInternalThreadAux() has just allocated a fresh socket pair; the new thread is not finished
            s.clearFinishedLocked(obj); s.reopenSignalLocked(obj, SIDE_INT); s.reopenSignalLocked(obj, SIDE_OWN);
         break;
         case MUSCLE_VH_THREAD_EXIT:    // the internal thread has Reset() its socket: the owner's socket reads EOF
            if (X->sock) s.closeSignalLocked(obj, SIDE_OWN);
         break;
         case MUSCLE_VH_THREAD_JOIN:    // the hook sits in front of the `_threadRunning` test: a join on a Thread that is not running returns at once
            if (X->T->IsInternalThreadRunning() == false) s.markFinishedLocked(obj);
         break;
         default: break;
      }
   }

   // DIRECT ORACLE 1 — exactly once, in order (per direction): received ++ still-queued is, per sending thread, a prefix
   // of what that thread began to send that covers everything whose send has returned; a send that returned before
   // another one began precedes it; nothing is duplicated or invented.
   void checkFifo(int side, const std::vector<int> & recvd, const std::vector<SendRec> & sends, const char * name)
   {
      std::vector<int> L = recvd; const std::vector<int> q = peek(side); L.insert(L.end(), q.begin(), q.end());
      // per sending thread
      std::set<int> threads; for (size_t i=0; i<sends.size(); i++) threads.insert(sends[i].thread);
      size_t accounted = 0;
      for (std::set<int>::const_iterator t = threads.begin(); t != threads.end(); ++t)
      {
         std::vector<const SendRec *> mine; for (size_t i=0; i<sends.size(); i++) if (sends[i].thread == *t) mine.push_back(&sends[i]);
         std::set<int> myIds; bool hasNull = false; for (size_t i=0; i<mine.size(); i++) {if (mine[i]->id < 0) hasNull = true; else myIds.insert(mine[i]->id);}
         std::vector<int> sub; for (size_t i=0; i<L.size(); i++) if (((L[i] < 0)&&(hasNull))||((L[i] >= 0)&&(myIds.count(L[i])))) sub.push_back(L[i]);
         accounted += sub.size();
         size_t returned = 0; for (size_t i=0; i<mine.size(); i++) if (mine[i]->returned) returned++;
         bool prefix = (sub.size() <= mine.size());
         for (size_t i=0; (prefix)&&(i<sub.size()); i++) if (sub[i] != mine[i]->id) prefix = false;
         if (!prefix)                     fail(std::string(name) + ": received+queued Messages of sending thread " + vh::u64s((uint64_t)(int64_t)*t) + " are [" + idList(sub) + "], not a prefix of what it sent (order / exactly-once violated); received [" + idList(recvd) + "] queued [" + idList(q) + "]");
         else if (sub.size() < returned)  fail(std::string(name) + ": a Message whose send returned is neither received nor queued (lost): sending thread " + vh::u64s((uint64_t)(int64_t)*t) + " has " + vh::u64s(returned) + " completed sends but only [" + idList(sub) + "] arrived");
      }
      if ((uniqueIds)&&(accounted != L.size())) fail(std::string(name) + ": a Message that nobody sent was received or queued: received [" + idList(recvd) + "] queued [" + idList(q) + "]");
      // real-time order across threads
      if (uniqueIds)
      {
         std::map<int, const SendRec *> byId; for (size_t i=0; i<sends.size(); i++) if (sends[i].id >= 0) byId[sends[i].id] = &sends[i];
         for (size_t a=0; a<L.size(); a++) for (size_t b=a+1; b<L.size(); b++) if ((L[a] >= 0)&&(L[b] >= 0))
         {
            const SendRec * ra = byId.count(L[a]) ? byId[L[a]] : NULL, * rb = byId.count(L[b]) ? byId[L[b]] : NULL;
            if ((ra)&&(rb)&&(rb->returned)&&(rb->returned < ra->begun)) fail(std::string(name) + ": Message " + idName(L[a]) + " overtook Message " + idName(L[b]) + " whose send had returned before it was sent");
         }
      }
   }

   bool signallerPending(int side) const
   {
      const void * wc = sock ? NULL : (const void *) &T->_threadData[side]._waitCondition.GetObject();
      for (int j=0; j<S.numThreads(); j++) if (!S.finished(j))
      {
         const vh::CoopScheduler::Park p = S.parkOf(j);
         if ((p.kind == vh::CoopScheduler::PK_SIGSEND)&&(p.obj == tobj)&&(p.arg == side)) return true;
         if ((p.kind == vh::CoopScheduler::PK_NOTIFY)&&(p.obj == wc)) return true;
      }
      return false;
   }

   // is thread j parked in the blocking point of WaitForNextMessageAux on queue (side)?
   bool waitingOn(int j, int side) const
   {
      if (S.finished(j)) return false;
      const vh::CoopScheduler::Park p = S.parkOf(j);
      if ((p.kind == vh::CoopScheduler::PK_SIGWAIT)&&(p.obj == tobj)&&(p.arg/2 == side)) return true;
      if ((!sock)&&(p.kind == vh::CoopScheduler::PK_WAIT)&&(p.obj == (const void *) &T->_threadData[side]._waitCondition.GetObject())) return true;
      return false;
   }

   // DIRECT ORACLE 2 — no lost wake-up: a receiver parked in its blocking point while its queue holds a Message can be
   // woken right now, or a sender stands between its unlock and its signal.
   void checkWakeups()
   {
      for (int side=0; side<2; side++)
      {
         if (peek(side).empty()) continue;
         for (int j=0; j<S.numThreads(); j++) if ((waitingOn(j, side))&&(!S.runnable(j))&&(!signallerPending(side)))
            fail(std::string("lost wake-up: thread ") + vh::u64s((uint64_t)j) + " blocks waiting for " + ((side == SIDE_INT) ? "the owner's Messages" : "replies") + " while [" + idList(peek(side)) + "] is queued, no signal is pending and no sender is about to signal");
      }
   }

   // DIRECT ORACLE 2b — the internal thread leaves its loop exactly when it receives the NULL Message: at every instant
   // the number of internal threads that have exited equals the number of NULL Messages received.
   void checkExits()
   {
      size_t exited = 0, nulls = 0;
      for (int j=n; j<S.numThreads(); j++) if (S.finished(j)) exited++;
      for (size_t k=0; k<recvI.size(); k++) if (recvI[k] < 0) nulls++;
      if (exited != nulls) fail("the internal thread exited " + vh::u64s(exited) + " time(s) but received the NULL Message " + vh::u64s(nulls) + " time(s): it left its loop without being asked to (or survived the request); it received [" + idList(recvI) + "], queued [" + idList(peek(SIDE_INT)) + "]");
   }

   void afterStep()
   {
      checkFifo(SIDE_INT, recvI, sendsI, "owner->internal");
      checkFifo(SIDE_OWN, recvO, sendsO, "internal->owner");
      checkWakeups();
      checkExits();
   }

   void noteEnabled()
   {
      std::vector<std::pair<bool,int> > en;
      const int nt = S.numThreads();
      for (int i=0; i<nt; i++) if (S.runnable(i)) en.push_back(std::make_pair(false, i));
      for (int i=0; i<nt; i++) if (S.timeoutEnabled(i)) en.push_back(std::make_pair(true, i));
      enabledAt.push_back(en);
   }

   // policy: 0 = the TAIL rule of the line protocol; 1 = the generator's non-preemptive default (keep running the last thread while it is runnable)
   std::string run(const Line & L, int policy = 0)
   {
      S.reset();
      S.install();
      S.setParkPolicy(MUSCLE_VH_WC_NOTIFY, true);   // "signal after unlock" is its own step in both modes
      sock = L.sock;
      T = new TestThread(L.sock, this);
      tobj = (const void *) static_cast<Thread *>(T);
      S.registerObject(tobj);
      for (int k=0; k<2; k++)
      {
         S.registerObject(&T->_threadData[k]._queueLock);
         if (!L.sock) S.registerObject(&T->_threadData[k]._waitCondition.GetObject());
      }
      S.setUserEvent(&Exec::onHook, this);
      n = (int) L.progs.size(); progs = L.progs;
      slice.clear(); oracle.clear(); executed.clear(); enabledAt.clear(); recording = true;
      recvI.clear(); recvO.clear(); sendsI.clear(); sendsO.clear(); stamp = 0;
      for (int i=0; i<MAXU; i++) curKind[i] = 0;
      {
         std::set<uint32_t> ids; uniqueIds = true;
         for (size_t i=0; i<progs.size(); i++) for (size_t k=0; k<progs[i].size(); k++) if (progs[i][k].kind == 's') {if (ids.count(progs[i][k].id)) uniqueIds = false; ids.insert(progs[i][k].id);}
         // reply ids are id*10+j: they must not collide with each other either (they cannot: j <= 3 < 10)
      }
      for (int i=0; i<n; i++) {Exec * self = this; S.spawn([self, i]() {self->body(i);});}

      std::string out;
      int last = -1;
      std::string ranText;
      if (g_genMode) {Line b = L; b.evs.clear(); ranText = lineTextOf(b);}
      for (size_t e=0; e<L.evs.size(); e++)
      {
         const bool to = L.evs[e].first; const int i = L.evs[e].second;
         if (g_genMode) g_pendingLine = ranText + " " + evName(to, i);
         slice.clear();
         const bool en = to ? S.timeoutEnabled(i) : S.runnable(i);
         if (en) noteEnabled();
         const vh::CoopScheduler::StepResult r = to ? S.fireTimeout(i) : S.grant(i);
         if (!out.empty()) out += " ";
         out += evName(to, i) + ":";
         if (r == vh::CoopScheduler::STEP_SKIPPED) out += "-";
         else {out += slice.empty() ? std::string(".") : slice; executed.push_back(L.evs[e]); if (g_genMode) ranText += " " + evName(to, i); afterStep(); if (!to) last = i;}
      }
      out += out.empty() ? "|" : " |";
      int steps = 0;
      for (; steps<TAIL_CAP; steps++)
      {
         int pick = -1; bool to = false;
         const int nt = S.numThreads();
         if ((policy == 1)&&(last >= 0)&&(S.runnable(last))) pick = last;
         else for (int i=0; i<nt; i++) if (S.runnable(i)) {pick = i; break;}
         if (pick < 0) for (int i=0; i<nt; i++) if (S.timeoutEnabled(i)) {pick = i; to = true; break;}
         if (pick < 0) break;
         slice.clear();
         if (g_genMode) {g_pendingLine = ranText + " " + evName(to, pick); ranText = g_pendingLine;}
         noteEnabled();
         if (to) (void) S.fireTimeout(pick); else (void) S.grant(pick);
         out += " " + evName(to, pick) + ":" + (slice.empty() ? std::string(".") : slice);
         executed.push_back(std::make_pair(to, pick)); afterStep(); if (!to) last = pick;
      }
      const bool done = S.allFinished();
      const int nt = S.numThreads();
      if (done) out += " done";
      else
      {
         out += (steps >= TAIL_CAP) ? " livelock" : (S.deadlocked() ? " deadlock" : " livelock");
         std::string b;
         for (int i=0; i<nt; i++) if (!S.finished(i)) {if (!b.empty()) b += ","; b += vh::u64s((uint64_t)i);}
         out += " B=" + b;
      }
      out += " I=" + idList(recvI) + " O=" + idList(recvO) + " QI=" + idList(peek(SIDE_INT)) + " QO=" + idList(peek(SIDE_OWN));

      if (!done)
      {
         // DIRECT ORACLE 3 — no deadlock, shutdown completes, queued Messages are delivered: when nothing can run, every
         // unfinished thread is a receiver blocked on an EMPTY queue, or the owner joining an internal thread that is one.
         for (int i=0; i<nt; i++) if (!S.finished(i))
         {
            const vh::CoopScheduler::Park p = S.parkOf(i);
            bool justified = false;
            for (int side=0; side<2; side++) if ((waitingOn(i, side))&&(peek(side).empty())) justified = true;
            if ((i == 0)&&(p.kind == vh::CoopScheduler::PK_JOIN))
            {
               justified = true;   // the internal thread is unfinished (else the join would be runnable) and is judged by its own entry …
               // … but a join inside ShutdownInternalThread(true) follows the NULL Message of this very call: it must complete
               if (curKind[0] == 'X') fail("shutdown does not complete: the owner is stuck in the join of ShutdownInternalThread(true) while the internal thread waits; queued for the internal thread [" + idList(peek(SIDE_INT)) + "], it received [" + idList(recvI) + "]");
            }
            if (!justified) fail("stuck: no thread can run, yet thread " + vh::u64s((uint64_t)i) + " is parked at park-kind " + vh::u64s((uint64_t)p.kind) + " (not a receiver waiting on an empty queue); queued for the internal thread [" + idList(peek(SIDE_INT)) + "], for the owner [" + idList(peek(SIDE_OWN)) + "]");
         }
      }

      // ---- tear down: make every thread finish, join the internal thread, delete the Thread
      recording = false;
      if (!done)
      {
         if (T->IsInternalThreadRunning()) (void) T->SendMessageToInternalThread(MessageRef());   // from the controller: hooks are bookkeeping only
         if (S.abortAll() == false) {fprintf(stderr, "thr: cannot unwind\n"); fflush(stdout); _exit(3);}
      }
      if (T->IsInternalThreadRunning()) (void) T->WaitForInternalThreadToExit();
      g_pendingLine.clear();
      S.setUserEvent(NULL, NULL);
      delete T; T = NULL;
      return out;
   }
};

status_t TestThread :: MessageReceivedFromOwner(const MessageRef & msg, uint32 numLeft)
{
   if (msg() == NULL) {_x->intGot(-1); return Thread::MessageReceivedFromOwner(msg, numLeft);}
   const int id = (int) msg()->what;
   const int32 nrep = msg()->GetInt32("r");
   _x->intGot(id);
   for (int32 j=1; j<=nrep; j++)
   {
      if (_x->S.aborting()) break;
      MessageRef r = GetMessageFromPool((uint32)(id*10+j));
      const size_t k = _x->replyBegun(id*10+j);
      (void) SendMessageToOwner(r);
      _x->replyReturned(k);
   }
   return B_NO_ERROR;
}

// ---------------------------------------------------------------------------------------------------------------------
struct ThrEngine : public vh::Engine
{
   vh::CoopScheduler S;
   Exec X;
   uint64_t lineNo;
   ThrEngine() : X(S), lineNo(0) {}

   virtual void reset() {}

   virtual std::string step(const std::vector<std::string> & toks)
   {
      Line L;
      if (!parseLine(toks, L)) return "bad-op";
      const std::string r = X.run(L);
      std::vector<std::string> orc = X.oracle;
      for (size_t i=0; i<orc.size(); i++) vh::oracleFail(orc[i]);
      if ((lineNo++ % 8) == 0)
      {
         // scheduler self-test: the result must be a function of the line alone
         const std::string r2 = X.run(L);
         if (r2 != r) vh::oracleFail("scheduler self-test: two executions of the same line differ: [" + r + "] vs [" + r2 + "]");
      }
      return r;
   }

   // ---- generator -------------------------------------------------------------------------------------------------
   uint32_t nextId;
   OpT sendOp(vh::Rng & rng) {OpT o; o.kind = 's'; o.id = nextId++; o.nrep = rng.chance(1,2) ? 0 : (rng.chance(2,3) ? 1 : rng.range(2, 3)); return o;}
   static OpT plain(char k) {OpT o; o.kind = k; return o;}

   // the owner: [sends queued before the start] S [sends / receives] shutdown [restart …]; sometimes sloppy
   std::vector<OpT> genOwner(vh::Rng & rng, uint32_t maxOps)
   {
      std::vector<OpT> p;
      const uint32_t rounds = rng.chance(1,4) ? 2 : 1;
      for (uint32_t r=0; r<rounds; r++)
      {
         uint32_t pre = rng.chance(1,3) ? rng.range(1, 2) : 0;
         while((pre-- > 0)&&(p.size() < maxOps)) p.push_back(sendOp(rng));
         if (!rng.chance(1,25)) p.push_back(plain('S'));
         uint32_t mid = rng.range(0, 4);
         uint32_t owed = 0;
         while((mid-- > 0)&&(p.size()+1 < maxOps))
         {
            const uint32_t k = rng.below(10);
            if (k < 4) {OpT o = sendOp(rng); owed += o.nrep; p.push_back(o);}
            else if ((k < 7)&&((owed > 0)||(rng.chance(1,10)))) {p.push_back(plain('G')); if (owed) owed--;}
            else if (k < 8) p.push_back(plain('g'));
            else if (k < 9) p.push_back(plain('t'));
            else p.push_back(plain(rng.chance(1,2) ? 'S' : 'J'));
         }
         if (p.size() >= maxOps) break;
         const uint32_t e = rng.below(10);
         if (e < 6) p.push_back(plain('X'));
         else if (e < 8) {p.push_back(plain('x')); if (rng.chance(1,3)) p.push_back(sendOp(rng)); if ((p.size() < maxOps)&&(!rng.chance(1,8))) p.push_back(plain('J'));}
         else if (e < 9) p.push_back(plain('J'));
         // else: no shutdown at all
         if ((rng.chance(1,3))&&(p.size() < maxOps)) p.push_back(plain(rng.chance(1,2) ? 'g' : 'G'));
      }
      if (p.size() > maxOps) p.resize(maxOps);
      return p;
   }

   Line genLine(vh::Rng & rng, uint32_t maxUsers, uint32_t maxOwnerOps)
   {
      Line L; L.sock = rng.chance(1,2);
      nextId = 1;
      const uint32_t nu = rng.range(1, maxUsers);
      L.progs.push_back(genOwner(rng, maxOwnerOps));
      for (uint32_t i=1; i<nu; i++)
      {
         std::vector<OpT> p; const uint32_t k = rng.range(1, 3);
         for (uint32_t j=0; j<k; j++) p.push_back(sendOp(rng));
         L.progs.push_back(p);
      }
      return L;
   }

   void emitLine(FILE * out, const Line & L) {fputs(lineTextOf(L).c_str(), out); fputc('\n', out);}

   // bounded-preemption exploration (stateless, by re-execution): schedules with at most `bound` preemptions, fewest
   // preemptions first, each emitted as a fully explicit event list; T events are alternatives wherever they are legal.
   struct Item {std::vector<std::pair<bool,int> > prefix; int cost;};
   void explore(FILE * out, const Line & base, int bound, uint32_t quota)
   {
      std::vector<std::deque<Item> > work((size_t)bound+1);
      Item first; first.cost = 0; work[0].push_back(first);
      while(quota > 0)
      {
         int lvl = -1;
         for (int b=0; b<=bound; b++) if (!work[(size_t)b].empty()) {lvl = b; break;}
         if (lvl < 0) break;
         const Item it = work[(size_t)lvl].front(); work[(size_t)lvl].pop_front();
         Line L = base; L.evs = it.prefix;
         (void) X.run(L, 1);
         const std::vector<std::pair<bool,int> > ex = X.executed;
         const std::vector<std::vector<std::pair<bool,int> > > en = X.enabledAt;
         Line full = base; full.evs = ex;
         emitLine(out, full); quota--;
         int lastThread = -1;
         for (size_t j=0; j<ex.size(); j++)
         {
            if (j >= it.prefix.size()) for (size_t a=0; a<en[j].size(); a++)
            {
               if (en[j][a] == ex[j]) continue;
               bool lastRunnable = false;
               for (size_t b=0; b<en[j].size(); b++) if ((!en[j][b].first)&&(en[j][b].second == lastThread)) lastRunnable = true;
               const int cost = ((!en[j][a].first)&&(lastRunnable)&&(en[j][a].second != lastThread)) ? 1 : 0;
               if (it.cost+cost > bound) continue;
               Item ni; ni.prefix.assign(ex.begin(), ex.begin()+j); ni.prefix.push_back(en[j][a]); ni.cost = it.cost+cost;
               work[(size_t)ni.cost].push_back(ni);
            }
            if (!ex[j].first) lastThread = ex[j].second;
         }
      }
   }

   virtual void gen(vh::Rng & rng, const vh::Tier & tier, FILE * out)
   {
      g_genMode = true;
      signal(SIGABRT, onFatalSignal); signal(SIGSEGV, onFatalSignal);
      __sanitizer_set_death_callback(emitPendingAndDie);
      const uint32_t nprogs   = tier.thorough ? 120 : 14;     // programs explored per shard
      const uint32_t perProg  = tier.thorough ? 300 : 90;     // cap on explored schedules per program (fewest preemptions first)
      const uint32_t nrandom  = tier.thorough ? 8000 : 500;   // random lines per shard
      const int bound = tier.thorough ? 3 : 2;
      uint32_t caseNo = tier.shard*100000;
      for (uint32_t p=0; p<nprogs; p++)
      {
         const Line L = genLine(rng, 3, (p%3 == 0) ? 9 : 6);
         fprintf(out, "case %u\n", caseNo++);
         explore(out, L, bound, perProg);
      }
      // random beyond the bound: arbitrary event lists (disabled events are skipped, the tail rule completes the run)
      for (uint32_t k=0; k<nrandom; k++)
      {
         if ((k % 50) == 0) fprintf(out, "case %u\n", caseNo++);
         Line L = genLine(rng, 3, 12);
         const uint32_t nev = rng.chance(1,6) ? 0 : rng.range(1, 80);
         const uint32_t nt = (uint32_t) L.progs.size() + 2;   // the user threads and the first internal threads
         int cur = (int) rng.below(nt);
         for (uint32_t e=0; e<nev; e++)
         {
            if (rng.chance(1,3)) cur = (int) rng.below(nt + (rng.chance(1,20) ? 1 : 0));
            L.evs.push_back(std::make_pair(rng.chance(1,9), cur));
         }
         emitLine(out, L);
      }
   }
};

} // namespace

int main(int argc, char ** argv)
{
   CompleteSetupSystem css;
   ThrEngine e;
   return vh::harnessMain(argc, argv, e);
}
