// Engine `rw` (C18): thread programs over ONE real muscle::ReaderWriterMutex, executed on REAL threads under the
// deterministic cooperative scheduler (libvh/coop.h).  One op line = one complete execution:
//
//    x <preferWriters 0|1> <nthreads> <prog_0> … <prog_{n-1}> <event>*
//
//    prog  = string over  R W (LockReadOnly()/LockReadWrite(), untimed)   r w (TryLock…, time-out 0)
//                         p q (timed LockReadOnly/LockReadWrite)          u v (UnlockReadOnly/UnlockReadWrite);  `-` = empty
//    event = `<i>`  thread i takes one step (from its park point to its next one) if it is runnable, else SKIP
//            `T<i>` the time-out of thread i's timed Wait() fires if that is legal now (parked in a timed wait, nothing pending), else SKIP
//    after the listed events the TAIL rule completes the run: lowest runnable thread steps; if none, lowest legal time-out
//    fires; if none: stop (verdict `done` if every thread finished, else `deadlock`).
//
// Result line:  one token per event  `<event>:<o>`  with o = `-` skipped | `.` ran, no API call completed |
//               `<s><holders>` ran and the thread's current API call returned s = `+` ok, `t` B_TIMED_OUT, `e` other error;
//               holders = the harness's own table of unreleased successful acquisitions `i/reads/writes,…` or `_`;
//               then `|`, the tail's tokens, the verdict, and the mutex's tables: E=<tid/ro/rw…> R=<waiting readers> W=<waiting writers> T=<total rw count>.
// Park points of this engine: Lock(_stateMutex) (always grantable: the mutex is free whenever every thread is parked) and
// WaitCondition::Wait (grantable iff a notification is pending or by a time-out event).
#include <string>
#include <vector>
#include <set>
#include <map>
#include <algorithm>
#include <mutex>
#include <condition_variable>
#include <chrono>
#include <deque>
#include <signal.h>
#include "util/Hashtable.h"
#include "util/ObjectPool.h"
#include "util/String.h"
#include "util/TimeUtilityFunctions.h"
#include "system/Mutex.h"
#include "system/WaitCondition.h"
#include "system/SetupSystem.h"
#include "support/NotCopyable.h"
// The oracle inspects the mutex's tables (_executingThreads, _waitingReaderThreads, _waitingWriterThreads,
// _totalReadWriteRecurseCount) and registers &_stateMutex with the scheduler.  Every header that ReaderWriterMutex.h
// includes has been included above, so the define below only opens this one class.
#define private public
#include "system/ReaderWriterMutex.h"
#undef private

#include "libvh/vh.h"
#include "libvh/coop.h"

using namespace muscle;

namespace {

enum {MAXT = 6, TAIL_CAP = 4000};

struct Line
{
   bool pref;
   std::vector<std::string> progs;
   std::vector<std::pair<bool,int> > evs;   // (isTimeout, thread)
};

static bool isProg(const std::string & s)
{
   if (s == "-") return true;
   if (s.empty()) return false;
   for (size_t i=0; i<s.size(); i++) if (strchr("RWrwpquv", s[i]) == NULL) return false;
   return true;
}

static bool parseLine(const std::vector<std::string> & t, Line & L)
{
   if ((t.size() < 3)||(t[0] != "x")) return false;
   if ((t[1] != "0")&&(t[1] != "1")) return false;
   L.pref = (t[1] == "1");
   uint64_t n;
   if ((!vh::toU64(t[2], n))||(n < 1)||(n > MAXT)||(t.size() < 3+n)) return false;
   L.progs.clear(); L.evs.clear();
   for (size_t i=0; i<n; i++) {if (!isProg(t[3+i])) return false; L.progs.push_back((t[3+i] == "-") ? std::string() : t[3+i]);}
   for (size_t i=3+n; i<t.size(); i++)
   {
      const std::string & e = t[i];
      const bool to = (e[0] == 'T');
      uint64_t k;
      if ((!vh::toU64(to ? e.substr(1) : e, k))||(k >= MAXT)) return false;
      L.evs.push_back(std::make_pair(to, (int) k));
   }
   return true;
}

static std::string evName(bool to, int i) {return (to ? "T" : "") + vh::u64s((uint64_t)i);}

// Generator mode executes what it generates.  If the real code crashes there (assertion, sanitizer report), the line
// being executed — programs + the events that ran + the event in progress — is registered with vh::genPending() first, so
// that libvh's fatal handlers append it to the op file and the crash reproduces in `run` mode (see vh.h).
static std::string lineTextOf(const Line & L)
{
   std::string s = std::string("x ") + (L.pref ? "1" : "0") + " " + vh::u64s(L.progs.size());
   for (size_t i=0; i<L.progs.size(); i++) s += " " + (L.progs[i].empty() ? std::string("-") : L.progs[i]);
   for (size_t i=0; i<L.evs.size(); i++) s += " " + evName(L.evs[i].first, L.evs[i].second);
   return s;
}

// ---------------------------------------------------------------------------------------------------------------------
// One execution of a line.  Also records, per executed step, which events were enabled (for the generator's exploration).
struct Exec
{
   vh::CoopScheduler & S;
   Exec(vh::CoopScheduler & s) : S(s) {}

   // shared between the controller and the (single) running thread — never touched by two threads at once
   ReaderWriterMutex * m;
   int n;
   std::vector<std::string> progs;
   uint32_t hr[MAXT], hw[MAXT];          // the harness's table: unreleased successful acquisitions per thread
   int curOp[MAXT];                      // index of the API call in progress, or -1
   uint32_t slicesInOp[MAXT];            // number of steps the thread has taken inside the current call
   bool upgrading[MAXT];                 // the call in progress is LockReadWrite from a read-only holder (its read locks are dropped and re-taken)
   uint32_t ownRoAtStart[MAXT], ownRwAtStart[MAXT];
   muscle_thread_id tids[MAXT];
   std::string slice;                    // what the running thread reports for this step
   std::string lastSnap;                 // the mutex's tables at the end of the previous step
   std::vector<std::string> oracle;      // direct-oracle failures of this execution
   bool recording;

   // exploration record
   std::vector<std::pair<bool,int> > executed;               // every event that RAN (explicit + tail), in order
   std::vector<std::vector<std::pair<bool,int> > > enabledAt; // events enabled just before executed[j]

   int idxOf(const muscle_thread_id & id) const {for (int i=0; i<n; i++) if (tids[i] == id) return i; return -1;}

   std::string snapshot() const
   {
      std::string s = "E=";
      bool first = true;
      for (HashtableIterator<muscle_thread_id, ReaderWriterMutex::ThreadState> it(m->_executingThreads, HTIT_FLAG_NOREGISTER); it.HasData(); it++)
      {
         if (!first) s += ","; first = false;
         s += vh::u64s((uint64_t)(int64_t)idxOf(it.GetKey())) + "/" + vh::u64s(it.GetValue()._readOnlyRecurseCount) + "/" + vh::u64s(it.GetValue()._readWriteRecurseCount);
      }
      if (first) s += "_";
      s += " R=";
      first = true;
      for (HashtableIterator<muscle_thread_id, ReaderWriterMutex::ThreadState> it(m->_waitingReaderThreads, HTIT_FLAG_NOREGISTER); it.HasData(); it++) {if (!first) s += ","; first = false; s += vh::u64s((uint64_t)(int64_t)idxOf(it.GetKey()));}
      if (first) s += "_";
      s += " W=";
      first = true;
      for (HashtableIterator<muscle_thread_id, ReaderWriterMutex::ThreadState> it(m->_waitingWriterThreads, HTIT_FLAG_NOREGISTER); it.HasData(); it++) {if (!first) s += ","; first = false; s += vh::u64s((uint64_t)(int64_t)idxOf(it.GetKey()));}
      if (first) s += "_";
      s += " T=" + vh::u64s(m->_totalReadWriteRecurseCount);
      return s;
   }

   std::string holders() const
   {
      std::string s;
      for (int i=0; i<n; i++) if (hr[i]+hw[i] > 0) {if (!s.empty()) s += ","; s += vh::u64s((uint64_t)i) + "/" + vh::u64s(hr[i]) + "/" + vh::u64s(hw[i]);}
      return s.empty() ? std::string("_") : s;
   }

   void fail(const std::string & msg) {if ((oracle.size() < 8)&&(std::find(oracle.begin(), oracle.end(), msg) == oracle.end())) oracle.push_back(msg);}

   // DIRECT ORACLE 1 (black box): no thread holds the lock for writing while any other thread holds it in any mode.
   // A thread that is inside LockReadWrite() upgrading from read-only is documented to drop its read locks for the
   // duration of the call, so it does not count as a holder until the call returns.
   void checkApiExclusion(const char * where)
   {
      for (int i=0; i<n; i++) if ((hw[i] > 0)&&(!upgrading[i]))
         for (int j=0; j<n; j++) if ((j != i)&&(hr[j]+hw[j] > 0)&&(!upgrading[j]))
            fail(std::string("exclusion violated (") + where + "): thread " + vh::u64s((uint64_t)i) + " holds the write lock while thread " + vh::u64s((uint64_t)j) + " holds the lock; holders " + holders());
   }

   // DIRECT ORACLE 2 (on the mutex's own tables, evaluated while every thread is parked): a writer entry is the only
   // entry; the total equals the sum of the write counts; every entry is non-zero; a thread outside any call has exactly
   // the counts the harness's table says (each release undoes exactly one acquire).
   void checkTables()
   {
      uint32_t sum = 0, entries = 0; bool writer = false;
      for (HashtableIterator<muscle_thread_id, ReaderWriterMutex::ThreadState> it(m->_executingThreads, HTIT_FLAG_NOREGISTER); it.HasData(); it++)
      {
         const ReaderWriterMutex::ThreadState & ts = it.GetValue();
         entries++; sum += ts._readWriteRecurseCount; if (ts._readWriteRecurseCount > 0) writer = true;
         if (ts._readOnlyRecurseCount+ts._readWriteRecurseCount == 0) fail("executing-threads table holds an all-zero entry: " + snapshot());
         const int i = idxOf(it.GetKey());
         if (i < 0) fail("executing-threads table holds an unknown thread");
      }
      if ((writer)&&(entries != 1)) fail("exclusion violated in the executing-threads table: " + snapshot());
      if (sum != m->_totalReadWriteRecurseCount) fail("_totalReadWriteRecurseCount differs from the sum of the write counts: " + snapshot());
      for (int i=0; i<n; i++) if (curOp[i] < 0 || slicesInOp[i] == 0)
      {
         const ReaderWriterMutex::ThreadState * ts = m->_executingThreads.Get(tids[i]);
         const uint32_t ro = ts ? ts->_readOnlyRecurseCount : 0, rw = ts ? ts->_readWriteRecurseCount : 0;
         if ((ro != hr[i])||(rw != hw[i])) fail("thread " + vh::u64s((uint64_t)i) + " holds " + vh::u64s(ro) + "/" + vh::u64s(rw) + " in the table but acquired-minus-released is " + vh::u64s(hr[i]) + "/" + vh::u64s(hw[i]) + ": " + snapshot());
         if ((m->_waitingReaderThreads.ContainsKey(tids[i]))||(m->_waitingWriterThreads.ContainsKey(tids[i]))) fail("thread " + vh::u64s((uint64_t)i) + " is outside any call but still listed as waiting: " + snapshot());
      }
   }

   // DIRECT ORACLE 3: try-acquisitions never block; timed acquisitions never enter an untimed wait.
   void checkBlocking()
   {
      for (int i=0; i<n; i++) if ((curOp[i] >= 0)&&(!S.finished(i)))
      {
         const vh::CoopScheduler::Park p = S.parkOf(i);
         if (p.kind != vh::CoopScheduler::PK_WAIT) continue;
         const char c = progs[i][(size_t)curOp[i]];
         const bool isTry = ((c == 'r')||(c == 'w')), isTimed = ((c == 'p')||(c == 'q'));
         if ((isTry)||((isTimed)&&(p.arg == 0)))
         {
            // open finding F13 (timed variant only; the time-out-0 variant was fixed in /repo by d881489): the upgrade path re-locks untimed
            if ((isTimed)&&(upgrading[i])&&(p.arg == 0)) fail("F13-signature: timed LockReadWrite() (finite time-out) called by a read-lock holder is parked in an UNTIMED Wait(): the upgrade path of LockReadWriteAux re-takes the read locks with LockReadOnly()");
                                                    else fail(std::string("a ") + (isTry ? "try" : "timed") + " acquisition `" + c + "` of thread " + vh::u64s((uint64_t)i) + " is parked in " + (p.arg ? "a timed" : "an untimed") + " Wait()" + (upgrading[i] ? " (read-to-write upgrade)" : ""));
         }
      }
   }

   void body(int i)
   {
      tids[i] = muscle_thread_id::GetCurrentThreadID();
      const std::string & prog = progs[i];
      for (size_t k=0; k<prog.size(); k++)
      {
         if (S.aborting()) break;
         const char c = prog[k];
         curOp[i] = (int) k; slicesInOp[i] = 0;
         upgrading[i] = (((c == 'W')||(c == 'w')||(c == 'q'))&&(hr[i] > 0)&&(hw[i] == 0));
         ownRoAtStart[i] = hr[i]; ownRwAtStart[i] = hw[i];
         status_t r;
         const uint64 finite = 1;   // any finite, non-zero time stamp: under the scheduler the clock is never consulted
         switch(c)
         {
            case 'R': r = m->LockReadOnly();          break;
            case 'W': r = m->LockReadWrite();         break;
            case 'r': r = m->TryLockReadOnly();       break;
            case 'w': r = m->TryLockReadWrite();      break;
            case 'p': r = m->LockReadOnly(finite);    break;
            case 'q': r = m->LockReadWrite(finite);   break;
            case 'u': r = m->UnlockReadOnly();        break;
            default:  r = m->UnlockReadWrite();       break;
         }
         if ((S.aborting())||(!recording)) break;
         const bool ok = r.IsOK();
         if (ok) switch(c)
         {
            case 'R': case 'r': case 'p': hr[i]++; break;
            case 'W': case 'w': case 'q': hw[i]++; break;
            case 'u': hr[i]--; break;
            default:  hw[i]--; break;
         }
         const bool wasUpgrading = upgrading[i];
         upgrading[i] = false;
         slice += (ok ? "+" : ((r == B_TIMED_OUT) ? "t" : "e"));
         slice += holders();
         checkApiExclusion("at return");
         if ((!ok)&&(strchr("rwpq", c)))
         {
            // failed try/timed acquisition: the lock state must be as before the call
            if (r != B_TIMED_OUT) fail(std::string("a try/timed acquisition failed with something other than B_TIMED_OUT: ") + r());
            const ReaderWriterMutex::ThreadState * ts = m->_executingThreads.Get(tids[i]);
            const uint32_t ro = ts ? ts->_readOnlyRecurseCount : 0, rw = ts ? ts->_readWriteRecurseCount : 0;
            if ((ro != ownRoAtStart[i])||(rw != ownRwAtStart[i])) fail(std::string("a failed try/timed acquisition `") + c + "` changed the caller's own counts: " + snapshot());
            if ((m->_waitingReaderThreads.ContainsKey(tids[i]))||(m->_waitingWriterThreads.ContainsKey(tids[i]))) fail(std::string("a failed try/timed acquisition `") + c + "` left the caller in a waiting table: " + snapshot());
            if ((slicesInOp[i] == 1)&&(snapshot() != lastSnap)) fail(std::string("a failed single-step try `") + c + "` changed the lock state: before [" + lastSnap + "] after [" + snapshot() + "]");
         }
         curOp[i] = -1;
      }
      curOp[i] = -1;
   }

   void afterStep()
   {
      checkTables();
      checkBlocking();
      lastSnap = snapshot();
   }

   void noteEnabled()
   {
      std::vector<std::pair<bool,int> > en;
      for (int i=0; i<n; i++) if (S.runnable(i)) en.push_back(std::make_pair(false, i));
      for (int i=0; i<n; i++) if (S.timeoutEnabled(i)) en.push_back(std::make_pair(true, i));
      enabledAt.push_back(en);
   }

   // policy: 0 = the TAIL rule of the line protocol; 1 = the generator's non-preemptive default (keep running the last thread while it is runnable)
   std::string run(const Line & L, int policy = 0)
   {
      S.reset();
      S.install();
      S.setAllWaitConditionsRelevant(true);
      m = new ReaderWriterMutex(L.pref);
      S.registerObject(&m->_stateMutex);
      n = (int) L.progs.size(); progs = L.progs;
      for (int i=0; i<MAXT; i++) {hr[i] = hw[i] = 0; curOp[i] = -1; slicesInOp[i] = 0; upgrading[i] = false; ownRoAtStart[i] = ownRwAtStart[i] = 0;}
      slice.clear(); oracle.clear(); executed.clear(); enabledAt.clear(); recording = true;
      for (int i=0; i<n; i++) {Exec * self = this; S.spawn([self, i]() {self->body(i);});}
      lastSnap = snapshot();

      std::string out;
      int last = -1;
      std::string ranText;
      if (vh::g_genMode) {Line b = L; b.evs.clear(); ranText = lineTextOf(b);}
      for (size_t e=0; e<L.evs.size(); e++)
      {
         const bool to = L.evs[e].first; const int i = L.evs[e].second;
         if (vh::g_genMode) vh::genPending(ranText + " " + evName(to, i));
         slice.clear();
         const bool en = (i < n) && (to ? S.timeoutEnabled(i) : S.runnable(i));
         if (en) {noteEnabled(); if (i < n) slicesInOp[i]++;}
         const vh::CoopScheduler::StepResult r = (i < n) ? (to ? S.fireTimeout(i) : S.grant(i)) : vh::CoopScheduler::STEP_SKIPPED;
         if (!out.empty()) out += " ";
         out += evName(to, i) + ":";
         if (r == vh::CoopScheduler::STEP_SKIPPED) out += "-";
         else {out += slice.empty() ? std::string(".") : slice; executed.push_back(L.evs[e]); if (vh::g_genMode) ranText += " " + evName(to, i); afterStep(); if (!to) last = i;}
      }
      out += out.empty() ? "|" : " |";
      for (int steps=0; steps<TAIL_CAP; steps++)
      {
         int pick = -1; bool to = false;
         if (policy == 1)
         {
            if ((last >= 0)&&(S.runnable(last))) pick = last;
            else for (int i=0; i<n; i++) if (S.runnable(i)) {pick = i; break;}
         }
         else for (int i=0; i<n; i++) if (S.runnable(i)) {pick = i; break;}
         if (pick < 0) for (int i=0; i<n; i++) if (S.timeoutEnabled(i)) {pick = i; to = true; break;}
         if (pick < 0) break;
         slice.clear();
         if (vh::g_genMode) {ranText += " " + evName(to, pick); vh::genPending(ranText);}
         noteEnabled(); slicesInOp[pick]++;
         if (to) (void) S.fireTimeout(pick); else (void) S.grant(pick);
         out += " " + evName(to, pick) + ":" + (slice.empty() ? std::string(".") : slice);
         executed.push_back(std::make_pair(to, pick)); afterStep(); if (!to) last = pick;
      }
      const bool done = S.allFinished();
      if (done) out += " done";
      else
      {
         out += S.deadlocked() ? " deadlock" : " livelock";
         std::string b;
         for (int i=0; i<n; i++) if (!S.finished(i)) {if (!b.empty()) b += ","; b += vh::u64s((uint64_t)i);}
         out += " B=" + b;
      }
      out += " " + snapshot();
      if (!done)
      {
         // DIRECT ORACLE 4: no deadlock among threads that use only this lock, provided no finished thread still holds it
         bool compliant = true;
         for (int i=0; i<n; i++) if ((S.finished(i))&&(hr[i]+hw[i] > 0)) compliant = false;
         if (compliant) fail("deadlock verdict although no finished thread holds the lock: " + snapshot() + " holders " + holders());
         recording = false;
         if (S.abortAll() == false) {fprintf(stderr, "rw: cannot unwind\n"); fflush(stdout); _exit(3);}
      }
      vh::genPendingClear();
      delete m; m = NULL;
      return out;
   }
};

// ---------------------------------------------------------------------------------------------------------------------
static std::string lineText(const Line & L) {return lineTextOf(L);}

// keep the triggers of the open finding F13 out of the generated stream (they run from corpus/C18/rw-known-F13.ops):
// a TIMED LockReadWrite (`q`) issued while the thread may hold a read lock but no write lock, with another thread that ever
// asks for the write lock.  (The time-out-0 variant `w` was fixed in /repo by d881489 and is generated freely.)
static bool f13Shape(const std::vector<std::string> & progs)
{
   for (size_t i=0; i<progs.size(); i++)
   {
      int r = 0, w = 0; bool risky = false;
      for (size_t k=0; k<progs[i].size(); k++)
      {
         const char c = progs[i][k];
         if ((c == 'q')&&(r > 0)) risky = true;   // conservative: earlier acquisitions may have failed or succeeded
         if ((c == 'R')||(c == 'r')||(c == 'p')) r++;
         if ((c == 'W')||(c == 'w')||(c == 'q')) w++;
         if ((c == 'u')&&(r > 0)) r--;
         if ((c == 'v')&&(w > 0)) w--;
      }
      if (risky) for (size_t j=0; j<progs.size(); j++) if (j != i) for (size_t k=0; k<progs[j].size(); k++) if (strchr("Wwq", progs[j][k])) return true;
   }
   return false;
}

struct RWEngine : public vh::Engine
{
   vh::CoopScheduler S;
   Exec X;
   uint64_t lineNo;
   RWEngine() : X(S), lineNo(0) {}

   virtual void reset() {}

   virtual std::string step(const std::vector<std::string> & toks)
   {
      Line L;
      if (!parseLine(toks, L)) return "bad-op";
      const std::string r = X.run(L);
      std::vector<std::string> orc = X.oracle;
      for (size_t i=0; i<orc.size(); i++) vh::oracleFail(orc[i]);
      if ((lineNo++ % 8) == 0)
      {
         // scheduler self-test: the result must be a function of the line alone
         const std::string r2 = X.run(L);
         if (r2 != r) vh::oracleFail("scheduler self-test: two executions of the same line differ: [" + r + "] vs [" + r2 + "]");
      }
      return r;
   }

   // ---- generator -------------------------------------------------------------------------------------------------
   std::string genProg(vh::Rng & rng, uint32_t maxOps, bool compliantBias)
   {
      // mostly well-nested programs (acquire … release), sometimes a stray or missing release
      std::string p; std::string stack;
      const uint32_t len = rng.chance(1,5) ? rng.range(1, maxOps) : rng.range((maxOps+1)/2, maxOps);
      while(p.size() < len)
      {
         const uint32_t room = (uint32_t)(len - p.size());
         if ((!stack.empty())&&((rng.chance(2,5))||(room <= stack.size()))) {p.push_back(stack[stack.size()-1]); stack.erase(stack.size()-1); continue;}
         const uint32_t k = rng.below(20);
         char a;
         if (k < 6) a = 'R'; else if (k < 11) a = 'W'; else if (k < 13) a = 'r'; else if (k < 15) a = 'w'; else if (k < 17) a = 'p'; else if (k < 19) a = 'q'; else a = rng.chance(1,2) ? 'u' : 'v';
         p.push_back(a);
         if (strchr("RrpWwq", a)) {if ((compliantBias)||(rng.chance(9,10))) stack.push_back(strchr("Rrp", a) ? 'u' : 'v');}
      }
      if (compliantBias) while((!stack.empty())&&(p.size() < maxOps+3)) {p.push_back(stack[stack.size()-1]); stack.erase(stack.size()-1);}
      return p;
   }

   void emitLine(FILE * out, const Line & L) {fputs(lineText(L).c_str(), out); fputc('\n', out);}

   // bounded-preemption exploration (stateless, by re-execution): schedules with at most `bound` preemptions, fewest
   // preemptions first, each emitted as a fully explicit event list; T events are alternatives wherever they are legal
   // (they cost nothing and do not change which thread counts as "running").
   struct Item {std::vector<std::pair<bool,int> > prefix; int cost;};
   void explore(FILE * out, const Line & base, int bound, uint32_t quota)
   {
      std::vector<std::deque<Item> > work((size_t)bound+1);
      Item first; first.cost = 0; work[0].push_back(first);
      while(quota > 0)
      {
         int lvl = -1;
         for (int b=0; b<=bound; b++) if (!work[(size_t)b].empty()) {lvl = b; break;}
         if (lvl < 0) break;
         const Item it = work[(size_t)lvl].front(); work[(size_t)lvl].pop_front();
         Line L = base; L.evs = it.prefix;
         (void) X.run(L, 1);
         const std::vector<std::pair<bool,int> > ex = X.executed;
         const std::vector<std::vector<std::pair<bool,int> > > en = X.enabledAt;
         Line full = base; full.evs = ex;
         emitLine(out, full); quota--;
         int lastThread = -1;
         for (size_t j=0; j<ex.size(); j++)
         {
            if (j >= it.prefix.size()) for (size_t a=0; a<en[j].size(); a++)
            {
               if (en[j][a] == ex[j]) continue;
               // a preemption = running another thread although the thread that ran last could continue
               bool lastRunnable = false;
               for (size_t b=0; b<en[j].size(); b++) if ((!en[j][b].first)&&(en[j][b].second == lastThread)) lastRunnable = true;
               const int cost = ((!en[j][a].first)&&(lastRunnable)&&(en[j][a].second != lastThread)) ? 1 : 0;
               if (it.cost+cost > bound) continue;
               Item ni; ni.prefix.assign(ex.begin(), ex.begin()+j); ni.prefix.push_back(en[j][a]); ni.cost = it.cost+cost;
               work[(size_t)ni.cost].push_back(ni);
            }
            if (!ex[j].first) lastThread = ex[j].second;
         }
      }
   }

   virtual void gen(vh::Rng & rng, const vh::Tier & tier, FILE * out)
   {
      const uint32_t nprogs   = tier.thorough ? 220 : 30;     // programs explored per shard
      const uint32_t perProg  = tier.thorough ? 400 : 220;    // cap on explored schedules per program (fewest preemptions first)
      const uint32_t nrandom  = tier.thorough ? 20000 : 1500; // random lines per shard
      const int bound = tier.thorough ? 3 : 2;
      uint32_t caseNo = tier.shard*100000;
      for (uint32_t p=0; p<nprogs; p++)
      {
         Line L; L.pref = rng.chance(1,2);
         do
         {
            L.progs.clear();
            const uint32_t nt = rng.range(2, (p%3 == 0) ? 4 : 3);
            for (uint32_t i=0; i<nt; i++) L.progs.push_back(genProg(rng, (nt >= 4) ? 3 : 5, rng.chance(4,5)));
         } while(f13Shape(L.progs));
         fprintf(out, "case %u\n", caseNo++);
         explore(out, L, bound, perProg);
      }
      // random beyond the bound: arbitrary event lists (disabled events are skipped, the tail rule completes the run)
      for (uint32_t k=0; k<nrandom; k++)
      {
         if ((k % 50) == 0) fprintf(out, "case %u\n", caseNo++);
         Line L; L.pref = rng.chance(1,2);
         do
         {
            L.progs.clear();
            const uint32_t nt = rng.range(1, 4);
            for (uint32_t i=0; i<nt; i++) L.progs.push_back(rng.chance(1,12) ? std::string() : genProg(rng, 5, rng.chance(3,4)));
         } while(f13Shape(L.progs));
         const uint32_t nev = rng.chance(1,6) ? 0 : rng.range(1, 60);
         const uint32_t nt = (uint32_t) L.progs.size();
         int cur = (int) rng.below(nt);
         for (uint32_t e=0; e<nev; e++)
         {
            if (rng.chance(1,3)) cur = (int) rng.below(nt + (rng.chance(1,20) ? 1 : 0));
            L.evs.push_back(std::make_pair(rng.chance(1,7), cur));
         }
         emitLine(out, L);
      }
   }
};

} // namespace

int main(int argc, char ** argv)
{
   CompleteSetupSystem css;
   RWEngine e;
   return vh::harnessMain(argc, argv, e);
}
