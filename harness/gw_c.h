// Interface of the C gateway wrappers used by harness/gw.cpp.  MiniMessage.c and MicroMessage.c are
// compiled as separate C++ translation units (gw_mini.cpp, gw_micro.cpp: they #include the real .c
// files of /repo), because the two C libraries cannot share one set of headers.
#ifndef VERIF_GW_C_H
#define VERIF_GW_C_H
#include <stdint.h>
#include <string>

typedef int32_t (*GwIoFunc)(uint8_t * buf, uint32_t numBytes, void * arg);  // send or receive through the schedule

struct CGw
{
   virtual ~CGw() {}
   virtual bool add(const std::string & flat) = 0;                                 // queue one flattened Message
   virtual int32_t out(uint32_t maxBytes, GwIoFunc f, void * arg) = 0;            // *DoOutput
   virtual bool hasOut() = 0;
   // *DoInput: at most one Message per call; got=true and flat=its flattened bytes when one is returned
   virtual int32_t in(uint32_t maxBytes, GwIoFunc f, void * arg, std::string & flat, bool & got) = 0;
};
CGw * newMiniGw();
CGw * newMicroGw();
#endif
