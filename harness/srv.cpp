// Engine `srv` (C04, C05, C06, C07, C13): a real ReflectServer driven in-process, one loop iteration at a
// time, by up to 8 real client gateways over socket pairs.  Commands are given at protocol level in the op
// lines; the harness builds the Messages, sends them through the real gateways, applies what each client
// receives (data mirror, index mirror) and prints canonical digests.  The direct oracles of the five
// properties are evaluated on the implementation alone (brute force over the in-process node tree).
#include "libvh/vh.h"
#include "msgdump.h"
#include "reflector/ReflectServer.h"
#include "reflector/StorageReflectSession.h"
#include "reflector/StorageReflectConstants.h"
#include "iogateway/MessageIOGateway.h"
#include "dataio/TCPSocketDataIO.h"
#include "dataio/ProxyDataIO.h"
#include "regex/PathMatcher.h"
#include "regex/QueryFilter.h"
#include "system/SetupSystem.h"
#include "util/NetworkUtilityFunctions.h"
#include <map>
#include <set>
#include <algorithm>
#include <signal.h>
#include <unistd.h>

using namespace muscle;
using namespace vh;

namespace muscle {void MuscleVerifSetNextSessionID(uint32 nextID);}

static const int NSLOTS = 8;

// a server-side DataIO that can be told to accept no output (a client that is not reading)
class ThrottleDataIO : public ProxyDataIO
{
public:
   ThrottleDataIO(const DataIORef & child, const bool * blocked) : ProxyDataIO(child), _blocked(blocked) {}
   virtual io_status_t Write(const void * buffer, uint32 size) {return (*_blocked) ? io_status_t(0) : ProxyDataIO::Write(buffer, size);}
private:
   const bool * _blocked;
};

class VSession : public StorageReflectSession
{
public:
   VSession(const String & host, const bool * blocked) : _host(host), _blocked(blocked) {}
   virtual String GenerateHostName(const IPAddress &, const String &) const {return _host;}
   virtual DataIORef CreateDataIO(const ConstSocketRef & s)
   {
      DataIORef io = StorageReflectSession::CreateDataIO(s);
      return io() ? DataIORef(new ThrottleDataIO(io, _blocked)) : io;
   }
   DataNode * Root() {return GetSessionNode()() ? &GetGlobalRoot() : NULL;}
   DataNode * SessionNode() {return GetSessionNode()();}
   status_t Find(const String & path, Queue<DataNodeRef> & out) const {return FindMatchingNodes(path, ConstQueryFilterRef(), out);}
   uint32 OutQueueLen() {AbstractMessageIOGateway * g = GetGateway()(); return g ? g->GetOutgoingMessageQueue().GetNumItems() : 0;}
   const Message & Params() const {return GetParametersConst();}
   // the server-side subtree calls (protected in StorageReflectSession), for the ops `clone` / `save` / `restore`
   status_t Clone(const DataNode & n, const String & dest, SetDataNodeFlags f) {return CloneDataNodeSubtree(n, dest, f);}
   status_t Save(Message & m, const DataNode * n, uint32 maxDepth) const {return SaveNodeTreeToMessage(m, n, GetEmptyString(), true, maxDepth);}
   status_t Restore(const Message & m, const String & path, SetDataNodeFlags f, uint32 maxDepth) {return RestoreNodeTreeFromMessage(m, path, true, f, maxDepth);}
   void Push() {PushSubscriptionMessages();}
private:
   String _host;
   const bool * _blocked;
};

struct Sub {std::string pattern; std::string filter;};   // as the client asked for them

struct Client
{
   bool attached, blocked, tainted, usedFilter;   // tainted: quiet flags / disabled subscriptions used => C04/C13 oracles not applicable
   bool dupSpelling;                 // two SUBSCRIBE parameter names that normalise to one path were in use at the same time (finding F10)
   ConstSocketRef sock;
   MessageIOGateway * gw;
   VSession * session;               // owned by the server
   std::string host, sid;
   bool reflectSelf;
   std::vector<std::string> routeKeys; bool hasRoute;
   std::vector<std::string> routeFilt; bool hasRouteFilt;   // the PR_NAME_FILTERS parameter of the default route, as the client set it
   std::map<std::string, Sub> subs;  // param name -> subscription
   std::map<std::string, std::string> mirror;                  // node path -> payload dump
   std::map<std::string, ConstMessageRef> mirrorMsg;           // node path -> payload (for the client-side filter test on unsubscribe)
   std::map<std::string, std::vector<std::string> > idx;       // node path -> index (names)
   std::vector<std::string> inbox;                             // canonical descriptions of what arrived since the last pump line
   Client() : attached(false), blocked(false), tainted(false), usedFilter(false), dupSpelling(false), gw(NULL), session(NULL), reflectSelf(false), hasRoute(false), hasRouteFilt(false) {}
};

static volatile long g_opDeadlineLine = 0;
static void onAlarm(int) {const char m[] = "TIMEOUT: an op did not finish within its deadline\n"; (void) !write(2, m, sizeof(m)-1); _exit(97);}

struct SrvEngine : public Engine
{
   ReflectServer * server;
   Client cl[NSLOTS];
   bool inBatch[NSLOTS]; MessageRef batch[NSLOTS];
   MessageRef savedTree;             // the Message of the last `save` op of the case (SaveNodeTreeToMessage), used by `restore`

   SrvEngine() : server(NULL) {for (int i=0; i<NSLOTS; i++) inBatch[i] = false;}

   // ------------------------------------------------------------------ helpers
   static std::string S(const String & s) {return std::string(s(), s.Length());}
   static String MS(const std::string & s) {return String(s.data(), (uint32)s.size());}
   static std::string payloadDump(const Message * m) {return m ? dumpMsg(*m) : std::string("null");}

   static ConstQueryFilterRef mkFilter(const std::string & f, bool & ok)
   {
      ok = true;
      if (f == "-") return ConstQueryFilterRef();
      static const char * names[] = {"eq","lt","gt","le","ge","ne"};
      for (int i=0; i<6; i++) if (f.compare(0, 2, names[i]) == 0)
      {
         uint64_t v; if (!toU64(f.substr(2), v)) break;
         return ConstQueryFilterRef(new Int32QueryFilter("v", (uint8)i, (int32)v));
      }
      ok = false; return ConstQueryFilterRef();
   }

   void teardown()
   {
      for (int i=0; i<NSLOTS; i++)
      {
         delete cl[i].gw; cl[i] = Client(); inBatch[i] = false; batch[i].Reset();
      }
      savedTree.Reset();
      if (server) {server->Cleanup(); delete server; server = NULL;}
   }

   virtual void reset()
   {
      teardown();
      MuscleVerifSetNextSessionID(0);
      server = new ReflectServer;
   }

   // one round: clients flush output, the server runs one loop iteration, clients read
   bool pumpOnce()
   {
      bool progress = false;
      for (int i=0; i<NSLOTS; i++) if ((cl[i].attached)&&(cl[i].gw)&&(cl[i].gw->HasBytesToOutput())) {if (cl[i].gw->DoOutput().GetByteCount() > 0) progress = true;}
      (void) server->ServerProcessLoop(0);
      for (int i=0; i<NSLOTS; i++) if ((cl[i].attached)&&(cl[i].gw)&&(!cl[i].blocked))
      {
         QueueGatewayMessageReceiver rx;
         const io_status_t r = cl[i].gw->DoInput(rx);
         if (r.GetByteCount() > 0) progress = true;
         MessageRef m;
         while(rx.GetMessages().RemoveHead(m).IsOK()) {progress = true; if (m()) received(i, *m());}
      }
      return progress;
   }
   void pumpAll()
   {
      int idle = 0;
      for (int it=0; (it<4000)&&(idle<3); it++) idle = pumpOnce() ? 0 : idle+1;
   }

   // what a client does with a Message from the server
   void received(int i, const Message & m)
   {
      Client & c = cl[i];
      if (m.what == PR_RESULT_DATAITEMS)
      {
         std::string d = "D[";
         const String * r;
         for (int32 k=0; m.FindString(PR_NAME_REMOVED_DATAITEMS, k, &r).IsOK(); k++) {c.mirror.erase(S(*r)); c.mirrorMsg.erase(S(*r)); d += "-" + hexOf(S(*r)) + " ";}   // (the index mirror is driven by the index updates alone: they arrive after the data update of the same push)
         for (MessageFieldNameIterator it = m.GetFieldNameIterator(B_MESSAGE_TYPE); it.HasData(); it++)
         {
            ConstMessageRef sub;
            for (int32 k=0; m.FindMessage(it.GetFieldName(), k, sub).IsOK(); k++)
            {
               c.mirror[S(it.GetFieldName())] = payloadDump(sub()); c.mirrorMsg[S(it.GetFieldName())] = sub;
               d += "+" + hexOf(S(it.GetFieldName())) + "=" + payloadDump(sub()) + " ";
            }
         }
         c.inbox.push_back(d + "]");
      }
      else if (m.what == PR_RESULT_INDEXUPDATED)
      {
         std::string d = "I[";
         for (MessageFieldNameIterator it = m.GetFieldNameIterator(B_STRING_TYPE); it.HasData(); it++)
         {
            const String * s;
            std::vector<std::string> & ix = c.idx[S(it.GetFieldName())];
            for (int32 k=0; m.FindString(it.GetFieldName(), k, &s).IsOK(); k++)
            {
               const char op = (*s)[0];
               const char * colon = strchr((*s)(), ':');
               const uint32 pos = (uint32) atol((*s)()+1);
               const std::string name = colon ? std::string(colon+1) : std::string();
               if (op == INDEX_OP_CLEARED) ix.clear();
               else if (op == INDEX_OP_ENTRYINSERTED) {if (pos <= ix.size()) ix.insert(ix.begin()+pos, name); else if (idxPremise(c, S(it.GetFieldName()))) oracleFail("C13: index insert position " + u64s(pos) + " beyond client's index length " + u64s(ix.size()) + " for " + S(it.GetFieldName()));}
               else if (op == INDEX_OP_ENTRYREMOVED)  {if (pos < ix.size()) {if ((ix[pos] != name)&&(idxPremise(c, S(it.GetFieldName())))) oracleFail("C13: index remove names " + name + " but client holds " + ix[pos] + " at that position"); ix.erase(ix.begin()+pos);} else if (idxPremise(c, S(it.GetFieldName()))) oracleFail("C13: index remove position out of range for " + S(it.GetFieldName()));}
               d += hexOf(S(it.GetFieldName())) + ":" + hexOf(S(*s)) + " ";
            }
         }
         c.inbox.push_back(d + "]");
      }
      else if (m.what == PR_RESULT_DATATREES)
      {
         // the reply to PR_COMMAND_GETDATATREES: one SaveNodeTreeToMessage Message per matching node, under the node's path
         std::string d = "TREES[";
         for (MessageFieldNameIterator it = m.GetFieldNameIterator(B_MESSAGE_TYPE); it.HasData(); it++)
         {
            ConstMessageRef sub;
            for (int32 k=0; m.FindMessage(it.GetFieldName(), k, sub).IsOK(); k++) d += hexOf(S(it.GetFieldName())) + "=" + (sub() ? savedDump(*sub()) : std::string("null")) + " ";
         }
         c.inbox.push_back(d + "]");
      }
      else if (m.what == PR_RESULT_PONG) c.inbox.push_back("PONG " + u64s((uint32)m.GetInt32("tag")));
      else if (m.what == PR_RESULT_PARAMETERS)
      {
         // volatile fields masked: only the names of the client-settable parameters are reported
         std::vector<std::string> names;
         for (MessageFieldNameIterator it = m.GetFieldNameIterator(); it.HasData(); it++)
         {
            const std::string n = S(it.GetFieldName());
            if ((n.size() > 1)&&(n[0] == '!')&&(n != PR_NAME_KEYS)&&(n != PR_NAME_FILTERS)&&(n != PR_NAME_REFLECT_TO_SELF)&&(n != PR_NAME_MAX_UPDATE_MESSAGE_ITEMS)&&(n != PR_NAME_DISABLE_SUBSCRIPTIONS)) continue;
            names.push_back(hexOf(n));
         }
         std::sort(names.begin(), names.end());
         std::string d = "PARAMS";
         for (size_t k=0; k<names.size(); k++) d += " " + names[k];
         c.inbox.push_back(d);
      }
      else
      {
         const String * from = NULL; (void) m.FindString(PR_NAME_SESSION, &from);
         c.inbox.push_back("MSG " + u64s(m.what) + " from=" + (from ? S(*from) : std::string("-")) + " tag=" + u64s((uint32)m.GetInt32("tag")));
      }
   }

   // C13 is stated for a client that started from the server's snapshot of that index: a foreign node, no content filters
   bool idxPremise(const Client & c, const std::string & path) const {(void) path; return (!c.usedFilter)&&(!c.tainted);}
   void sendMsg(int i, const MessageRef & m)
   {
      if (inBatch[i]) {(void) batch[i]()->AddMessage(PR_NAME_KEYS, m); return;}
      (void) cl[i].gw->AddOutgoingMessage(m);
   }

   // ------------------------------------------------------------------ tree access
   DataNode * root() {for (int i=0; i<NSLOTS; i++) if ((cl[i].attached)&&(cl[i].session)&&(cl[i].session->Root())) return cl[i].session->Root(); return NULL;}

   void walk(DataNode & n, std::vector<DataNode *> & out)
   {
      out.push_back(&n);
      for (DataNodeRefIterator it = n.GetChildIterator(); it.HasData(); it++) if (it.GetValue()()) walk(*it.GetValue()(), out);
   }

   std::string treeDigest()
   {
      DataNode * r = root();
      if (r == NULL) return "T[]";
      std::vector<DataNode *> nodes; walk(*r, nodes);
      std::string d = "T[";
      for (size_t k=1; k<nodes.size(); k++)
      {
         DataNode & n = *nodes[k];
         String np; (void) n.GetNodePath(np);
         d += hexOf(S(np)) + "=" + payloadDump(n.GetData()());
         const Queue<DataNodeRef> * ix = n.GetIndex();
         if ((ix)&&(ix->HasItems())) {d += " ix("; for (uint32 j=0; j<ix->GetNumItems(); j++) d += (j?",":"") + hexOf(S((*ix)[j]()->GetNodeName())); d += ")";}
         std::vector<std::pair<uint32,uint32> > subs;
         for (ConstHashtableIterator<uint32,uint32> it(n.GetSubscribers()); it.HasData(); it++) subs.push_back(std::make_pair(it.GetKey(), it.GetValue()));
         std::sort(subs.begin(), subs.end());
         if (!subs.empty()) {d += " s("; for (size_t j=0; j<subs.size(); j++) d += (j?",":"") + u64s(subs[j].first) + ":" + u64s(subs[j].second); d += ")";}
         d += "; ";
      }
      return d + "]";
   }

   std::string ownerOf(const std::string & path) const
   {
      // "/host/sid/..." -> sid ; "" for host-level nodes
      size_t a = path.find('/', 1); if (a == std::string::npos) return "";
      size_t b = path.find('/', a+1);
      return path.substr(a+1, (b == std::string::npos) ? std::string::npos : b-a-1);
   }

   // "/a/b/c" (absolute, no empty clause) -> names; the node is then found by exact child lookups from the global root
   static bool absNames(const std::string & p, std::vector<std::string> & out)
   {
      out.clear();
      if ((p.size() < 2)||(p[0] != '/')) return false;
      size_t a = 1;
      while(true)
      {
         const size_t b = p.find('/', a);
         const std::string cl = p.substr(a, (b == std::string::npos) ? std::string::npos : b-a);
         if (cl.empty()) return false;
         out.push_back(cl);
         if (b == std::string::npos) break;
         a = b+1;
      }
      return true;
   }
   DataNode * nodeAt(const std::vector<std::string> & names)
   {
      DataNode * n = root();
      for (size_t k=0; (n)&&(k<names.size()); k++) {DataNodeRef ch; n = (n->GetChild(MS(names[k]), ch).IsOK()) ? ch() : NULL;}
      return n;
   }
   // a relative path whose clauses are non-empty alphanumeric names (so that no path consumer reads it as a pattern)
   static bool relPlain(const std::string & p)
   {
      if (p.empty()) return false;
      bool clauseEmpty = true;
      for (size_t k=0; k<p.size(); k++)
      {
         if (p[k] == '/') {if (clauseEmpty) return false; clauseEmpty = true;}
         else if (isalnum((unsigned char)p[k])) clauseEmpty = false;
         else return false;
      }
      return !clauseEmpty;
   }
   // canonical text of a Message written by SaveNodeTreeToMessage (must equal `savedDump` in Reflector/Clone.lean)
   static std::string savedDump(const Message & m)
   {
      ConstMessageRef data, ix, kids;
      std::string d = "{";
      d += (m.FindMessage(PR_NAME_NODEDATA, data).IsOK()) ? payloadDump(data()) : std::string("nodata");
      if ((m.FindMessage(PR_NAME_NODEINDEX, ix).IsOK())&&(ix()))
      {
         const String * nm; std::string l;
         for (int32 k=0; ix()->FindString(PR_NAME_KEYS, k, &nm).IsOK(); k++) l += (k?",":"") + hexOf(S(*nm));
         if (!l.empty()) d += " ix(" + l + ")";
      }
      if ((m.FindMessage(PR_NAME_NODECHILDREN, kids).IsOK())&&(kids())&&(kids()->HasNames()))
      {
         d += " kids("; bool first = true;
         for (MessageFieldNameIterator it = kids()->GetFieldNameIterator(B_MESSAGE_TYPE); it.HasData(); it++)
         {
            ConstMessageRef sub; if (kids()->FindMessage(it.GetFieldName(), sub).IsError()) continue;
            d += (first?"":",") + hexOf(S(it.GetFieldName())) + "=" + savedDump(*sub()); first = false;
         }
         d += ")";
      }
      return d + "}";
   }

   // ------------------------------------------------------------------ direct oracles, evaluated at quiescent points
   void oracles()
   {
      DataNode * r = root();
      std::vector<DataNode *> nodes; if (r) walk(*r, nodes);
      std::set<std::string> liveSids; for (int i=0; i<NSLOTS; i++) if (cl[i].attached) liveSids.insert(cl[i].sid);
      for (size_t k=1; k<nodes.size(); k++)
      {
         // C06: no trace of a departed session: every node below host level belongs to a live session, every mark to a live session
         String np; (void) nodes[k]->GetNodePath(np);
         const std::string owner = ownerOf(S(np));
         if ((!owner.empty())&&(liveSids.count(owner) == 0)) oracleFail("C06: node " + S(np) + " belongs to departed session " + owner);
         for (ConstHashtableIterator<uint32,uint32> it(nodes[k]->GetSubscribers()); it.HasData(); it++)
            if (liveSids.count(u64s(it.GetKey())) == 0) oracleFail("C06: node " + S(np) + " still carries a subscription mark of departed session " + u64s(it.GetKey()));
         // C13: the index lists only existing children, each at most once
         const Queue<DataNodeRef> * ix = nodes[k]->GetIndex();
         if (ix)
         {
            std::set<std::string> seen;
            for (uint32 j=0; j<ix->GetNumItems(); j++)
            {
               const std::string nm = S((*ix)[j]()->GetNodeName());
               if (!seen.insert(nm).second) oracleFail("C13: index of " + S(np) + " lists " + nm + " twice");
               DataNodeRef ch; if ((nodes[k]->GetChild(MS(nm), ch).IsError())||(ch() != (*ix)[j]())) oracleFail("C13: index of " + S(np) + " lists " + nm + " which is not a child");
            }
         }
      }
      for (int i=0; i<NSLOTS; i++)
      {
         Client & c = cl[i];
         if ((!c.attached)||(c.blocked)||(c.tainted)) continue;
         // the client's own idea of its subscriptions, as a fresh PathMatcher
         PathMatcher pm; bool okf = true;
         for (std::map<std::string, Sub>::const_iterator it = c.subs.begin(); it != c.subs.end(); ++it)
         {
            String p = MS(it->second.pattern); pm.AdjustStringPrefix(p, "*/*");
            (void) pm.PutPathString(p, mkFilter(it->second.filter, okf));
         }
         // C04: mirror = the other sessions' nodes that currently match
         std::map<std::string, std::string> want;
         for (size_t k=1; k<nodes.size(); k++)
         {
            String np; (void) nodes[k]->GetNodePath(np);
            const std::string path = S(np);
            if (ownerOf(path) == c.sid) continue;   // the property speaks about the OTHER sessions' nodes
            if (pm.MatchesPath(np(), nodes[k]->GetData()(), nodes[k])) want[path] = payloadDump(nodes[k]->GetData()());
         }
         std::map<std::string, std::string> have;
         for (std::map<std::string,std::string>::const_iterator it = c.mirror.begin(); it != c.mirror.end(); ++it) if (ownerOf(it->first) != c.sid) have[it->first] = it->second;
         if (want != have)
         {
            std::string d;
            for (std::map<std::string,std::string>::const_iterator it = want.begin(); it != want.end(); ++it)
            {
               std::map<std::string,std::string>::const_iterator f = have.find(it->first);
               if (f == have.end()) d += " missing:" + it->first; else if (f->second != it->second) d += " stale:" + it->first;
            }
            for (std::map<std::string,std::string>::const_iterator it = have.begin(); it != have.end(); ++it) if (want.count(it->first) == 0) d += " extra:" + it->first;
            // (tags name the premises of open findings, so that known_findings.json can tell them from any other divergence)
            std::string tag;
            if (c.dupSpelling) tag += " [F10: two SUBSCRIBE spellings of one path were in use]";
            if (d.find("//") != std::string::npos) tag += " [F11: node path with an empty clause]";
            oracleFail("C04: mirror of session " + c.sid + " differs from the matching set:" + d + tag);
         }
         // C13: for every matching node the replayed index equals the server's index
         for (size_t k=1; k<nodes.size(); k++)
         {
            String np; (void) nodes[k]->GetNodePath(np);
            if (c.usedFilter) break;   // with a content filter the client may never have been sent the index snapshot the property starts from
            if (!pm.MatchesPath(np(), nodes[k]->GetData()(), nodes[k])) continue;
            // (the session's OWN indexed nodes count as well: index instructions go to every subscriber, the owner included, and a session
            //  that has ever created an index is sent its own nodes in snapshots — _indexingPresent)
            std::vector<std::string> have; const Queue<DataNodeRef> * ix = nodes[k]->GetIndex();
            if (ix) for (uint32 j=0; j<ix->GetNumItems(); j++) have.push_back(S((*ix)[j]()->GetNodeName()));
            std::map<std::string, std::vector<std::string> >::const_iterator f = c.idx.find(S(np));
            const std::vector<std::string> got = (f == c.idx.end()) ? std::vector<std::string>() : f->second;
            if (got != have) oracleFail("C13: replayed index of " + S(np) + " at session " + c.sid + " differs from the server's index");
         }
      }
   }

   // digest of everything session (i) must not be able to change in others (C06 frame)
   std::string foreignDigest(int i)
   {
      std::string d;
      DataNode * r = root(); if (r == NULL) return d;
      std::vector<DataNode *> nodes; walk(*r, nodes);
      for (size_t k=1; k<nodes.size(); k++)
      {
         String np; (void) nodes[k]->GetNodePath(np);
         const std::string path = S(np), owner = ownerOf(path);
         if (owner == cl[i].sid) continue;
         d += path + "=" + payloadDump(nodes[k]->GetData()());
         const Queue<DataNodeRef> * ix = nodes[k]->GetIndex();
         if (ix) for (uint32 j=0; j<ix->GetNumItems(); j++) d += "," + S((*ix)[j]()->GetNodeName());
         // marks of sessions other than (i)
         std::vector<std::pair<uint32,uint32> > subs;
         for (ConstHashtableIterator<uint32,uint32> it(nodes[k]->GetSubscribers()); it.HasData(); it++) if (u64s(it.GetKey()) != cl[i].sid) subs.push_back(std::make_pair(it.GetKey(), it.GetValue()));
         std::sort(subs.begin(), subs.end());
         for (size_t j=0; j<subs.size(); j++) d += " " + u64s(subs[j].first) + ":" + u64s(subs[j].second);
         d += ";";
      }
      for (int j=0; j<NSLOTS; j++) if ((j != i)&&(cl[j].attached)&&(cl[j].session))
      {
         d += " P" + cl[j].sid + "=" + dumpMsg(cl[j].session->Params()) + (cl[j].session->IsConnected() ? "c" : "d");
      }
      return d;
   }

   // ------------------------------------------------------------------ ops
   virtual std::string step(const std::vector<std::string> & t)
   {
      alarm(20);
      const std::string r = step2(t);
      alarm(0);
      return r;
   }

   std::string step2(const std::vector<std::string> & t)
   {
      const std::string & op = t[0];
      if ((op == "wping")&&(t.size() == 2))
      {
         // C07: whatever the other clients sent, a second client's ping is answered (and the server is still alive)
         uint64_t tag; if (!toU64(t[1], tag)) return "bad-op";
         Client & w = cl[NSLOTS-1];
         if (!w.attached) return "bad-op";
         MessageRef m = GetMessageFromPool(PR_COMMAND_PING); (void) m()->AddInt32("tag", (int32)tag);
         (void) w.gw->AddOutgoingMessage(m);
         pumpAll();
         const std::string want = "PONG " + u64s(tag);
         bool got = false; for (size_t k=0; k<w.inbox.size(); k++) if (w.inbox[k] == want) got = true;
         if (!got) oracleFail("C07: the witness session's ping (tag " + u64s(tag) + ") was not answered");
         return got ? "pong" : "nopong";
      }
      if (op == "pump")
      {
         pumpAll();
         oracles();
         std::string d = treeDigest();
         for (int i=0; i<NSLOTS; i++) if (cl[i].attached)
         {
            d += " | S" + u64s(i) + ":";
            for (size_t k=0; k<cl[i].inbox.size(); k++) d += " " + cl[i].inbox[k];
            cl[i].inbox.clear();
         }
         return d;
      }
      uint64_t slot;
      if ((t.size() < 2)||(!toU64(t[1], slot))||(slot >= (uint64_t)NSLOTS)) return "bad-op";
      Client & c = cl[slot];
      const int si = (int)slot;
      if (op == "attach")
      {
         if ((t.size() != 3)||(c.attached)) return "bad-op";
         std::string host; if (!unhex(t[2], host)) return "bad-op";
         ConstSocketRef a, b;
         if (CreateConnectedSocketPair(a, b, false).IsError()) return "err";
         c = Client();
         VSession * s = new VSession(MS(host), &cl[slot].blocked);
         AbstractReflectSessionRef sref(s);
         if (server->AddNewSession(sref, b).IsError()) return "err";
         c.attached = true; c.session = s; c.sock = a; c.host = host; c.sid = S(s->GetSessionIDString());
         c.gw = new MessageIOGateway; c.gw->SetDataIO(DataIORef(new TCPSocketDataIO(a, false)));
         pumpAll();
         return "ok " + c.sid;
      }
      if (!c.attached) return "bad-op";
      if (op == "detach")
      {
         delete c.gw; c.gw = NULL; c.sock.Reset(); c.attached = false; c.session = NULL;
         inBatch[si] = false; batch[si].Reset();
         pumpAll();
         return "ok";
      }
      if ((op == "cut")&&(t.size() == 4))
      {
         // send only the first <n> bytes of a SETDATA command, then drop the connection (C06: cut mid-Message)
         uint64_t n; std::string path; if ((!toU64(t[2], n))||(!unhex(t[3], path))) return "bad-op";
         MessageRef m = GetMessageFromPool(PR_COMMAND_SETDATA);
         MessageRef pay = GetMessageFromPool(0); (void) pay()->AddInt32("v", 999);
         (void) m()->AddMessage(MS(path), pay);
         pumpAll();
         const std::string before = foreignDigest(si);
         // frame = 8-byte header + body, written by hand so that we control the prefix
         const uint32 fs = m()->FlattenedSize();
         std::vector<uint8_t> frame(8+fs);
         const uint32 enc = MUSCLE_MESSAGE_ENCODING_DEFAULT;
         memcpy(&frame[0], &fs, 4); memcpy(&frame[4], &enc, 4); m()->FlattenToBytes(&frame[8]);
         const uint32 k = (uint32) std::min<uint64_t>(n, frame.size() ? frame.size()-1 : 0);   // a strict prefix
         TCPSocketDataIO io(c.sock, false);
         uint32 sent = 0; while(sent < k) {const io_status_t w = io.Write(&frame[sent], k-sent); if (w.GetByteCount() <= 0) break; sent += (uint32)w.GetByteCount();}
         delete c.gw; c.gw = NULL; c.sock.Reset(); c.attached = false; c.session = NULL;
         Client gone = c;
         pumpAll();
         // nothing of the partial command may have taken effect anywhere outside the departed session
         c.sid = gone.sid; const std::string after = foreignDigest(si); c.sid.clear();
         if (before != after) oracleFail("C06: a connection cut after " + u64s(k) + " bytes of a command changed other sessions' state");
         return "ok";
      }
      if ((op == "block")&&(t.size() == 3)) {c.blocked = (t[2] != "0"); return "ok";}
      if ((op == "batch")&&(t.size() == 3))
      {
         if (t[2] == "begin") {if (inBatch[si]) return "bad-op"; inBatch[si] = true; batch[si] = GetMessageFromPool(PR_COMMAND_BATCH); return "ok";}
         if (t[2] == "end")   {if (!inBatch[si]) return "bad-op"; inBatch[si] = false; MessageRef b = batch[si]; batch[si].Reset(); return command(si, b);}
         return "bad-op";
      }
      // ---- server-side subtree calls, made directly on the session (the stock protocol has no command for them), then one
      //      PushSubscriptionMessages() as after any command.  The usual oracles apply: C06 here, C04/C13/tree digest at `pump`.
      if ((op == "clone")&&(t.size() == 5))
      {
         // clone <slot> <flags 0|8> <source node path, absolute> <dest path relative to the session>: CloneDataNodeSubtree
         uint64_t flags; std::string src, dest; std::vector<std::string> names;
         if ((!toU64(t[2], flags))||(!unhex(t[3], src))||(!unhex(t[4], dest))||(!absNames(src, names))||(!relPlain(dest))) return "bad-op";
         if (((flags != 0)&&(flags != (1u<<SETDATANODE_FLAG_ADDTOINDEX)))||(inBatch[si])) return "bad-op";
         pumpAll();
         DataNode * n = nodeAt(names); if (n == NULL) return "nosrc";
         const std::string before = foreignDigest(si);
         const status_t r = c.session->Clone(*n, MS(dest), flags ? SetDataNodeFlags(SETDATANODE_FLAG_ADDTOINDEX) : SetDataNodeFlags());
         c.session->Push();
         pumpAll();
         if (before != foreignDigest(si)) oracleFail("C06: a subtree clone by session " + c.sid + " changed state outside its own subtree");
         return r.IsOK() ? "ok" : "err";
      }
      if ((op == "save")&&(t.size() == 4))
      {
         // save <slot> <source node path, absolute> <maxDepth>: SaveNodeTreeToMessage into the case's saved-tree Message
         uint64_t md; std::string src; std::vector<std::string> names;
         if ((!unhex(t[2], src))||(!absNames(src, names))||(!toU64(t[3], md))||(md > 0xFFFFFFFFull)||(inBatch[si])) return "bad-op";
         pumpAll();
         DataNode * n = nodeAt(names); if (n == NULL) return "nosrc";
         MessageRef m = GetMessageFromPool();
         if (c.session->Save(*m(), n, (uint32)md).IsError()) return "err";
         savedTree = m;
         return "saved " + savedDump(*m());
      }
      if ((op == "restore")&&(t.size() == 5))
      {
         // restore <slot> <flags 0|8> <dest path relative to the session> <maxDepth>: RestoreNodeTreeFromMessage of the saved tree
         uint64_t flags, md; std::string dest;
         if ((!toU64(t[2], flags))||(!unhex(t[3], dest))||(!relPlain(dest))||(!toU64(t[4], md))||(md > 0xFFFFFFFFull)||(savedTree() == NULL)) return "bad-op";
         if (((flags != 0)&&(flags != (1u<<SETDATANODE_FLAG_ADDTOINDEX)))||(inBatch[si])) return "bad-op";
         pumpAll();
         const std::string before = foreignDigest(si);
         const status_t r = c.session->Restore(*savedTree(), MS(dest), flags ? SetDataNodeFlags(SETDATANODE_FLAG_ADDTOINDEX) : SetDataNodeFlags(), (uint32)md);
         c.session->Push();
         pumpAll();
         if (before != foreignDigest(si)) oracleFail("C06: a subtree restore by session " + c.sid + " changed state outside its own subtree");
         return r.IsOK() ? "ok" : "err";
      }
      // ---- commands: build the Message, remember the foreign digest, send, (the pump happens at `pump`)
      MessageRef m;
      if ((op == "set")&&(t.size() >= 5))
      {
         // set <slot> <flags> <path> <v> [insertBefore]
         uint64_t flags, v; std::string path, before;
         if ((!toU64(t[2], flags))||(!unhex(t[3], path))||(!toU64(t[4], v))) return "bad-op";
         if ((t.size() > 5)&&(!unhex(t[5], before))) return "bad-op";
         m = GetMessageFromPool(PR_COMMAND_SETDATA);
         MessageRef pay = GetMessageFromPool(0); (void) pay()->AddInt32("v", (int32)v);
         (void) m()->AddMessage(MS(path), pay);
         if (flags) (void) m()->AddInt32(PR_NAME_FLAGS, (int32)flags);
         if (flags & (1u<<SETDATANODE_FLAG_QUIET)) taintAllButSelf();
         (void) before;
      }
      else if ((op == "setm")&&(t.size() >= 4))
      {
         // setm <slot> <path> <v> [<v> ...]: ONE PR_COMMAND_SETDATA whose field <path> holds several payloads (the server
         // sets them one after the other, without flushing the subscribers' pending updates in between)
         if (inBatch[si]) return "bad-op";
         std::string path; if (!unhex(t[2], path)) return "bad-op";
         m = GetMessageFromPool(PR_COMMAND_SETDATA);
         for (size_t k=3; k<t.size(); k++) {uint64_t v; if (!toU64(t[k], v)) return "bad-op"; MessageRef pay = GetMessageFromPool(0); (void) pay()->AddInt32("v", (int32)v); (void) m()->AddMessage(MS(path), pay);}
      }
      else if ((op == "rm")&&(t.size() >= 4))
      {
         uint64_t quiet; if (!toU64(t[2], quiet)) return "bad-op";
         m = GetMessageFromPool(PR_COMMAND_REMOVEDATA);
         for (size_t k=3; k<t.size(); k++) {std::string p; if (!unhex(t[k], p)) return "bad-op"; (void) m()->AddString(PR_NAME_KEYS, MS(p));}
         if (quiet) {(void) m()->AddBool(PR_NAME_REMOVE_QUIETLY, true); taintAllButSelf();}
      }
      else if ((op == "sub")&&(t.size() == 5))
      {
         // sub <slot> <quiet> <pattern> <filter>
         uint64_t quiet; std::string p; bool okf;
         if ((!toU64(t[2], quiet))||(!unhex(t[3], p))) return "bad-op";
         ConstQueryFilterRef f = mkFilter(t[4], okf); if (!okf) return "bad-op";
         m = GetMessageFromPool(PR_COMMAND_SETPARAMETERS);
         const String pn = MS(std::string(PR_NAME_SUBSCRIBE_PREFIX) + p);
         if (f()) {MessageRef fm = GetMessageFromPool(); (void) f()->SaveToArchive(*fm()); (void) m()->AddMessage(pn, fm);}
             else (void) m()->AddBool(pn, true);
         if (quiet) {(void) m()->AddBool(PR_NAME_SUBSCRIBE_QUIETLY, true); c.tainted = true;}
         {
            String np0 = MS(p); PathMatcher tmp; tmp.AdjustStringPrefix(np0, "*/*");
            for (std::map<std::string, Sub>::const_iterator it = c.subs.begin(); it != c.subs.end(); ++it)
               if (it->first != S(pn)) {String np1 = MS(it->second.pattern); tmp.AdjustStringPrefix(np1, "*/*"); if (np1 == np0) {c.subs.erase(it->first); break;}}   // one subscription per path: the latest spelling replaces an older one (F10, repaired)
         }
         Sub s; s.pattern = p; s.filter = t[4]; c.subs[S(pn)] = s;
         if (f()) c.usedFilter = true;
      }
      else if ((op == "unsub")&&(t.size() == 3))
      {
         // unsub <slot> <pattern>: remove the parameter SUBSCRIBE:<pattern> (name escaped, so it is taken literally)
         std::string p; if (!unhex(t[2], p)) return "bad-op";
         m = GetMessageFromPool(PR_COMMAND_REMOVEPARAMETERS);
         const String pn = MS(std::string(PR_NAME_SUBSCRIBE_PREFIX) + p);
         (void) m()->AddString(PR_NAME_KEYS, EscapeRegexTokens(pn));
         // client-side rule: after my own unsubscribe, drop entries no remaining subscription matches
         c.subs.erase(S(pn));
         PathMatcher pm; bool okf;
         for (std::map<std::string, Sub>::const_iterator it = c.subs.begin(); it != c.subs.end(); ++it) {String q = MS(it->second.pattern); pm.AdjustStringPrefix(q, "*/*"); (void) pm.PutPathString(q, mkFilter(it->second.filter, okf));}
         for (std::map<std::string,std::string>::iterator it = c.mirror.begin(); it != c.mirror.end(); ) {const Message * pay = c.mirrorMsg[it->first](); if (!pm.MatchesPath(it->first.c_str(), pay, NULL)) {c.idx.erase(it->first); c.mirrorMsg.erase(it->first); c.mirror.erase(it++);} else ++it;}
         // the same for replicated indices of nodes whose data the client does not hold (e.g. an intermediate node): what no remaining subscription matches is dropped
         for (std::map<std::string, std::vector<std::string> >::iterator it = c.idx.begin(); it != c.idx.end(); ) {if ((c.mirror.count(it->first) == 0)&&(!pm.MatchesPath(it->first.c_str(), NULL, NULL))) c.idx.erase(it++); else ++it;}
      }
      else if ((op == "param")&&(t.size() >= 3))
      {
         m = GetMessageFromPool(PR_COMMAND_SETPARAMETERS);
         if (t[2] == "self") {(void) m()->AddBool(PR_NAME_REFLECT_TO_SELF, true); c.reflectSelf = true;}
         else if ((t[2] == "maxitems")&&(t.size() == 4)) {uint64_t n; if (!toU64(t[3], n)) return "bad-op"; (void) m()->AddInt32(PR_NAME_MAX_UPDATE_MESSAGE_ITEMS, (int32)n);}
         else if (t[2] == "nosubs") {(void) m()->AddBool(PR_NAME_DISABLE_SUBSCRIPTIONS, true); c.tainted = true;}
         else if ((t[2] == "routef")&&(t.size() >= 5)&&(t.size() % 2 == 1))
         {
            // param <slot> routef <key> <filter> [<key> <filter> ...]: default route with one filter item per key ("-" = an item that is no filter)
            c.routeKeys.clear(); c.routeFilt.clear(); c.hasRoute = true; c.hasRouteFilt = true;
            for (size_t k=3; k+1<t.size(); k+=2)
            {
               std::string p; bool okf; if (!unhex(t[k], p)) return "bad-op";
               ConstQueryFilterRef f = mkFilter(t[k+1], okf); if (!okf) return "bad-op";
               (void) m()->AddString(PR_NAME_KEYS, MS(p)); c.routeKeys.push_back(p); c.routeFilt.push_back(t[k+1]);
               MessageRef fm = GetMessageFromPool(); if (f()) (void) f()->SaveToArchive(*fm());
               (void) m()->AddMessage(PR_NAME_FILTERS, fm);
            }
         }
         else if ((t[2] == "route")&&(t.size() >= 4)) {c.routeKeys.clear(); c.hasRoute = true; for (size_t k=3; k<t.size(); k++) {std::string p; if (!unhex(t[k], p)) return "bad-op"; (void) m()->AddString(PR_NAME_KEYS, MS(p)); c.routeKeys.push_back(p);}}
         else return "bad-op";
      }
      else if ((op == "unparam")&&(t.size() == 3))
      {
         m = GetMessageFromPool(PR_COMMAND_REMOVEPARAMETERS);
         if (t[2] == "self") {(void) m()->AddString(PR_NAME_KEYS, EscapeRegexTokens(PR_NAME_REFLECT_TO_SELF)); c.reflectSelf = false; c.tainted = true;}
         else if (t[2] == "maxitems") (void) m()->AddString(PR_NAME_KEYS, EscapeRegexTokens(PR_NAME_MAX_UPDATE_MESSAGE_ITEMS));
         else if (t[2] == "route") {(void) m()->AddString(PR_NAME_KEYS, EscapeRegexTokens(PR_NAME_KEYS)); c.routeKeys.clear(); c.hasRoute = false;}
         else if (t[2] == "routef") {(void) m()->AddString(PR_NAME_KEYS, EscapeRegexTokens(PR_NAME_FILTERS)); c.routeFilt.clear(); c.hasRouteFilt = false;}
         else return "bad-op";
      }
      else if (op == "getparams") m = GetMessageFromPool(PR_COMMAND_GETPARAMETERS);
      else if ((op == "get")&&(t.size() >= 3))
      {
         m = GetMessageFromPool(PR_COMMAND_GETDATA);
         for (size_t k=2; k<t.size(); k++) {std::string p; if (!unhex(t[k], p)) return "bad-op"; (void) m()->AddString(PR_NAME_KEYS, MS(p));}
         c.tainted = true;   // an explicit GETDATA puts non-subscribed nodes into the client's data set
      }
      else if ((op == "trees")&&(t.size() == 4))
      {
         // trees <slot> <maxDepth, 4294967295 = none> <key>: PR_COMMAND_GETDATATREES (SaveNodeTreeToMessage of every matching node, through
         // the client protocol; the session's own nodes are left out unless it indexes or reflects to itself)
         uint64_t md; std::string p;
         if ((!toU64(t[2], md))||((md >= 0x80000000ull)&&(md != MUSCLE_NO_LIMIT))||(!unhex(t[3], p))||(inBatch[si])) return "bad-op";
         m = GetMessageFromPool(PR_COMMAND_GETDATATREES);
         (void) m()->AddString(PR_NAME_KEYS, MS(p));
         if (md != MUSCLE_NO_LIMIT) (void) m()->AddInt32(PR_NAME_MAXDEPTH, (int32)md);
      }
      else if ((op == "ins")&&(t.size() >= 5))
      {
         // ins <slot> <parent pattern> <insertBefore> <v> [<v> ...]
         std::string p, before; if ((!unhex(t[2], p))||(!unhex(t[3], before))) return "bad-op";
         m = GetMessageFromPool(PR_COMMAND_INSERTORDEREDDATA);
         (void) m()->AddString(PR_NAME_KEYS, MS(p));
         for (size_t k=4; k<t.size(); k++) {uint64_t v; if (!toU64(t[k], v)) return "bad-op"; MessageRef pay = GetMessageFromPool(0); (void) pay()->AddInt32("v", (int32)v); (void) m()->AddMessage(MS(before), pay);}
      }
      else if ((op == "reorder")&&(t.size() == 4))
      {
         std::string p, before; if ((!unhex(t[2], p))||(!unhex(t[3], before))) return "bad-op";
         m = GetMessageFromPool(PR_COMMAND_REORDERDATA);
         (void) m()->AddString(MS(p), MS(before));
      }
      else if ((op == "send")&&(t.size() >= 3))
      {
         // send <slot> <tag> [key patterns...]: a client-to-client Message, with a forged session field
         uint64_t tag; if (!toU64(t[2], tag)) return "bad-op";
         m = GetMessageFromPool(1234);
         (void) m()->AddInt32("tag", (int32)tag);
         (void) m()->AddString(PR_NAME_SESSION, "666");
         std::vector<std::string> keys;
         for (size_t k=3; k<t.size(); k++) {std::string p; if (!unhex(t[k], p)) return "bad-op"; (void) m()->AddString(PR_NAME_KEYS, MS(p)); keys.push_back(p);}
         if (inBatch[si]) return command(si, m);
         // C05: delivered exactly once to every session the patterns select (brute force over the tree), to nobody else
         pumpAll();
         std::vector<int> want(NSLOTS, 0), before(NSLOTS, 0);
         {
            const bool broadcast = keys.empty() && !c.hasRoute;
            const std::vector<std::string> & eff = keys.empty() ? c.routeKeys : keys;
            PathMatcher pm;
            if ((keys.empty())&&(c.hasRouteFilt))
            {
               // the default route is what the two listed parameters say: keys paired with the filter items by PathMatcher's own rule
               Message rm; bool okf;
               for (size_t k=0; k<c.routeKeys.size(); k++) (void) rm.AddString(PR_NAME_KEYS, MS(c.routeKeys[k]));
               for (size_t k=0; k<c.routeFilt.size(); k++) {MessageRef fm = GetMessageFromPool(); ConstQueryFilterRef f = mkFilter(c.routeFilt[k], okf); if (f()) (void) f()->SaveToArchive(*fm()); (void) rm.AddMessage(PR_NAME_FILTERS, fm);}
               (void) pm.PutPathsFromMessage(PR_NAME_KEYS, PR_NAME_FILTERS, rm, "*/*");
            }
            else for (size_t k=0; k<eff.size(); k++) {String q = MS(eff[k]); pm.AdjustStringPrefix(q, "*/*"); (void) pm.PutPathString(q, ConstQueryFilterRef());}
            DataNode * r = root(); std::vector<DataNode *> nodes; if (r) walk(*r, nodes);
            for (int j=0; j<NSLOTS; j++) if ((cl[j].attached)&&((j != si)||(c.reflectSelf)))
            {
               if (broadcast) {want[j] = 1; continue;}
               for (size_t k=1; k<nodes.size(); k++)
               {
                  String np; (void) nodes[k]->GetNodePath(np);
                  if ((ownerOf(S(np)) == cl[j].sid)&&(pm.MatchesPath(np(), nodes[k]->GetData()(), nodes[k]))) {want[j] = 1; break;}
               }
            }
         }
         const std::string marker = " tag=" + u64s(tag);
         for (int j=0; j<NSLOTS; j++) for (size_t k=0; k<cl[j].inbox.size(); k++) if ((cl[j].inbox[k].compare(0, 4, "MSG ") == 0)&&(cl[j].inbox[k].size() >= marker.size())&&(cl[j].inbox[k].compare(cl[j].inbox[k].size()-marker.size(), marker.size(), marker) == 0)) before[j]++;
         const std::string res = command(si, m);
         for (int j=0; j<NSLOTS; j++) if ((cl[j].attached)&&(!cl[j].blocked))
         {
            int got = -before[j], seen = 0;
            for (size_t k=0; k<cl[j].inbox.size(); k++) if ((cl[j].inbox[k].compare(0, 4, "MSG ") == 0)&&(cl[j].inbox[k].size() >= marker.size())&&(cl[j].inbox[k].compare(cl[j].inbox[k].size()-marker.size(), marker.size(), marker) == 0))
            {
               got++;
               // (only what THIS send added is this sender's: an earlier Message of another sender may carry the same tag)
               if ((++seen > before[j])&&(cl[j].inbox[k].find(" from=" + c.sid + " ") == std::string::npos)) oracleFail("C05: delivered Message does not name the true sender " + c.sid + ": " + cl[j].inbox[k]);
            }
            if (got != want[j])
            {
               // input class label (used by known_findings.json): a key naming the session node itself together with a deeper key
               bool sessLevel = false, deeper = false;
               const std::vector<std::string> & eff = keys.empty() ? c.routeKeys : keys;
               for (size_t k=0; k<eff.size(); k++) {String q = MS(eff[k]); PathMatcher().AdjustStringPrefix(q, "*/*"); const int d = GetPathDepth(q()); if (d == 2) sessLevel = true; else if (d > 2) deeper = true;}
               oracleFail("C05: routed Message (tag " + u64s(tag) + ") delivered " + u64s((uint64_t)(got < 0 ? 0 : got)) + " time(s) to session " + cl[j].sid + ", the patterns select it " + u64s(want[j]) + " time(s)" + (((got == 2)&&(want[j] == 1)&&(sessLevel)&&(deeper)) ? " [keys: session-level pattern together with a deeper pattern]" : ""));
            }
         }
         return res;
      }
      else if ((op == "ping")&&(t.size() == 3))
      {
         uint64_t tag; if (!toU64(t[2], tag)) return "bad-op";
         m = GetMessageFromPool(PR_COMMAND_PING); (void) m()->AddInt32("tag", (int32)tag);
      }
      else if ((op == "jettison")&&(t.size() >= 3))
      {
         // jettison <slot> <filter> [patterns...]
         bool okf; ConstQueryFilterRef f = mkFilter(t[2], okf); if (!okf) return "bad-op";
         m = GetMessageFromPool(PR_COMMAND_JETTISONRESULTS);
         for (size_t k=3; k<t.size(); k++)
         {
            std::string p; if (!unhex(t[k], p)) return "bad-op"; (void) m()->AddString(PR_NAME_KEYS, MS(p));
            if (f()) {MessageRef fm = GetMessageFromPool(); (void) f()->SaveToArchive(*fm()); (void) m()->AddMessage(PR_NAME_FILTERS, fm);}
         }
         c.tainted = true;
      }
      else if ((op == "raw")&&(t.size() == 3))
      {
         // an arbitrary (structurally valid) Message: the must-not-hang-or-crash stream of C07
         std::string bytes; if (!unhex(t[2], bytes)) return "bad-op";
         m = GetMessageFromPool();
         if (m()->UnflattenFromBytes((const uint8 *)bytes.data(), (uint32)bytes.size()).IsError()) return "bad-op";
         for (int j=0; j<NSLOTS; j++) cl[j].tainted = true;
      }
      else if ((op == "find")&&(t.size() == 3))
      {
         // C05: wildcard traversal vs. testing every node's path one by one
         std::string p; if (!unhex(t[2], p)) return "bad-op";
         pumpAll();
         Queue<DataNodeRef> out;
         if (c.session->Find(MS(p), out).IsError()) return "err";
         std::vector<std::string> got;
         for (uint32 k=0; k<out.GetNumItems(); k++) {String np; (void) out[k]()->GetNodePath(np); got.push_back(S(np));}
         // brute force
         const bool global = (!p.empty())&&(p[0] == '/');
         PathMatcher pm; (void) pm.PutPathString(MS(global ? p.substr(1) : p), ConstQueryFilterRef());
         std::vector<std::string> want;
         DataNode * base = global ? root() : c.session->SessionNode();
         if (base)
         {
            std::vector<DataNode *> nodes; walk(*base, nodes);
            String basePath; (void) base->GetNodePath(basePath);
            for (size_t k=1; k<nodes.size(); k++)
            {
               String np; (void) nodes[k]->GetNodePath(np);
               const std::string full = S(np);
               const std::string rel = global ? full.substr(1) : full.substr(basePath.Length()+1);
               if (pm.MatchesPath(rel.c_str(), NULL, NULL)) want.push_back(full);
            }
         }
         std::vector<std::string> g2 = got, w2 = want; std::sort(g2.begin(), g2.end()); std::sort(w2.begin(), w2.end());
         if (g2 != w2) oracleFail("C05: traversal for pattern " + p + " visited a different node set than testing every node's path (visited " + u64s(g2.size()) + ", matching " + u64s(w2.size()) + ")");
         for (size_t k=1; k<g2.size(); k++) if (g2[k] == g2[k-1]) oracleFail("C05: traversal visited " + g2[k] + " twice");
         std::string d = "found";
         for (size_t k=0; k<got.size(); k++) d += " " + hexOf(got[k]);
         return d;
      }
      else return "bad-op";
      return command(si, m);
   }

   void taintAllButSelf() {for (int j=0; j<NSLOTS; j++) cl[j].tainted = true;}

   // sends one command of session (si), then checks the frame property (C06) at the next quiescent point
   std::string command(int si, const MessageRef & m)
   {
      if (inBatch[si]) {(void) batch[si]()->AddMessage(PR_NAME_KEYS, m); return "ok";}
      pumpAll();
      const std::string before = foreignDigest(si);
      (void) cl[si].gw->AddOutgoingMessage(m);
      pumpAll();
      const std::string after = foreignDigest(si);
      if (before != after) oracleFail("C06: a command of session " + cl[si].sid + " changed state outside its own subtree");
      return "ok";
   }

   // ------------------------------------------------------------------ generator
   #include "srv_gen.inc"
};

int main(int argc, char ** argv)
{
   CompleteSetupSystem css;
   signal(SIGALRM, onAlarm);
   signal(SIGPIPE, SIG_IGN);
   SetConsoleLogLevel(MUSCLE_LOG_NONE);
   SrvEngine e;
   const int r = harnessMain(argc, argv, e);
   e.teardown();
   return r;
}
