// The real lang/c/minimessage code of /repo, compiled into the gw harness behind the CGw interface.
#include "lang/c/minimessage/MiniMessage.c"
// both .c files define the same static helpers: rename the second set
#define WillUnsignedAddOverflow MG_WillUnsignedAddOverflow
#define WillUnsignedMultiplyOverflow MG_WillUnsignedMultiplyOverflow
#include "lang/c/minimessage/MiniMessageGateway.c"
#undef WillUnsignedAddOverflow
#undef WillUnsignedMultiplyOverflow
#include "gw_c.h"

struct MiniGw : public CGw
{
   MMessageGateway * gw;
   MiniGw() : gw(MGAllocMessageGateway()) {}
   virtual ~MiniGw() {MGFreeMessageGateway(gw);}
   virtual bool add(const std::string & flat)
   {
      MMessage * m = MMAllocMessage(0);
      if (m == NULL) return false;
      // exact-size heap copy so that ASan sees overruns
      uint8 * copy = (uint8 *) malloc(flat.size() ? flat.size() : 1); memcpy(copy, flat.data(), flat.size());
      const bool ok = (MMUnflattenMessage(m, copy, (uint32) flat.size()) == CB_NO_ERROR)&&(MGAddOutgoingMessage(gw, m) == CB_NO_ERROR);
      free(copy);
      MMFreeMessage(m);
      return ok;
   }
   virtual int32_t out(uint32_t maxBytes, GwIoFunc f, void * arg) {return MGDoOutput(gw, maxBytes, (MGSendFunc) f, arg);}
   virtual bool hasOut() {return MGHasBytesToOutput(gw) != 0;}
   virtual int32_t in(uint32_t maxBytes, GwIoFunc f, void * arg, std::string & flat, bool & got)
   {
      MMessage * m = NULL;
      got = false;
      const int32 r = MGDoInput(gw, maxBytes, (MGReceiveFunc) f, arg, &m);
      if (m)
      {
         flat.resize(MMGetFlattenedSize(m));
         MMFlattenMessage(m, flat.empty() ? NULL : &flat[0]);
         MMFreeMessage(m);
         got = true;
      }
      return r;
   }
};
CGw * newMiniGw() {return new MiniGw;}
