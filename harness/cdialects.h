// Shared by harness/xwire.cpp (C08) and harness/parse.cpp (C02): canonical dumps of a mini / micro Message through
// their public getters (same format as msgdump.h), builders that re-create a C++ Message through MMPut*Field / UMAdd*,
// and the long-lived python3 subprocess running tools/pymsg_driver.py.
#ifndef VERIF_CDIALECTS_H
#define VERIF_CDIALECTS_H
#include <unistd.h>
#include <signal.h>
#include <sys/types.h>
#include <sys/wait.h>
#include <sys/stat.h>
#include <limits.h>
#include <fcntl.h>
#include "libvh/vh.h"
#include "message/Message.h"
#include "util/ByteBuffer.h"
#include "support/Point.h"
#include "support/Rect.h"
#include "lang/c/minimessage/MiniMessage.h"
#include "lang/c/minimessage/MiniMessageGateway.h"
#include "lang/c/micromessage/MicroMessage.h"
#include "lang/c/micromessage/MicroMessageGateway.h"

namespace cd {
using namespace muscle;

// the dumps recurse with the nesting; beyond this depth they print `!deep` (the stack belongs to the code under test)
static const uint32 MAX_DUMP_DEPTH = 1200;

static inline std::string hexp(const void * p, size_t n) {return vh::hexOf((const uint8_t *)p, n);}

// ------------------------------------------------------------------------------------------------ mini: dump
static inline std::string dumpMini(const MMessage * mm, uint32 depth = 0);

static inline std::string dumpMiniField(const MMessage * mm, const char * fn, uint32 tc, uint32 cnt, uint32 depth)
{
   std::string s;
   #define MINI_FIXED(GETTER, CT)                                                              \
      {uint32 n = 0; const CT * a = GETTER(mm, fn, &n); if ((a == NULL)||(n != cnt)) return "!"; \
       for (uint32 i=0; i<n; i++) {if (i) s += ","; s += hexp(&a[i], sizeof(CT));} return s;}
   switch(tc)
   {
      case B_BOOL_TYPE:   MINI_FIXED(MMGetBoolField,   MBool)
      case B_INT8_TYPE:   MINI_FIXED(MMGetInt8Field,   int8)
      case B_INT16_TYPE:  MINI_FIXED(MMGetInt16Field,  int16)
      case B_INT32_TYPE:  MINI_FIXED(MMGetInt32Field,  int32)
      case B_INT64_TYPE:  MINI_FIXED(MMGetInt64Field,  int64)
      case B_FLOAT_TYPE:  MINI_FIXED(MMGetFloatField,  float)
      case B_DOUBLE_TYPE: MINI_FIXED(MMGetDoubleField, double)
      case B_POINT_TYPE:  MINI_FIXED(MMGetPointField,  MPoint)
      case B_RECT_TYPE:   MINI_FIXED(MMGetRectField,   MRect)
      case B_POINTER_TYPE: return "";
      case B_MESSAGE_TYPE:
      {
         uint32 n = 0; MMessage ** a = MMGetMessageField(mm, fn, &n); if ((a == NULL)||(n != cnt)) return "!";
         for (uint32 i=0; i<n; i++) {if (i) s += ","; s += (a[i] == NULL) ? std::string("!null") : (depth >= MAX_DUMP_DEPTH) ? std::string("!deep") : dumpMini(a[i], depth+1);}
         return s;
      }
      case B_STRING_TYPE:
      {
         uint32 n = 0; MByteBuffer ** a = MMGetStringField(mm, fn, &n); if ((a == NULL)||(n != cnt)) return "!";
         for (uint32 i=0; i<n; i++)
         {
            if (i) s += ",";
            if (a[i] == NULL) {s += "!null"; continue;}
            // a string item holds its bytes including the terminating NUL
            if ((a[i]->numBytes == 0)||((&a[i]->bytes)[a[i]->numBytes-1] != 0)) {s += "!unterminated" + hexp(&a[i]->bytes, a[i]->numBytes); continue;}
            s += hexp(&a[i]->bytes, a[i]->numBytes-1);
         }
         return s;
      }
      default:
      {
         uint32 n = 0; MByteBuffer ** a = MMGetDataField(mm, tc, fn, &n); if ((a == NULL)||(n != cnt)) return "!";
         for (uint32 i=0; i<n; i++) {if (i) s += ","; s += a[i] ? hexp(&a[i]->bytes, a[i]->numBytes) : std::string("!null");}
         return s;
      }
   }
   #undef MINI_FIXED
}

static inline std::string dumpMini(const MMessage * mm, uint32 depth)
{
   std::string s = "{" + vh::u64s(MMGetWhat(mm));
   MMessageIterator it = MMGetFieldNameIterator(mm, B_ANY_TYPE);
   const char * fn; uint32 tc = 0;
   while((fn = MMGetNextFieldName(&it, &tc)) != NULL)
   {
      uint32 cnt = 0, tc2 = 0;
      if ((MMGetFieldInfo(mm, fn, B_ANY_TYPE, &cnt, &tc2) != CB_NO_ERROR)||(tc2 != tc)) {s += " !"; continue;}
      s += " " + hexp(fn, strlen(fn)) + ":" + vh::u64s(tc) + ":" + vh::u64s(cnt) + "[" + dumpMiniField(mm, fn, tc, cnt, depth) + "]";
   }
   return s + "}";
}

// ------------------------------------------------------------------------------------------------ mini: build from a C++ Message
// returns NULL (and sets err) if some MMPut*Field call fails
static inline MMessage * buildMini(const Message & m, std::string & err)
{
   MMessage * mm = MMAllocMessage(m.what);
   if (mm == NULL) {err = "MMAllocMessage failed"; return NULL;}
   for (MessageFieldNameIterator it = m.GetFieldNameIterator(); it.HasData(); it++)
   {
      const String & fs = it.GetFieldName(); const char * fn = fs();
      uint32 tc = 0, cnt = 0; if (m.GetInfo(fs, &tc, &cnt).IsError()) continue;
      #define MINI_PUT(PUT, CT, FIND, CPPT)                                                        \
         {CT * a = PUT(mm, MFalse, fn, cnt); if (a == NULL) {err = #PUT " failed"; MMFreeMessage(mm); return NULL;} \
          for (uint32 i=0; i<cnt; i++) {CPPT v = CPPT(); (void) m.FIND(fs, i, v); memcpy(&a[i], &v, sizeof(CT));} break;}
      switch(tc)
      {
         case B_BOOL_TYPE:
         {
            MBool * a = MMPutBoolField(mm, MFalse, fn, cnt); if (a == NULL) {err = "MMPutBoolField failed"; MMFreeMessage(mm); return NULL;}
            for (uint32 i=0; i<cnt; i++) {bool v = false; (void) m.FindBool(fs, i, v); a[i] = v ? MTrue : MFalse;}
         }
         break;
         case B_INT8_TYPE:   MINI_PUT(MMPutInt8Field,   int8,   FindInt8,   int8)
         case B_INT16_TYPE:  MINI_PUT(MMPutInt16Field,  int16,  FindInt16,  int16)
         case B_INT32_TYPE:  MINI_PUT(MMPutInt32Field,  int32,  FindInt32,  int32)
         case B_INT64_TYPE:  MINI_PUT(MMPutInt64Field,  int64,  FindInt64,  int64)
         case B_FLOAT_TYPE:  MINI_PUT(MMPutFloatField,  float,  FindFloat,  float)
         case B_DOUBLE_TYPE: MINI_PUT(MMPutDoubleField, double, FindDouble, double)
         case B_POINT_TYPE:
         {
            MPoint * a = MMPutPointField(mm, MFalse, fn, cnt); if (a == NULL) {err = "MMPutPointField failed"; MMFreeMessage(mm); return NULL;}
            for (uint32 i=0; i<cnt; i++) {Point p; (void) m.FindPoint(fs, i, p); a[i].x = p.x(); a[i].y = p.y();}
         }
         break;
         case B_RECT_TYPE:
         {
            MRect * a = MMPutRectField(mm, MFalse, fn, cnt); if (a == NULL) {err = "MMPutRectField failed"; MMFreeMessage(mm); return NULL;}
            for (uint32 i=0; i<cnt; i++) {Rect r; (void) m.FindRect(fs, i, r); a[i].left = r.left(); a[i].top = r.top(); a[i].right = r.right(); a[i].bottom = r.bottom();}
         }
         break;
         case B_POINTER_TYPE: case B_TAG_TYPE: break;   // outside the common repertoire (never flattened)
         case B_STRING_TYPE:
         {
            MByteBuffer ** a = MMPutStringField(mm, MFalse, fn, cnt); if (a == NULL) {err = "MMPutStringField failed"; MMFreeMessage(mm); return NULL;}
            for (uint32 i=0; i<cnt; i++) {const String * s = NULL; (void) m.FindString(fs, i, &s); a[i] = MBStrdupByteBuffer(s ? s->Cstr() : "");}
         }
         break;
         case B_MESSAGE_TYPE:
         {
            MMessage ** a = MMPutMessageField(mm, MFalse, fn, cnt); if (a == NULL) {err = "MMPutMessageField failed"; MMFreeMessage(mm); return NULL;}
            for (uint32 i=0; i<cnt; i++)
            {
               ConstMessageRef sub; (void) m.FindMessage(fs, i, sub);
               a[i] = sub() ? buildMini(*sub(), err) : NULL;
               if (a[i] == NULL) {if (err.empty()) err = "sub-Message missing"; MMFreeMessage(mm); return NULL;}
            }
         }
         break;
         default:
         {
            MByteBuffer ** a = MMPutDataField(mm, MFalse, tc, fn, cnt); if (a == NULL) {err = "MMPutDataField failed"; MMFreeMessage(mm); return NULL;}
            for (uint32 i=0; i<cnt; i++)
            {
               FlatCountableRef fc; (void) m.FindFlat(fs, i, fc);
               const ByteBuffer * bb = dynamic_cast<const ByteBuffer *>(fc());
               const uint32 n = bb ? bb->GetNumBytes() : 0;
               a[i] = MBAllocByteBuffer(n, MFalse);
               if (a[i] == NULL) {err = "MBAllocByteBuffer failed"; MMFreeMessage(mm); return NULL;}
               if (n) memcpy(&a[i]->bytes, bb->GetBuffer(), n);
            }
         }
         break;
      }
      #undef MINI_PUT
   }
   return mm;
}

// ------------------------------------------------------------------------------------------------ micro: dump
// The micro codec hands out raw pointers into the caller's buffer.  Before the dump dereferences one it checks it
// against the buffer bounds set here; a pointer/length that leaves the buffer is recorded in g_microViolation (the
// harness turns it into an oracle failure) instead of being followed.
static const uint8_t * g_microLo = NULL; static const uint8_t * g_microHi = NULL;
static std::string g_microViolation;
struct MicroBounds
{
   MicroBounds(const uint8_t * lo, uint32_t n) {g_microLo = lo; g_microHi = lo+n; g_microViolation.clear();}
   ~MicroBounds() {g_microLo = g_microHi = NULL;}
};
static inline bool microBlobOk(const void * p, uint32_t n, const char * what)
{
   if (g_microLo == NULL) return true;
   const uint8_t * q = (const uint8_t *)p;
   if ((q >= g_microLo)&&(q <= g_microHi)&&((uint64_t)n <= (uint64_t)(g_microHi-q))) return true;
   if (g_microViolation.empty()) g_microViolation = std::string(what) + " hands out " + vh::u64s(n) + " bytes at offset " + ((q >= g_microLo) ? vh::u64s((uint64_t)(q-g_microLo)) : std::string("<0")) + " of a " + vh::u64s((uint64_t)(g_microHi-g_microLo)) + "-byte buffer";
   return false;
}
// length of the C string at (p) if it is terminated inside the buffer, else -1
static inline long microStrLen(const char * p, const char * what)
{
   if (g_microLo == NULL) return (long)strlen(p);
   const uint8_t * q = (const uint8_t *)p;
   if ((q >= g_microLo)&&(q < g_microHi)) {const void * z = memchr(q, 0, (size_t)(g_microHi-q)); if (z) return (long)((const uint8_t *)z-q);}
   if (g_microViolation.empty()) g_microViolation = std::string(what) + " hands out a string that is not terminated inside the buffer (offset " + ((q >= g_microLo) ? vh::u64s((uint64_t)(q-g_microLo)) : std::string("<0")) + " of " + vh::u64s((uint64_t)(g_microHi-g_microLo)) + " bytes)";
   return -1;
}
// the micro codec reports problems with printf(): keep them out of the result stream on stdout
struct MuteStdout
{
   int saved;
   MuteStdout() {fflush(stdout); saved = dup(1); static int nul = open("/dev/null", O_WRONLY); dup2(nul, 1);}
   ~MuteStdout() {fflush(stdout); dup2(saved, 1); close(saved);}
};
// `cap` bounds how many items of one field are visited (a hostile buffer may declare 2^32-1 items; visiting
// cap = buffer length + 1 items is enough to walk off the buffer if the accessors let us)
static inline std::string dumpMicro(const UMessage * um, uint32 cap, uint32 depth = 0)
{
   std::string s = "{" + vh::u64s(UMGetWhatCode(um));
   UMessageFieldNameIterator it; UMIteratorInitialize(&it, um, B_ANY_TYPE);
   uint32 nf = 0;
   while(1)
   {
      uint32 cnt = 0, tc = 0;
      const char * fn = UMIteratorGetCurrentFieldName(&it, &cnt, &tc);
      if (fn == NULL) break;
      if (++nf > cap) {s += " !toomanyfields"; break;}
      const long fnl = microStrLen(fn, "UMIteratorGetCurrentFieldName");
      if (fnl < 0) {s += " !name"; break;}
      s += " " + hexp(fn, (size_t)fnl) + ":" + vh::u64s(tc) + ":" + vh::u64s(cnt) + "[";
      if ((UMGetFieldTypeCode(um, fn) != tc)||(UMGetNumItemsInField(um, fn, tc) != cnt)) s += "!lookup";
      const uint32 n = (cnt < cap) ? cnt : cap;
      #define MICRO_FIXED(GETS, FROM, CT) {const auto h = GETS(um, fn); if (UMGetNumItemsInArray(h) != cnt) s += "!count"; \
         for (uint32 i=0; i<n; i++) {if (i) s += ","; const CT v = FROM(h, i); s += hexp(&v, sizeof(v));} break;}
      switch(tc)
      {
         case B_BOOL_TYPE:   MICRO_FIXED(UMGetBools,   UMGetBoolFromArray,   UBool)
         case B_INT8_TYPE:   MICRO_FIXED(UMGetInt8s,   UMGetInt8FromArray,   int8)
         case B_INT16_TYPE:  MICRO_FIXED(UMGetInt16s,  UMGetInt16FromArray,  int16)
         case B_INT32_TYPE:  MICRO_FIXED(UMGetInt32s,  UMGetInt32FromArray,  int32)
         case B_INT64_TYPE:  MICRO_FIXED(UMGetInt64s,  UMGetInt64FromArray,  int64)
         case B_FLOAT_TYPE:  MICRO_FIXED(UMGetFloats,  UMGetFloatFromArray,  float)
         case B_DOUBLE_TYPE: MICRO_FIXED(UMGetDoubles, UMGetDoubleFromArray, double)
         case B_POINT_TYPE:  MICRO_FIXED(UMGetPoints,  UMGetPointFromArray,  UPoint)
         case B_RECT_TYPE:   MICRO_FIXED(UMGetRects,   UMGetRectFromArray,   URect)
         case B_POINTER_TYPE: break;
         case B_STRING_TYPE:
            for (uint32 i=0; i<n; i++)
            {
               if (i) s += ",";
               const char * p = UMGetString(um, fn, i); if (p == NULL) {s += "!"; continue;}
               const long l = microStrLen(p, "UMGetString"); s += (l >= 0) ? hexp(p, (size_t)l) : std::string("!unterminated");
            }
         break;
         case B_MESSAGE_TYPE:
            for (uint32 i=0; i<n; i++)
            {
               if (i) s += ",";
               UMessage sub;
               if (UMFindMessage(um, fn, i, &sub) != CB_NO_ERROR) {s += "!"; continue;}
               if (depth >= MAX_DUMP_DEPTH) {s += "!deep"; continue;}
               s += dumpMicro(&sub, cap, depth+1);
            }
         break;
         default:
            for (uint32 i=0; i<n; i++)
            {
               if (i) s += ",";
               const void * p = NULL; uint32 nb = 0;
               if (UMFindData(um, fn, tc, i, &p, &nb) != CB_NO_ERROR) {s += "!"; continue;}
               s += microBlobOk(p, nb, "UMFindData") ? hexp(p, nb) : std::string("!outside");
            }
         break;
      }
      #undef MICRO_FIXED
      s += "]";
      UMIteratorAdvance(&it);
   }
   if (nf != UMGetNumFields(um)) s += " !numfields=" + vh::u64s(UMGetNumFields(um));
   return s + "}";
}

// ------------------------------------------------------------------------------------------------ micro: build from a C++ Message
// (um) must have been initialised to an empty Message with what-code m.what.  inlineSubs: sub-Messages are built in
// place with UMInlineAddMessage; otherwise they are built in buffers of their own and added with UMAddMessages.
static inline bool buildMicro(const Message & m, UMessage * um, bool inlineSubs, std::string & err)
{
   for (MessageFieldNameIterator it = m.GetFieldNameIterator(); it.HasData(); it++)
   {
      const String & fs = it.GetFieldName(); const char * fn = fs();
      uint32 tc = 0, cnt = 0; if (m.GetInfo(fs, &tc, &cnt).IsError()) continue;
      #define MICRO_ADD(ADD, CT, FIND)                                                                  \
         {std::vector<CT> a(cnt); for (uint32 i=0; i<cnt; i++) {CT v = CT(); (void) m.FIND(fs, i, v); a[i] = v;} \
          if (ADD(um, fn, a.data(), cnt) != CB_NO_ERROR) {err = #ADD " failed"; return false;} break;}
      switch(tc)
      {
         case B_BOOL_TYPE:
         {
            std::vector<UBool> a(cnt); for (uint32 i=0; i<cnt; i++) {bool v = false; (void) m.FindBool(fs, i, v); a[i] = v ? UTrue : UFalse;}
            if (UMAddBools(um, fn, a.data(), cnt) != CB_NO_ERROR) {err = "UMAddBools failed"; return false;}
         }
         break;
         case B_INT8_TYPE:   MICRO_ADD(UMAddInt8s,   int8,   FindInt8)
         case B_INT16_TYPE:  MICRO_ADD(UMAddInt16s,  int16,  FindInt16)
         case B_INT32_TYPE:  MICRO_ADD(UMAddInt32s,  int32,  FindInt32)
         case B_INT64_TYPE:  MICRO_ADD(UMAddInt64s,  int64,  FindInt64)
         case B_FLOAT_TYPE:  MICRO_ADD(UMAddFloats,  float,  FindFloat)
         case B_DOUBLE_TYPE: MICRO_ADD(UMAddDoubles, double, FindDouble)
         case B_POINT_TYPE:
         {
            std::vector<UPoint> a(cnt); for (uint32 i=0; i<cnt; i++) {Point p; (void) m.FindPoint(fs, i, p); a[i].x = p.x(); a[i].y = p.y();}
            if (UMAddPoints(um, fn, a.data(), cnt) != CB_NO_ERROR) {err = "UMAddPoints failed"; return false;}
         }
         break;
         case B_RECT_TYPE:
         {
            std::vector<URect> a(cnt); for (uint32 i=0; i<cnt; i++) {Rect r; (void) m.FindRect(fs, i, r); a[i].left = r.left(); a[i].top = r.top(); a[i].right = r.right(); a[i].bottom = r.bottom();}
            if (UMAddRects(um, fn, a.data(), cnt) != CB_NO_ERROR) {err = "UMAddRects failed"; return false;}
         }
         break;
         case B_POINTER_TYPE: case B_TAG_TYPE: break;
         case B_STRING_TYPE:
         {
            std::vector<const char *> a(cnt); for (uint32 i=0; i<cnt; i++) {const String * s = NULL; (void) m.FindString(fs, i, &s); a[i] = s ? s->Cstr() : "";}
            // alternate between one call for the whole array and one call per item (both are documented ways to fill a field)
            if (cnt % 2) {if (UMAddStrings(um, fn, a.data(), cnt) != CB_NO_ERROR) {err = "UMAddStrings failed"; return false;}}
            else for (uint32 i=0; i<cnt; i++) if (UMAddString(um, fn, a[i]) != CB_NO_ERROR) {err = "UMAddString failed"; return false;}
         }
         break;
         case B_MESSAGE_TYPE:
         {
            if (inlineSubs)
            {
               for (uint32 i=0; i<cnt; i++)
               {
                  ConstMessageRef sub; (void) m.FindMessage(fs, i, sub); if (sub() == NULL) {err = "sub-Message missing"; return false;}
                  UMessage child = UMInlineAddMessage(um, fn, sub()->what);
                  if (UMIsMessageReadOnly(&child)) {err = "UMInlineAddMessage failed"; return false;}
                  if (!buildMicro(*sub(), &child, true, err)) return false;
               }
            }
            else
            {
               std::vector<std::vector<uint8_t> > bufs(cnt); std::vector<UMessage> subs(cnt);
               for (uint32 i=0; i<cnt; i++)
               {
                  ConstMessageRef sub; (void) m.FindMessage(fs, i, sub); if (sub() == NULL) {err = "sub-Message missing"; return false;}
                  bufs[i].resize(sub()->FlattenedSize());
                  if (UMInitializeToEmptyMessage(&subs[i], bufs[i].data(), (uint32)bufs[i].size(), sub()->what) != CB_NO_ERROR) {err = "UMInitializeToEmptyMessage failed"; return false;}
                  if (!buildMicro(*sub(), &subs[i], false, err)) return false;
               }
               if (UMAddMessages(um, fn, subs.data(), cnt) != CB_NO_ERROR) {err = "UMAddMessages failed"; return false;}
            }
         }
         break;
         default:
            for (uint32 i=0; i<cnt; i++)
            {
               FlatCountableRef fc; (void) m.FindFlat(fs, i, fc);
               const ByteBuffer * bb = dynamic_cast<const ByteBuffer *>(fc());
               const uint32 n = bb ? bb->GetNumBytes() : 0;
               if (UMAddData(um, fn, tc, n ? (const void *)bb->GetBuffer() : (const void *)"", n) != CB_NO_ERROR) {err = "UMAddData failed"; return false;}
            }
         break;
      }
      #undef MICRO_ADD
   }
   return true;
}

// ------------------------------------------------------------------------------------------------ python subprocess
struct PyDriver
{
   pid_t pid; FILE * to; FILE * from; bool broken;
   PyDriver() : pid(-1), to(NULL), from(NULL), broken(false) {}
   ~PyDriver() {stop();}

   static std::string findScript()
   {
      const char * e = getenv("VERIF_DIR");
      if (e) return std::string(e) + "/tools/pymsg_driver.py";
      char exe[PATH_MAX]; const ssize_t n = readlink("/proc/self/exe", exe, sizeof(exe)-1);
      if (n <= 0) return "";
      std::string d(exe, (size_t)n);
      for (int up=0; up<6; up++)
      {
         const size_t p = d.rfind('/'); if ((p == std::string::npos)||(p == 0)) break;
         d.resize(p);
         const std::string c = d + "/tools/pymsg_driver.py";
         struct stat st; if (stat(c.c_str(), &st) == 0) return c;
      }
      return "";
   }
   bool start()
   {
      if (pid > 0) return true;
      if (broken) return false;
      const std::string script = findScript();
      if (script.empty()) {broken = true; return false;}
      int a[2], b[2]; if ((pipe(a) != 0)||(pipe(b) != 0)) {broken = true; return false;}
      signal(SIGPIPE, SIG_IGN);
      fflush(NULL);
      pid = fork();
      if (pid < 0) {broken = true; return false;}
      if (pid == 0)
      {
         dup2(a[0], 0); dup2(b[1], 1); close(a[0]); close(a[1]); close(b[0]); close(b[1]);
         execlp("python3", "python3", script.c_str(), (char *)NULL);
         _exit(127);
      }
      close(a[0]); close(b[1]);
      to = fdopen(a[1], "w"); from = fdopen(b[0], "r");
      return true;
   }
   void stop()
   {
      if (to) fclose(to); if (from) fclose(from); to = from = NULL;
      if (pid > 0) {int st; kill(pid, SIGKILL); waitpid(pid, &st, 0);} pid = -1;
   }
   // one request line -> one reply line ("" if the driver cannot be reached)
   std::string request(const std::string & line)
   {
      if (!start()) return "";
      if ((fputs(line.c_str(), to) < 0)||(fputc('\n', to) < 0)||(fflush(to) != 0)) {stop(); return "";}
      char * buf = NULL; size_t cap = 0; const ssize_t n = getline(&buf, &cap, from);
      if (n <= 0) {free(buf); stop(); return "";}
      std::string r(buf, (size_t)n); free(buf);
      while((!r.empty())&&((r[r.size()-1] == '\n')||(r[r.size()-1] == '\r'))) r.resize(r.size()-1);
      return r;
   }
};

static inline bool isUtf8(const uint8_t * p, size_t n)
{
   size_t i = 0;
   while(i < n)
   {
      const uint8_t c = p[i];
      size_t k; uint32_t cp;
      if (c < 0x80) {i++; continue;}
      else if ((c & 0xE0) == 0xC0) {k = 1; cp = c & 0x1F;}
      else if ((c & 0xF0) == 0xE0) {k = 2; cp = c & 0x0F;}
      else if ((c & 0xF8) == 0xF0) {k = 3; cp = c & 0x07;}
      else return false;
      if (i+k >= n) return false;   // continuation bytes missing
      for (size_t j=1; j<=k; j++) {if ((p[i+j] & 0xC0) != 0x80) return false; cp = (cp<<6) | (p[i+j] & 0x3F);}
      if ((k == 1)&&(cp < 0x80)) return false;
      if ((k == 2)&&((cp < 0x800)||((cp >= 0xD800)&&(cp <= 0xDFFF)))) return false;
      if ((k == 3)&&((cp < 0x10000)||(cp > 0x10FFFF))) return false;
      i += k+1;
   }
   return true;
}

} // namespace cd
#endif
