// Access to the private send counters of the two packet-tunnel gateways (C12: id wrap-around).
//
// Planned hook in /repo (guard MUSCLE_VERIF_HOOKS, add-only): one line inside each class,
//    #ifdef MUSCLE_VERIF_HOOKS
//       friend class MuscleVerifAccess;
//    #endif
// (iogateway/PacketTunnelIOGateway.h after `private:`; the same line in MiniPacketTunnelIOGateway.h).
// Compile with -DMUSCLE_VERIF_TUNNEL_FRIEND once that line exists.  Until then the same access is
// obtained without touching /repo through explicit template instantiation, whose arguments are exempt
// from access checking ([temp.explicit]/12): standard C++, compiled against the CURRENT header, so a
// renamed or retyped member is a compile error of the harness (reported by ./check), never a stale copy.
#ifndef VERIF_TUN_ACCESS_H
#define VERIF_TUN_ACCESS_H

#include <string>
#include <vector>
#include <string.h>
#include "iogateway/PacketTunnelIOGateway.h"
#include "iogateway/MiniPacketTunnelIOGateway.h"

#ifdef MUSCLE_VERIF_TUNNEL_FRIEND
namespace muscle {
class MuscleVerifAccess
{
public:
   static uint32 & TunnelSendID(PacketTunnelIOGateway & g)   {return g._sendMessageIDCounter;}
   static uint32 & MiniSendID(MiniPacketTunnelIOGateway & g) {return g._sendPacketIDCounter;}
};
}
namespace vh {
inline uint32 & tunnelSendID(muscle::PacketTunnelIOGateway & g)   {return muscle::MuscleVerifAccess::TunnelSendID(g);}
inline uint32 & miniSendID(muscle::MiniPacketTunnelIOGateway & g) {return muscle::MuscleVerifAccess::MiniSendID(g);}
}
#else
namespace vh {
template<typename Tag, typename Tag::type M> struct Rob {friend typename Tag::type robGet(Tag) {return M;}};
struct TunnelIdTag {typedef uint32 muscle::PacketTunnelIOGateway::*type;     friend type robGet(TunnelIdTag);};
struct MiniIdTag   {typedef uint32 muscle::MiniPacketTunnelIOGateway::*type; friend type robGet(MiniIdTag);};
template struct Rob<TunnelIdTag, &muscle::PacketTunnelIOGateway::_sendMessageIDCounter>;
template struct Rob<MiniIdTag,   &muscle::MiniPacketTunnelIOGateway::_sendPacketIDCounter>;
inline uint32 & tunnelSendID(muscle::PacketTunnelIOGateway & g)   {return g.*robGet(TunnelIdTag());}
inline uint32 & miniSendID(muscle::MiniPacketTunnelIOGateway & g) {return g.*robGet(MiniIdTag());}
}
#endif

// ---- an in-memory packet transport under the harness's control -------------------------------
namespace vh {
class ScriptedPacketIO : public muscle::PacketDataIO
{
public:
   ScriptedPacketIO() : _hasNext(false), _gpos(0) {}
   // what the next Read() returns (one datagram, truncated to the reader's buffer as recvfrom() does)
   void SetNextPacket(const std::string & bytes, const muscle::IPAddressAndPort & from) {_next = bytes; _from = from; _hasNext = true;}
   std::vector<std::string> & Written() {return _written;}

   virtual uint32 GetMaximumPacketSize() const {return 65507;}
   virtual const muscle::IPAddressAndPort & GetPacketSendDestination() const {return _dest;}
   virtual void SetPacketSendDestination(const muscle::IPAddressAndPort & d) {_dest = d;}
   virtual muscle::io_status_t ReadFrom(void * buffer, uint32 size, muscle::IPAddressAndPort & retSource)
   {
      if (_hasNext == false) return muscle::io_status_t();
      _hasNext = false;
      retSource = _from;
      const uint32 n = (uint32) ((_next.size() < (size_t)size) ? _next.size() : (size_t)size);
      if (n > 0) memcpy(buffer, _next.data(), n);
      return muscle::io_status_t((int32)n);
   }
   // the values the next Write() calls return: 0 = would block (nothing taken), a value below the packet size = short
   // write (that many bytes go out as a datagram), anything else = the whole packet; script used up = whole packets
   void SetWriteScript(const std::vector<uint32> & g) {_grants = g; _gpos = 0;}
   virtual muscle::io_status_t WriteTo(const void * buffer, uint32 size, const muscle::IPAddressAndPort &)
   {
      uint32 n = size;
      if (_gpos < _grants.size()) {const uint32 g = _grants[_gpos++]; if (g == 0) return muscle::io_status_t(); if (g < size) n = g;}
      _written.push_back(std::string((const char *)buffer, (size_t)n));
      return muscle::io_status_t((int32)n);
   }
   virtual void FlushOutput() {}
   virtual void Shutdown() {}
   virtual const muscle::ConstSocketRef & GetReadSelectSocket()  const {return muscle::GetNullSocket();}
   virtual const muscle::ConstSocketRef & GetWriteSelectSocket() const {return muscle::GetNullSocket();}

private:
   bool _hasNext;
   std::string _next;
   muscle::IPAddressAndPort _from, _dest;
   std::vector<std::string> _written;
   std::vector<uint32> _grants; size_t _gpos;
};
}
#endif
