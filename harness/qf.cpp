// Engine `qf` (C14): four query-filter slots driven through the public API of regex/QueryFilter.h.
//   tree <i> <prefix form>      build through the public constructors/setters             -> ok
//   mk <i> <archive hex>        GetGlobalQueryFilterFactory()->CreateQueryFilter(archive) -> ok | err | badmsg
//   rt <i> <j>                  slot j := CreateQueryFilter(SaveToArchive(slot i))         -> ok | err | none
//   arch <i>                    canonical dump of SaveToArchive(slot i)                    -> {…} | none
//   eval <i> <message hex> [<node name hex> <child count>]                                 -> true | false | none | badmsg
// Prefix form: see lean/MuscleModel/Engines/Filter.lean.
// Direct oracle (needs no model): (1) a reference evaluator written from the documentation of
// regex/QueryFilter.h, run on the tree the filter was built from (three-valued: it abstains where the
// documentation is silent); (2) evaluation leaves the Message's flattened bytes and checksum unchanged
// and is repeatable; (3) the filter restored from its archive *sent over the wire* (SaveToArchive,
// Flatten, Unflatten, factory) decides identically; (4) an archive accepted by the factory can be
// archived again and the result is accepted again.
#include "libvh/vh.h"
#include "message/Message.h"
#include "util/ByteBuffer.h"
#include "util/String.h"
#include "support/Point.h"
#include "support/Rect.h"
#include "regex/QueryFilter.h"
#include "regex/StringMatcher.h"
#include "util/MiscUtilityFunctions.h"
#include <memory>
#include <algorithm>
#include <math.h>
// DataNode's Init() is reserved to StorageReflectSession; the harness only needs a named node with n children.
#define private public
#include "reflector/DataNode.h"
#undef private
#include "msgdump.h"

using namespace muscle;
using namespace vh;

static const int NSLOTS = 4;
static const uint32 MAXKIDS_NODE = 1000;

// ------------------------------------------------------------------ description of a tree (reference side)
struct RT;
typedef std::shared_ptr<RT> RTP;
struct RT
{
   std::string kind, ty, fn, val, mask, dflt, defMsg;
   uint32 idx, op, mop, tc, n, lo, hi;
   bool hasVal, hasD, hasDefMsg;
   std::vector<RTP> kids;
   RT() : idx(0), op(0), mop(0), tc(0), n(0), lo(0), hi(0), hasVal(false), hasD(false), hasDefMsg(false) {}
};

static String S(const std::string & b) {return String(b.data(), (uint32)b.size());}
static bool isBuiltinFixed(uint32 tc) {switch(tc) {case B_BOOL_TYPE: case B_DOUBLE_TYPE: case B_POINTER_TYPE: case B_POINT_TYPE: case B_RECT_TYPE: case B_FLOAT_TYPE: case B_INT64_TYPE: case B_INT32_TYPE: case B_INT16_TYPE: case B_INT8_TYPE: case B_MESSAGE_TYPE: return true; default: return false;}}
static bool nulFree(const std::string & b) {return b.find('\0') == std::string::npos;}
static bool toU32(const std::string & s, uint32 & v) {uint64_t x; if ((!toU64(s, x))||(x > 0xFFFFFFFFULL)||(s.size() > 12)) return false; v = (uint32)x; return true;}
static bool toU8(const std::string & s, uint32 & v) {return (toU32(s, v))&&(v < 256);}
static uint32 tySize(const std::string & ty)
{
   if ((ty == "bool")||(ty == "i8")) return 1; if (ty == "i16") return 2; if ((ty == "i32")||(ty == "f32")) return 4;
   if ((ty == "i64")||(ty == "f64")||(ty == "pt")) return 8; if (ty == "rc") return 16; return 0;
}
static uint32 tyCode(const std::string & ty)
{
   if (ty == "bool") return B_BOOL_TYPE; if (ty == "i8") return B_INT8_TYPE; if (ty == "i16") return B_INT16_TYPE; if (ty == "i32") return B_INT32_TYPE;
   if (ty == "i64") return B_INT64_TYPE; if (ty == "f32") return B_FLOAT_TYPE; if (ty == "f64") return B_DOUBLE_TYPE; if (ty == "pt") return B_POINT_TYPE; return B_RECT_TYPE;
}
static bool numVal(const std::string & ty, const std::string & tok, std::string & out)
{
   if ((!unhex(tok, out))||(out.size() != tySize(ty))) return false;
   if ((ty == "bool")&&(out[0] != 0)&&(out[0] != 1)) return false;
   return true;
}

template<typename T> static T fromBytes(const std::string & b) {T v; memcpy(&v, b.data(), sizeof(T)); return v;}
template<> bool  fromBytes<bool>(const std::string & b)  {return b[0] != 0;}
template<> Point fromBytes<Point>(const std::string & b) {float f[2]; memcpy(f, b.data(), 8);  return Point(f[0], f[1]);}
template<> Rect  fromBytes<Rect>(const std::string & b)  {float f[4]; memcpy(f, b.data(), 16); return Rect(f[0], f[1], f[2], f[3]);}

template<class QF> static QueryFilterRef mkNum(const RT & t)
{
   typedef typename QF::DataType T;
   QF * f = new QF(S(t.fn), (uint8)t.op, fromBytes<T>(t.val), t.idx);
   f->SetMask((uint8)t.mop, fromBytes<T>(t.mask));
   if (t.hasD) f->SetAssumedDefault(fromBytes<T>(t.dflt));
   return QueryFilterRef(f);
}

static bool unflat(const std::string & bytes, Message & m)
{
   uint8_t * copy = (uint8_t *)malloc(bytes.size() ? bytes.size() : 1); memcpy(copy, bytes.data(), bytes.size());   // exact-size heap copy: ASan sees overruns
   const status_t r = m.UnflattenFromBytes(copy, (uint32)bytes.size());
   free(copy);
   return r.IsOK();
}
static std::string flat(const Message & m) {std::string s(m.FlattenedSize(), '\0'); m.FlattenToBytes((uint8 *)&s[0]); return s;}

// parse the prefix form at toks[at...]; builds the real filter and its description
static bool parseTree(const std::vector<std::string> & t, size_t & at, int depth, QueryFilterRef & qf, RTP & rt)
{
   if ((at >= t.size())||(depth > 64)) return false;
   rt.reset(new RT); RT & r = *rt;
   r.kind = t[at++];
   #define NEED(k) if (at+(k) > t.size()) return false
   if (r.kind == "what") {NEED(2); if ((!toU32(t[at], r.lo))||(!toU32(t[at+1], r.hi))) return false; at += 2; qf.SetRef(new WhatCodeQueryFilter(r.lo, r.hi)); return true;}
   if (r.kind == "exists")
   {
      NEED(3); if ((!unhex(t[at], r.fn))||(!nulFree(r.fn))||(!toU32(t[at+1], r.idx))||(!toU32(t[at+2], r.tc))) return false; at += 3;
      qf.SetRef(new ValueExistsQueryFilter(S(r.fn), r.tc, r.idx)); return true;
   }
   if ((r.kind == "num")||(r.kind == "cc"))
   {
      if (r.kind == "num") {NEED(1); r.ty = t[at++]; if (tySize(r.ty) == 0) return false;} else r.ty = "i32";
      NEED(7);
      if ((!unhex(t[at], r.fn))||(!nulFree(r.fn))||(!toU32(t[at+1], r.idx))||(!toU8(t[at+2], r.op))||(!toU8(t[at+3], r.mop))||(!numVal(r.ty, t[at+4], r.val))||(!numVal(r.ty, t[at+5], r.mask))) return false;
      if (t[at+6] != "-") {r.hasD = true; if (!numVal(r.ty, t[at+6], r.dflt)) return false;}
      at += 7;
      if (r.kind == "cc")
      {
         ChildCountQueryFilter * f = new ChildCountQueryFilter((uint8)r.op, fromBytes<int32>(r.val));
         f->SetFieldName(S(r.fn)); f->SetIndex(r.idx); f->SetMask((uint8)r.mop, fromBytes<int32>(r.mask)); if (r.hasD) f->SetAssumedDefault(fromBytes<int32>(r.dflt));
         qf.SetRef(f); return true;
      }
      if (r.ty == "bool") qf = mkNum<BoolQueryFilter>(r);   else if (r.ty == "f64") qf = mkNum<DoubleQueryFilter>(r); else if (r.ty == "f32") qf = mkNum<FloatQueryFilter>(r);
      else if (r.ty == "i64") qf = mkNum<Int64QueryFilter>(r); else if (r.ty == "i32") qf = mkNum<Int32QueryFilter>(r); else if (r.ty == "i16") qf = mkNum<Int16QueryFilter>(r);
      else if (r.ty == "i8") qf = mkNum<Int8QueryFilter>(r);   else if (r.ty == "pt") qf = mkNum<PointQueryFilter>(r);   else qf = mkNum<RectQueryFilter>(r);
      return true;
   }
   if ((r.kind == "str")||(r.kind == "nn"))
   {
      NEED(5);
      if ((!unhex(t[at], r.fn))||(!nulFree(r.fn))||(!toU32(t[at+1], r.idx))||(!toU8(t[at+2], r.op))||(!unhex(t[at+3], r.val))||(!nulFree(r.val))) return false;
      if (t[at+4] != "-") {r.hasD = true; if ((!unhex(t[at+4], r.dflt))||(!nulFree(r.dflt))) return false;}
      at += 5;
      StringQueryFilter * f;
      if (r.kind == "nn") {f = new NodeNameQueryFilter((uint8)r.op, S(r.val)); f->SetFieldName(S(r.fn)); f->SetIndex(r.idx);}
                     else f = new StringQueryFilter(S(r.fn), (uint8)r.op, S(r.val), r.idx);
      if (r.hasD) f->SetAssumedDefault(S(r.dflt));
      qf.SetRef(f); return true;
   }
   if (r.kind == "raw")
   {
      NEED(6);
      if ((!unhex(t[at], r.fn))||(!nulFree(r.fn))||(!toU32(t[at+1], r.idx))||(!toU8(t[at+2], r.op))||(!toU32(t[at+3], r.tc))) return false;
      if (t[at+4] != "-") {r.hasVal = true; if (!unhex(t[at+4], r.val)) return false;}
      if (t[at+5] != "-") {r.hasD = true;   if (!unhex(t[at+5], r.dflt)) return false;}
      at += 6;
      ConstByteBufferRef v, d;
      if (r.hasVal) v = GetByteBufferFromPool((uint32)r.val.size(), (const uint8 *)r.val.data());
      if (r.hasD)   d = GetByteBufferFromPool((uint32)r.dflt.size(), (const uint8 *)r.dflt.data());
      qf.SetRef(new RawDataQueryFilter(S(r.fn), (uint8)r.op, v, r.tc, r.idx, d)); return true;
   }
   if (r.kind == "msg")
   {
      NEED(4);
      if ((!unhex(t[at], r.fn))||(!nulFree(r.fn))||(!toU32(t[at+1], r.idx))) return false;
      ConstMessageRef dm;
      if (t[at+2] != "-")
      {
         r.hasDefMsg = true; if (!unhex(t[at+2], r.defMsg)) return false;
         MessageRef mm = GetMessageFromPool(); if ((mm() == NULL)||(!unflat(r.defMsg, *mm()))) return false;
         dm = mm;
      }
      const std::string hk = t[at+3]; at += 4;
      ConstQueryFilterRef kid;
      if (hk == "1") {QueryFilterRef k; RTP kr; if (!parseTree(t, at, depth+1, k, kr)) return false; kid = k; r.kids.push_back(kr);}
      else if (hk != "0") return false;
      qf.SetRef(new MessageQueryFilter(kid, dm, S(r.fn), r.idx)); return true;
   }
   if ((r.kind == "min")||(r.kind == "max")||(r.kind == "xor"))
   {
      uint32 k;
      if (r.kind != "xor") {NEED(1); if (!toU32(t[at++], r.n)) return false;}
      NEED(1); if (!toU8(t[at++], k)) return false;
      MultiQueryFilter * f = (r.kind == "min") ? (MultiQueryFilter *) new MinimumThresholdQueryFilter(r.n) : (r.kind == "max") ? (MultiQueryFilter *) new MaximumThresholdQueryFilter(r.n) : (MultiQueryFilter *) new XorQueryFilter;
      qf.SetRef(f);
      for (uint32 i=0; i<k; i++) {QueryFilterRef kq; RTP kr; if (!parseTree(t, at, depth+1, kq, kr)) return false; (void) f->GetChildren().AddTail(kq); r.kids.push_back(kr);}
      return true;
   }
   return false;
}

// ------------------------------------------------------------------ reference evaluator (from the documentation of regex/QueryFilter.h)
// returns 1 / 0, or -1 where the documentation does not say (the oracle abstains)
static int cmp3(int c, uint32 op)   // c = sign of (message value ? operand)
{
   switch(op) {case 0: return c == 0; case 1: return c < 0; case 2: return c > 0; case 3: return c <= 0; case 4: return c >= 0; case 5: return c != 0; default: return -1;}
}
template<typename T> static int refScalar(T a, T b, uint32 op)   // a = value in the Message
{
   switch(op) {case 0: return a == b; case 1: return a < b; case 2: return a > b; case 3: return a <= b; case 4: return a >= b; case 5: return a != b; default: return -1;}   // "should be one of the OP_* values"
}
template<typename T> static int refInt(const RT & t, const std::string & found)
{
   T a = fromBytes<T>(found), b = fromBytes<T>(t.val), m = fromBytes<T>(t.mask);
   switch(t.mop)
   {
      case 0: break;
      case 1: a = (T)(a & m); break;  case 2: a = (T)(a | m); break;   case 3: a = (T)(a ^ m); break;
      case 4: a = (T)~(a & m); break; case 5: a = (T)~(a | m); break;  case 6: a = (T)~(a ^ m); break;
      default: return -1;
   }
   return refScalar<T>(a, b, t.op);
}
static int refBool(const RT & t, const std::string & found)
{
   bool a = found[0] != 0, b = t.val[0] != 0, m = t.mask[0] != 0;
   switch(t.mop)
   {
      case 0: break;
      case 1: a = a && m; break;    case 2: a = a || m; break;    case 3: a = (a != m); break;
      case 4: a = !(a && m); break; case 5: a = !(a || m); break; case 6: a = !(a != m); break;
      default: return -1;
   }
   return refScalar<int>(a ? 1 : 0, b ? 1 : 0, t.op);
}
static int refTuple(const RT & t, const std::string & found, int n)
{
   if (t.mop != 0) return -1;   // "mask operations are not defined for floats, doubles, Points, or Rects"
   float a[4], b[4]; memcpy(a, found.data(), 4*n); memcpy(b, t.val.data(), 4*n);
   bool anyNaN = false; for (int i=0; i<n; i++) if ((a[i] != a[i])||(b[i] != b[i])) anyNaN = true;
   bool eq = true; for (int i=0; i<n; i++) if (!(a[i] == b[i])) eq = false;
   if (t.op == 0) return eq; if (t.op == 5) return !eq;
   if ((anyNaN)||(t.op > 5)) return -1;
   int c = 0; for (int i=0; (i<n)&&(c == 0); i++) c = (a[i] < b[i]) ? -1 : (a[i] > b[i]) ? 1 : 0;   // component-wise, first difference decides
   return cmp3(c, t.op);
}
static int refNum(const RT & t, const std::string & found)
{
   if (t.ty == "bool") return refBool(t, found);
   if (t.ty == "i8")  return refInt<int8>(t, found);  if (t.ty == "i16") return refInt<int16>(t, found);
   if (t.ty == "i32") return refInt<int32>(t, found); if (t.ty == "i64") return refInt<int64>(t, found);
   if (t.ty == "f32") return (t.mop != 0) ? -1 : refScalar<float>(fromBytes<float>(found), fromBytes<float>(t.val), t.op);
   if (t.ty == "f64") return (t.mop != 0) ? -1 : refScalar<double>(fromBytes<double>(found), fromBytes<double>(t.val), t.op);
   return refTuple(t, found, (t.ty == "pt") ? 2 : 4);
}
static bool findTyped(const Message & m, const std::string & ty, const String & fn, uint32 idx, std::string & out)
{
   out.assign(tySize(ty), '\0');
   if (ty == "bool") {bool v;   if (m.FindBool(fn, idx, v).IsError())   return false; out[0] = v ? 1 : 0; return true;}
   if (ty == "i8")   {int8 v;   if (m.FindInt8(fn, idx, v).IsError())   return false; memcpy(&out[0], &v, 1); return true;}
   if (ty == "i16")  {int16 v;  if (m.FindInt16(fn, idx, v).IsError())  return false; memcpy(&out[0], &v, 2); return true;}
   if (ty == "i32")  {int32 v;  if (m.FindInt32(fn, idx, v).IsError())  return false; memcpy(&out[0], &v, 4); return true;}
   if (ty == "i64")  {int64 v;  if (m.FindInt64(fn, idx, v).IsError())  return false; memcpy(&out[0], &v, 8); return true;}
   if (ty == "f32")  {float v;  if (m.FindFloat(fn, idx, v).IsError())  return false; memcpy(&out[0], &v, 4); return true;}
   if (ty == "f64")  {double v; if (m.FindDouble(fn, idx, v).IsError()) return false; memcpy(&out[0], &v, 8); return true;}
   if (ty == "pt")   {Point p;  if (m.FindPoint(fn, idx, p).IsError())  return false; const float f[2] = {p.x(), p.y()}; memcpy(&out[0], f, 8); return true;}
   Rect q; if (m.FindRect(fn, idx, q).IsError()) return false; const float f[4] = {q.left(), q.top(), q.right(), q.bottom()}; memcpy(&out[0], f, 16); return true;
}
static std::string lowerS(const std::string & s) {std::string r = s; for (size_t i=0; i<r.size(); i++) if ((r[i] >= 'A')&&(r[i] <= 'Z')) r[i] = (char)(r[i]+32); return r;}
static int ucmp(const std::string & a, const std::string & b)   // unsigned lexicographic
{
   const size_t n = a.size() < b.size() ? a.size() : b.size();
   const int c = memcmp(a.data(), b.data(), n);
   return c ? (c < 0 ? -1 : 1) : (a.size() < b.size()) ? -1 : (a.size() > b.size()) ? 1 : 0;
}
static bool startsW(const std::string & s, const std::string & p) {return (s.size() >= p.size())&&(s.compare(0, p.size(), p) == 0);}
static bool endsW(const std::string & s, const std::string & p)   {return (s.size() >= p.size())&&(s.compare(s.size()-p.size(), p.size(), p) == 0);}
static int refStr(const RT & t, const std::string & sIn)   // sIn = "nextValue", t.val = "myValue"
{
   uint32 op = t.op; std::string s = sIn, v = t.val;
   if (op >= 28) return -1;
   if (op >= 24)
   {
      const bool simple = (op == 24)||(op == 26), ic = (op >= 26);
      StringMatcher sm(ic ? ToCaseInsensitive(S(v)) : S(v), simple);
      return sm.Match(S(s)()) ? 1 : 0;
   }
   if (op >= 12) {op -= 12; s = lowerS(s); v = lowerS(v);}
   switch(op)
   {
      case 0: case 1: case 2: case 3: case 4: case 5: return cmp3(ucmp(s, v), op);
      case 6: return startsW(s, v);   case 7: return endsW(s, v);
      case 8: return ((s.empty())||(v.empty())) ? -1 : (s.find(v) != std::string::npos);     // the documentation says nothing about empty operands
      case 9: return startsW(v, s);   case 10: return endsW(v, s);
      case 11: return ((s.empty())||(v.empty())) ? -1 : (v.find(s) != std::string::npos);
   }
   return -1;
}
static int refRaw(uint32 op, const std::string & my, const std::string & his)
{
   switch(op)
   {
      case 0: case 1: case 2: case 3: case 4: case 5: return cmp3(ucmp(his, my), op);
      case 6: return startsW(his, my); case 7: return endsW(his, my);  case 8: return his.find(my) != std::string::npos;
      case 9: return startsW(my, his); case 10: return endsW(my, his); case 11: return my.find(his) != std::string::npos;
   }
   return -1;
}
static int refEval(const RT & t, const Message & m, bool hasNode, const std::string & nodeName, uint32 nkids)
{
   const String fn = S(t.fn);
   if (t.kind == "what") return ((m.what >= t.lo)&&(m.what <= t.hi)) ? 1 : 0;
   if (t.kind == "exists")
   {
      uint32 tc, cnt;
      if (m.GetInfo(fn, &tc, &cnt).IsError()) return 0;
      if (tc == B_ANY_TYPE) return -1;
      if ((t.tc != B_ANY_TYPE)&&(t.tc != tc)) return 0;
      if (t.idx >= cnt) return 0;
      if ((!isBuiltinFixed(tc))&&(tc != B_STRING_TYPE)) {FlatCountableRef fc; if ((m.FindFlat(fn, t.idx, fc).IsError())||(fc() == NULL)||(fc()->FlattenedSize() == 0)) return -1;}   // zero-length buffers: undocumented
      return 1;
   }
   if (t.kind == "num")
   {
      std::string found;
      if (!findTyped(m, t.ty, fn, t.idx, found)) {if (!t.hasD) return 0; found = t.dflt;}
      return refNum(t, found);
   }
   if (t.kind == "cc")
   {
      if ((!t.fn.empty())||(t.idx != 0)) return -1;   // "doesn't pay any attention to the node's Message-payload": only the constructor's configuration is documented
      const int32 n = hasNode ? (int32)nkids : 0;
      std::string found(4, '\0'); memcpy(&found[0], &n, 4);
      return refNum(t, found);
   }
   if (t.kind == "str")
   {
      const String * ps;
      if (m.FindString(fn, t.idx, &ps).IsOK()) return refStr(t, std::string(ps->Cstr(), ps->Length()));
      return t.hasD ? refStr(t, t.dflt) : 0;
   }
   if (t.kind == "nn") return hasNode ? refStr(t, nodeName) : 0;
   if (t.kind == "raw")
   {
      uint32 tc, cnt; bool have = false; std::string his;
      if ((m.GetInfo(fn, &tc, &cnt).IsOK())&&((t.tc == B_ANY_TYPE)||(t.tc == tc))&&(t.idx < cnt))
      {
         if ((isBuiltinFixed(tc))||(tc == B_STRING_TYPE)||(tc == B_MESSAGE_TYPE)||(tc == B_TAG_TYPE)||(tc == B_ANY_TYPE)) return -1;  // "matches on raw data buffers": other field types undocumented
         FlatCountableRef fc; if ((m.FindFlat(fn, t.idx, fc).IsError())||(fc() == NULL)) return -1;
         const ByteBuffer * bb = dynamic_cast<const ByteBuffer *>(fc()); if ((bb == NULL)||(bb->GetNumBytes() == 0)) return -1;
         his.assign((const char *)bb->GetBuffer(), bb->GetNumBytes()); have = true;
      }
      if (!have) {if (!t.hasD) return 0; his = t.dflt;}
      if ((!t.hasVal)||(t.val.empty())) return -1;   // comparing against no buffer at all: undocumented
      return refRaw(t.op, t.val, his);
   }
   if (t.kind == "msg")
   {
      ConstMessageRef sub; Message dm;
      const Message * sm = NULL;
      if (m.FindMessage(fn, t.idx, sub).IsOK()) sm = sub();
      else if (t.hasDefMsg) {if (!unflat(t.defMsg, dm)) return -1; sm = &dm;}
      if (sm == NULL) return 0;
      if (t.kids.empty()) return 1;
      return refEval(*t.kids[0], *sm, hasNode, nodeName, nkids);
   }
   // combinators: truth tables of the class documentation (n = 0 rows: AND/OR/min-match true, NAND/NOR/max-match/XOR false)
   uint32 cnt = 0; bool unknown = false;
   for (size_t i=0; i<t.kids.size(); i++) {const int r = refEval(*t.kids[i], m, hasNode, nodeName, nkids); if (r < 0) unknown = true; else if (r) cnt++;}
   if (unknown) return -1;
   const uint32 nk = (uint32)t.kids.size();
   if (t.kind == "xor") return (cnt % 2) ? 1 : 0;
   if (nk == 0) return (t.kind == "min") ? 1 : 0;
   const uint32 thr = (t.n < nk-1) ? t.n : nk-1;
   const bool more = (cnt > thr);
   return (t.kind == "min") ? (more ? 1 : 0) : (more ? 0 : 1);
}

// canonical dump of an archive: fields of the archive and of every child archive ("kid") in name order, because
// SaveToArchive adds them in `a.AddX(..) | a.AddY(..)` expressions whose operand evaluation order is unspecified
static std::string dumpArch(const Message & m)
{
   std::vector<std::pair<std::string, std::string> > fs;
   for (MessageFieldNameIterator it = m.GetFieldNameIterator(); it.HasData(); it++)
   {
      const String & fn = it.GetFieldName();
      uint32 tc = 0, cnt = 0; if (m.GetInfo(fn, &tc, &cnt).IsError()) continue;
      std::string s = " " + hexOf((const uint8_t *)fn.Cstr(), fn.Length()) + ":" + u64s(tc) + ":" + u64s(cnt) + "[";
      for (uint32 i=0; i<cnt; i++)
      {
         if (i) s += ",";
         ConstMessageRef sub;
         if ((tc == B_MESSAGE_TYPE)&&(fn == "kid")&&(m.FindMessage(fn, i, sub).IsOK())&&(sub())) s += dumpArch(*sub());
         else s += dumpItem(m, fn, tc, i);
      }
      fs.push_back(std::make_pair(std::string(fn.Cstr(), fn.Length()), s + "]"));
   }
   std::sort(fs.begin(), fs.end());   // std::string compares bytes as unsigned chars (char_traits<char>::lt)
   std::string r = "{" + u64s(m.what);
   for (size_t i=0; i<fs.size(); i++) r += fs[i].second;
   return r + "}";
}

// A RawDataQueryFilter whose type code is B_ANY_TYPE / B_MESSAGE_TYPE and whose field is a Message field is handed the
// bytes of the MessageRef object by Message::FindData(): its decision depends on an address, so two filter objects (the
// original and its restored twin) may legitimately disagree and the documentation says nothing.  Conservative test:
// some such raw filter's field name occurs as a Message-typed field anywhere in the Messages involved.
static void collectRawNames(const QueryFilter * f, std::vector<String> & names, std::vector<ConstMessageRef> & defs, int depth)
{
   if ((f == NULL)||(depth > 300)) return;
   const RawDataQueryFilter * rf = dynamic_cast<const RawDataQueryFilter *>(f);
   if (rf) {const uint32 tc = rf->GetTypeCode(); if ((tc == B_ANY_TYPE)||(tc == B_MESSAGE_TYPE)) names.push_back(rf->GetFieldName()); return;}
   const MultiQueryFilter * mf = dynamic_cast<const MultiQueryFilter *>(f);
   if (mf) {for (uint32 i=0; i<mf->GetChildren().GetNumItems(); i++) collectRawNames(mf->GetChildren()[i](), names, defs, depth+1); return;}
   const MessageQueryFilter * qf = dynamic_cast<const MessageQueryFilter *>(f);
   if (qf) {if (qf->GetDefaultChildMessage()()) defs.push_back(qf->GetDefaultChildMessage()); collectRawNames(qf->GetChildFilter()(), names, defs, depth+1);}
}
static bool hasMsgFieldNamed(const Message & m, const std::vector<String> & names, int depth)
{
   if (depth > 300) return true;
   for (MessageFieldNameIterator it = m.GetFieldNameIterator(B_MESSAGE_TYPE); it.HasData(); it++)
   {
      const String & fn = it.GetFieldName();
      for (size_t i=0; i<names.size(); i++) if (names[i] == fn) return true;
      ConstMessageRef sub; for (uint32 i=0; m.FindMessage(fn, i, sub).IsOK(); i++) if ((sub())&&(hasMsgFieldNamed(*sub(), names, depth+1))) return true;
   }
   return false;
}
static bool addressDependent(const QueryFilter & f, const Message & m)
{
   std::vector<String> names; std::vector<ConstMessageRef> defs;
   collectRawNames(&f, names, defs, 0);
   if (names.empty()) return false;
   if (hasMsgFieldNamed(m, names, 0)) return true;
   for (size_t i=0; i<defs.size(); i++) if (hasMsgFieldNamed(*defs[i](), names, 0)) return true;
   return false;
}

// ------------------------------------------------------------------ the engine
struct Slot {QueryFilterRef f; RTP rt; QueryFilterRef wire; bool wireTried; Slot() : wireTried(false) {}};

struct QfEngine : public Engine
{
   Slot slots[NSLOTS];

   virtual void reset() {for (int i=0; i<NSLOTS; i++) slots[i] = Slot();}

   // SaveToArchive -> Flatten -> Unflatten -> factory : what a remote peer would end up with
   static QueryFilterRef viaWire(const QueryFilter & f, bool & saved)
   {
      Message a; saved = f.SaveToArchive(a).IsOK();
      if (!saved) return QueryFilterRef();
      Message b; if (!unflat(flat(a), b)) {saved = false; return QueryFilterRef();}
      return GetGlobalQueryFilterFactory()()->CreateQueryFilter(b);
   }

   static bool matches(const QueryFilter & f, const MessageRef & m, const DataNode * node) {ConstMessageRef r = m; return f.Matches(r, node);}

   virtual std::string step(const std::vector<std::string> & t)
   {
      const std::string & op = t[0];
      uint32 i = 0, j = 0;
      if (((op == "expr")&&(t.size() == 2))||((op == "exprt")&&(t.size() >= 3)))
      {
         std::string e; QueryFilterRef want; RTP wantRT;
         if (op == "exprt") {size_t at = 2; if ((!parseTree(t, at, 0, want, wantRT))||(at != t.size())||(want() == NULL)) return "bad-op";}
         if ((!unhex(t[1], e))||(!nulFree(e))) return "bad-op";
         ConstQueryFilterRef f = CreateQueryFilterFromExpression(S(e));
         if (f() == NULL) {if (want()) oracleFail("an expression of the documented grammar is rejected"); return "err";}
         Message a; if (f()->SaveToArchive(a).IsError()) return "err";
         const std::string d = dumpArch(a);
         if (want())
         {
            // what the documented grammar says the expression denotes
            Message b; (void) want()->SaveToArchive(b);
            const std::string dw = dumpArch(b);
            if (dw != d) oracleFail("the expression does not yield the filter the grammar denotes: got " + d + " want " + dw);
         }
         // the parsed filter survives archiving like any other
         bool saved; QueryFilterRef again = viaWire(*f(), saved);
         if ((!saved)||(again() == NULL)) oracleFail("a filter built from an expression does not survive archiving");
         return "ok " + d;
      }
      if ((t.size() < 2)||(!toU32(t[1], i))||(i >= (uint32)NSLOTS))
      {
         if ((op == "tree")||(op == "mk")||(op == "rt")||(op == "arch")||(op == "eval")) return "bad-op";
         return "bad-op";
      }
      if (op == "tree")
      {
         size_t at = 2; QueryFilterRef qf; RTP rt;
         if ((!parseTree(t, at, 0, qf, rt))||(at != t.size())||(qf() == NULL)) return "bad-op";
         slots[i] = Slot(); slots[i].f = qf; slots[i].rt = rt;
         return "ok";
      }
      if ((op == "mk")&&(t.size() == 3))
      {
         std::string bytes; if (!unhex(t[2], bytes)) return "bad-op";
         slots[i] = Slot();
         Message a; if (!unflat(bytes, a)) return "badmsg";
         QueryFilterRef qf = GetGlobalQueryFilterFactory()()->CreateQueryFilter(a);
         if (qf() == NULL) return "err";
         slots[i].f = qf;
         // (4) what the factory accepted can be archived, and the archive is accepted again
         bool saved; QueryFilterRef again = viaWire(*qf(), saved);
         if (!saved) oracleFail("a filter accepted by the factory fails SaveToArchive()");
         else if (again() == NULL) oracleFail("the archive of a filter accepted by the factory is rejected by the factory");
         slots[i].wire = again; slots[i].wireTried = true;
         return "ok";
      }
      if ((op == "rt")&&(t.size() == 3)&&(toU32(t[2], j))&&(j < (uint32)NSLOTS))
      {
         if (slots[i].f() == NULL) return "none";
         Message a; const bool saved = slots[i].f()->SaveToArchive(a).IsOK();
         QueryFilterRef qf; if (saved) qf = GetGlobalQueryFilterFactory()()->CreateQueryFilter(a);
         RTP rt = slots[i].rt;
         slots[j] = Slot();
         if (qf() == NULL) {if (rt) oracleFail("a filter built through the public API does not survive SaveToArchive()/CreateQueryFilter()"); return "err";}
         slots[j].f = qf; slots[j].rt = rt;   // the restored filter must decide as the tree it came from
         return "ok";
      }
      if ((op == "arch")&&(t.size() == 2))
      {
         if (slots[i].f() == NULL) return "none";
         Message a; if (slots[i].f()->SaveToArchive(a).IsError()) return "err";
         return dumpArch(a);
      }
      if ((op == "eval")&&((t.size() == 3)||(t.size() == 5)))
      {
         std::string bytes, nodeName; uint32 nkids = 0; const bool hasNode = (t.size() == 5);
         if (!unhex(t[2], bytes)) return "bad-op";
         if ((hasNode)&&((!unhex(t[3], nodeName))||(!toU32(t[4], nkids))||(nkids > MAXKIDS_NODE))) return "bad-op";
         MessageRef m = GetMessageFromPool(); if (m() == NULL) return "bad-op";
         if (!unflat(bytes, *m())) return "badmsg";
         Slot & s = slots[i];
         if (s.f() == NULL) return "none";
         DataNode node, * np = NULL;
         if (hasNode)
         {
            node.Init(S(nodeName), ConstMessageRef());
            for (uint32 k=0; k<nkids; k++) {DataNodeRef c(new DataNode); char nm[32]; snprintf(nm, sizeof(nm), "c%u", k); c()->Init(nm, ConstMessageRef()); (void) node.PutChild(c, NULL, NULL);}
            np = &node;
         }
         const std::string before = flat(*m()); const uint32 sumBefore = m()->CalculateChecksum(false);
         const bool res = matches(*s.f(), m, np);
         // (2) purity
         if ((flat(*m()) != before)||(m()->CalculateChecksum(false) != sumBefore)) oracleFail("Matches() modified the Message");
         if (matches(*s.f(), m, np) != res) oracleFail("Matches() is not repeatable");
         // (1) documentation
         if (s.rt) {const int want = refEval(*s.rt, *m(), hasNode, nodeName, nkids); if ((want >= 0)&&((want != 0) != res)) oracleFail(std::string("Matches() = ") + (res ? "true" : "false") + " but the documented semantics give " + (want ? "true" : "false"));}
         // (3) the filter a remote peer reconstructs decides identically
         if (!s.wireTried)
         {
            bool saved; s.wire = viaWire(*s.f(), saved); s.wireTried = true;
            if ((s.wire() == NULL)&&(s.rt)) oracleFail("a filter built through the public API does not survive SaveToArchive()/Flatten()/Unflatten()/CreateQueryFilter()");
         }
         if ((s.wire())&&(!addressDependent(*s.f(), *m()))&&(matches(*s.wire(), m, np) != res)) oracleFail(std::string("the filter restored from its archive decides ") + (res ? "false" : "true") + " where the original decides " + (res ? "true" : "false"));
         return res ? "true" : "false";
      }
      return "bad-op";
   }

   // ------------------------------------------------------------------ generator
   FILE * out;
   void emit(const std::string & line)
   {
      fputs(line.c_str(), out); fputc('\n', out);
      FILE * keep = g_oracle; g_oracle = devnull();
      (void) step(split(line));
      g_oracle = keep;
   }
   static FILE * devnull() {static FILE * f = fopen("/dev/null", "w"); return f;}

   static std::string le(uint64_t v, int n) {std::string s; for (int i=0; i<n; i++) s.push_back((char)((v>>(8*i))&0xFF)); return s;}
   static const char * fieldNames(uint32 i) {static const char * n[] = {"a", "b", "s", "m", "r", "p", "", "Key"}; return n[i%8];}
   std::string genFn(Rng & r) {return r.chance(9,10) ? fieldNames(r.below(6)) : fieldNames(r.below(8));}
   uint32 genIdx(Rng & r) {return r.chance(3,4) ? 0 : r.chance(3,4) ? r.below(3) : r.chance(1,2) ? 3 : 0xFFFFFFFFu;}

   // per-case pools: operands and Message items are drawn from the same few values and their neighbours
   uint64_t poolI[4]; uint32_t poolF32[4]; uint64_t poolF64[4]; std::string poolS[4]; std::string poolR[4];
   void newPools(Rng & r)
   {
      static const uint64_t bi[] = {0, 1, 0x7F, 0x80, 0xFF, 0x7FFF, 0x8000, 0xFFFF, 0x7FFFFFFFULL, 0x80000000ULL, 0xFFFFFFFFULL, 0x7FFFFFFFFFFFFFFFULL, 0x8000000000000000ULL, 0xFFFFFFFFFFFFFFFFULL, 5, 100};
      static const uint32_t bf[] = {0x00000000u,0x80000000u,0x7f800000u,0xff800000u,0x7fc00000u,0xffc00001u,0x00000001u,0x80000001u,0x3f800000u,0xbf800000u,0x7f7fffffu,0x00800000u,0x40490fdbu};
      static const uint64_t bd[] = {0ULL,0x8000000000000000ULL,0x7ff0000000000000ULL,0xfff0000000000000ULL,0x7ff8000000000000ULL,0xfff8000000000001ULL,1ULL,0x8000000000000001ULL,0x3ff0000000000000ULL,0xbff0000000000000ULL,0x7fefffffffffffffULL,0x400921fb54442d18ULL};
      static const char * bs[] = {"", "a", "A", "ab", "AB", "abc", "b", "Zed", "zed", "a b", "ab\xc3\xa9", "[", "aB", "_", "abcabc", "*"};
      for (int i=0; i<4; i++)
      {
         poolI[i] = r.chance(3,4) ? bi[r.below(16)] : r.next();
         poolF32[i] = r.chance(3,4) ? bf[r.below(13)] : (uint32_t)r.next();
         poolF64[i] = r.chance(3,4) ? bd[r.below(12)] : r.next();
         poolS[i] = bs[r.below(16)];
         std::string raw; const uint32 n = r.chance(1,6) ? 0 : r.range(1,5); for (uint32 k=0; k<n; k++) raw.push_back((char)(r.chance(1,2) ? r.below(3) : r.below(256)));
         poolR[i] = (i > 0 && r.chance(1,3)) ? poolR[i-1] + std::string(1, (char)r.below(256)) : raw;
      }
   }
   std::string genNum(Rng & r, const std::string & ty)
   {
      if (ty == "bool") return std::string(1, (char)r.below(2));
      if (ty == "f32")  {uint32_t v = poolF32[r.below(4)]; if (r.chance(1,3)) v += r.chance(1,2) ? 1 : (uint32_t)-1; return le(v, 4);}
      if (ty == "f64")  {uint64_t v = poolF64[r.below(4)]; if (r.chance(1,3)) v += r.chance(1,2) ? 1 : (uint64_t)-1; return le(v, 8);}
      if (ty == "pt")   return genNum(r, "f32") + genNum(r, "f32");
      if (ty == "rc")   return genNum(r, "f32") + genNum(r, "f32") + genNum(r, "f32") + genNum(r, "f32");
      uint64_t v = poolI[r.below(4)]; if (r.chance(1,3)) v += r.chance(1,2) ? 1 : (uint64_t)-1;
      return le(v, (int)tySize(ty));
   }
   std::string genStr(Rng & r)
   {
      std::string s = poolS[r.below(4)];
      if (r.chance(1,5)) s += poolS[r.below(4)];
      if ((r.chance(1,8))&&(!s.empty())) s[r.below((uint32)s.size())] ^= 0x20;   // flip the case of one letter (or mangle a byte)
      for (size_t i=0; i<s.size(); i++) if (s[i] == 0) s[i] = 'x';
      return s;
   }
   std::string genRaw(Rng & r, bool allowEmpty)
   {
      std::string s = poolR[r.below(4)];
      if (r.chance(1,5)) s += poolR[r.below(4)];
      if ((r.chance(1,6))&&(!s.empty())) s.resize(s.size()-1);
      if ((s.empty())&&(!allowEmpty)) s = std::string(1, (char)r.below(256));
      return s;
   }
   static const char * tyName(uint32 i) {static const char * n[] = {"bool","f64","f32","i64","i32","i16","i8","pt","rc"}; return n[i%9];}
   uint32 genTc(Rng & r)
   {
      static const uint32 tcs[] = {B_ANY_TYPE, B_ANY_TYPE, B_RAW_TYPE, B_RAW_TYPE, B_STRING_TYPE, B_INT32_TYPE, B_BOOL_TYPE, B_MESSAGE_TYPE, B_POINT_TYPE, B_FLOAT_TYPE, B_INT8_TYPE, B_RECT_TYPE, B_INT64_TYPE, B_DOUBLE_TYPE, B_INT16_TYPE, 200, 0, B_POINTER_TYPE};
      return tcs[r.below(sizeof(tcs)/sizeof(tcs[0]))];
   }

   // a Message whose fields are named like the filters' fields
   void fillMsg(Rng & r, Message & m, int depth)
   {
      static const uint32 whats[] = {0, 1, 2, 5, 100, 0x7FFFFFFFu, 0x80000000u, 0xFFFFFFFFu};
      m.what = r.chance(1,2) ? (uint32)poolI[r.below(4)] : whats[r.below(8)];
      const uint32 nf = r.below(6);
      for (uint32 k=0; k<nf; k++)
      {
         const String fn = fieldNames(r.below(r.chance(9,10) ? 6 : 8));
         const uint32 cnt = r.chance(2,3) ? 1 : r.range(1,4);
         const uint32 kind = r.below(14);
         for (uint32 c=0; c<cnt; c++)
         {
            switch(kind)
            {
               case 0: case 1: case 2: case 3: case 4: case 5: case 6: case 7: case 8:
               {
                  const std::string ty = tyName(kind); const std::string v = genNum(r, ty);
                  if (ty == "bool") (void) m.AddBool(fn, v[0] != 0);
                  else if (ty == "pt") (void) m.AddPoint(fn, fromBytes<Point>(v));
                  else if (ty == "rc") (void) m.AddRect(fn, fromBytes<Rect>(v));
                  else (void) m.AddData(fn, tyCode(ty), v.data(), (uint32)v.size());
               }
               break;
               case 9: case 10: (void) m.AddString(fn, S(genStr(r))); break;
               case 11: {const std::string b = genRaw(r, true); (void) m.AddFlat(fn, GetByteBufferFromPool((uint32)b.size(), (const uint8 *)b.data()));} break;
               case 12: {const std::string b = genRaw(r, false); (void) m.AddData(fn, r.chance(1,2) ? 200 : B_ANY_TYPE+1, b.data(), (uint32)b.size());} break;
               default:
                  if (depth < 3) {MessageRef sub = GetMessageFromPool(); fillMsg(r, *sub(), depth+1); (void) m.AddMessage(fn, sub);}
                  else (void) m.AddInt32(fn, 7);
               break;
            }
         }
      }
   }
   std::string genMsgHex(Rng & r) {Message m; fillMsg(r, m, 0); return hexOf(flat(m));}

   uint32 genOp(Rng & r, uint32 nvalid) {return r.chance(15,16) ? r.below(nvalid) : r.chance(1,2) ? nvalid + r.below(3) : r.below(256);}

   std::string genTree(Rng & r, int depth, int maxDepth)
   {
      const bool leaf = (depth >= maxDepth)||(r.chance(2,5));
      const uint32 k = leaf ? r.below(22) : 22 + r.below(10);
      const std::string fn = hexOf(genFn(r)); const std::string idx = u64s(genIdx(r));
      if (k < 2)
      {
         const uint32 lo = r.chance(1,2) ? (uint32)poolI[r.below(4)] : r.below(4);
         const uint32 hi = r.chance(1,3) ? lo : r.chance(1,2) ? lo + r.below(3) : (uint32)poolI[r.below(4)];
         return "what " + u64s(lo) + " " + u64s(hi);
      }
      if (k < 4) return "exists " + fn + " " + idx + " " + u64s(genTc(r));
      if (k < 12)
      {
         const std::string ty = tyName(r.below(9));
         const uint32 mop = r.chance(2,3) ? 0 : r.chance(9,10) ? r.below(7) : 7 + r.below(249);
         return "num " + ty + " " + fn + " " + idx + " " + u64s(genOp(r, 6)) + " " + u64s(mop) + " " + hexOf(genNum(r, ty)) + " " + hexOf(genNum(r, ty)) + " " + (r.chance(1,3) ? hexOf(genNum(r, ty)) : std::string("-"));
      }
      if (k < 13)
      {
         const bool plain = r.chance(3,4);
         const uint64_t v = r.chance(3,4) ? r.below(5) : poolI[r.below(4)];
         return "cc " + (plain ? std::string("x") : fn) + " " + (plain ? std::string("0") : idx) + " " + u64s(genOp(r, 6)) + " " + u64s(r.chance(3,4) ? 0 : r.below(7)) + " " + hexOf(le(v, 4)) + " " + hexOf(genNum(r, "i32")) + " " + (r.chance(1,4) ? hexOf(genNum(r, "i32")) : std::string("-"));
      }
      if (k < 17)
      {
         // the four StringMatcher operators are outside the model (C15): rare, and judged by the direct oracle only
         const uint32 op = r.chance(1,25) ? 24 + r.below(4) : r.chance(15,16) ? r.below(24) : r.chance(1,2) ? 28 + r.below(3) : r.below(256);
         return "str " + fn + " " + idx + " " + u64s(op) + " " + hexOf(genStr(r)) + " " + (r.chance(1,3) ? hexOf(genStr(r)) : std::string("-"));
      }
      if (k < 18)
      {
         const bool plain = r.chance(3,4);
         const uint32 op = r.chance(1,25) ? 24 + r.below(4) : r.chance(15,16) ? r.below(24) : r.below(256);
         return "nn " + (plain ? std::string("x") : fn) + " " + (plain ? std::string("0") : idx) + " " + u64s(op) + " " + hexOf(genStr(r)) + " " + (r.chance(1,6) ? hexOf(genStr(r)) : std::string("-"));
      }
      if (k < 21)
      {
         // (value and assumed default may both be zero-length buffers)
         return "raw " + fn + " " + idx + " " + u64s(genOp(r, 12)) + " " + u64s(r.chance(2,3) ? (r.chance(1,2) ? B_ANY_TYPE : B_RAW_TYPE) : genTc(r)) + " " + (r.chance(9,10) ? hexOf(genRaw(r, r.chance(1,8))) : std::string("-")) + " " + (r.chance(1,3) ? hexOf(genRaw(r, r.chance(1,5))) : std::string("-"));
      }
      if (k < 22) return "msg " + fn + " " + idx + " " + (r.chance(1,3) ? genMsgHex(r) : std::string("-")) + " 0";
      if (k < 25) return "msg " + hexOf(std::string(r.chance(3,4) ? "m" : fieldNames(r.below(8)))) + " " + idx + " " + (r.chance(1,3) ? genMsgHex(r) : std::string("-")) + " 1 " + genTree(r, depth+1, maxDepth);
      const uint32 nk = r.chance(1,10) ? 0 : r.chance(1,12) ? r.range(5,9) : r.range(1,4);
      std::string kids; for (uint32 i=0; i<nk; i++) kids += " " + genTree(r, depth+1, maxDepth);
      static const uint32 ns[] = {0, 0, 1, 2, 3, 0xFFFFFFFFu, 0xFFFFFFFFu, 0xFFFFFFFEu};
      uint32 n = r.chance(1,3) ? (nk ? nk-1+r.below(3) : r.below(2)) : ns[r.below(8)]; if ((n > 0)&&(r.chance(1,6))) n--;
      if (k < 28) return "min " + u64s(n) + " " + u64s(nk) + kids;
      if (k < 31) return "max " + u64s(n) + " " + u64s(nk) + kids;
      return "xor " + u64s(nk) + kids;
   }

   std::string mutate(Rng & r, const std::string & in)
   {
      std::vector<uint8_t> b(in.begin(), in.end());
      static const uint32_t kCodes[] = {B_BOOL_TYPE,B_DOUBLE_TYPE,B_FLOAT_TYPE,B_INT64_TYPE,B_INT32_TYPE,B_INT16_TYPE,B_INT8_TYPE,B_MESSAGE_TYPE,B_POINT_TYPE,B_RECT_TYPE,B_STRING_TYPE,B_RAW_TYPE,B_ANY_TYPE,0,200,
                                           QUERY_FILTER_TYPE_WHATCODE, QUERY_FILTER_TYPE_INT32, QUERY_FILTER_TYPE_STRING, QUERY_FILTER_TYPE_MESSAGE, QUERY_FILTER_TYPE_RAWDATA, QUERY_FILTER_TYPE_MAXMATCH, QUERY_FILTER_TYPE_MINMATCH, QUERY_FILTER_TYPE_XOR, QUERY_FILTER_TYPE_NODENAME, LAST_QUERY_FILTER_TYPE};
      const uint32 nmut = r.range(1,3);
      for (uint32 k=0; k<nmut; k++)
      {
         const uint32 len = (uint32)b.size();
         switch(r.below(8))
         {
            case 0: if (len) b.resize(r.below(len)); break;
            case 1: case 2: case 3:
               if (len >= 4)
               {
                  const uint32 pos = r.chance(1,2) ? 4*r.below(len/4) : r.below(len-3);
                  const uint32 rem = len-pos-4;
                  uint32 v;
                  switch(r.below(10))
                  {
                     case 0: v = 0; break; case 1: v = 1; break; case 2: v = 2; break; case 3: v = rem; break; case 4: v = rem+1; break;
                     case 5: v = 0xFFFFFFFFu; break; case 6: v = rem/2; break;
                     default: v = kCodes[r.below(sizeof(kCodes)/sizeof(kCodes[0]))]; break;
                  }
                  b[pos] = (uint8_t)v; b[pos+1] = (uint8_t)(v>>8); b[pos+2] = (uint8_t)(v>>16); b[pos+3] = (uint8_t)(v>>24);
               }
            break;
            case 4: case 5: if (len) b[r.below(len)] = (uint8_t)r.below(256); break;
            case 6:
            {
               // rename a field: overwrite a byte of some archive field name with a letter of another one
               static const char letters[] = "fnidxmaopvlskety";
               if (len > 16) b[12 + r.below(len-12)] = (uint8_t)letters[r.below(sizeof(letters)-1)];
            }
            break;
            default: if (len > 1) {const uint32 a = r.below(len), n = r.range(1, (len-a < 8) ? len-a : 8); b.erase(b.begin()+a, b.begin()+a+n);} break;
         }
      }
      return hexOf(b);
   }

   // an arbitrary Message dressed up as an archive: archive field names with arbitrary types and counts
   std::string genFakeArchive(Rng & r, int depth)
   {
      static const char * keys[] = {"fn", "idx", "min", "max", "type", "op", "mop", "val", "msk", "def", "kid", "defmsg"};
      Message a(r.chance(9,10) ? QUERY_FILTER_TYPE_WHATCODE + r.below(20) : (uint32)r.next());
      if (r.chance(3,4)) (void) a.AddString("fn", S(genFn(r)));
      if (r.chance(1,2)) (void) a.AddInt8("op", (int8)(r.chance(3,4) ? r.below(13) : r.below(256)));
      const uint32 nf = r.range(1,7);
      for (uint32 k=0; k<nf; k++)
      {
         const String key = r.chance(1,3) ? keys[r.below(2)] : keys[r.below(12)];
         const uint32 cnt = r.chance(2,3) ? 1 : r.range(1,3);
         const uint32 kind = r.below(12);
         for (uint32 c=0; c<cnt; c++)
         {
            if (kind < 7) {const std::string ty = tyName(r.below(9)); const std::string v = genNum(r, ty); if (ty == "pt") (void) a.AddPoint(key, fromBytes<Point>(v)); else if (ty == "rc") (void) a.AddRect(key, fromBytes<Rect>(v)); else if (ty == "bool") (void) a.AddBool(key, v[0] != 0); else (void) a.AddData(key, tyCode(ty), v.data(), (uint32)v.size());}
            else if (kind < 9) (void) a.AddString(key, S(r.chance(1,2) ? genStr(r) : genFn(r)));
            else if (kind < 10) {const std::string b = genRaw(r, true); (void) a.AddFlat(key, GetByteBufferFromPool((uint32)b.size(), (const uint8 *)b.data()));}
            else if (depth < 3) {Message sub; if (r.chance(1,2)) {std::string s = genFakeArchive(r, depth+1); std::string raw; unhex(s, raw); (void) unflat(raw, sub);} else fillMsg(r, sub, 2); (void) a.AddMessage(key, GetMessageFromPool(sub));}
         }
      }
      return hexOf(flat(a));
   }

   // Message-level corruption of an archive (so that the factory, not the Message parser, sees it)
   void addJunkField(Rng & r, Message & a, const String & key, int depth)
   {
      const uint32 cnt = r.chance(2,3) ? 1 : r.range(2,3);
      const uint32 kind = r.below(12);
      for (uint32 c=0; c<cnt; c++)
      {
         if (kind < 6) {const std::string ty = tyName((kind < 3) ? 4+2*r.below(2) : r.below(9)); const std::string v = genNum(r, ty); if (ty == "pt") (void) a.AddPoint(key, fromBytes<Point>(v)); else if (ty == "rc") (void) a.AddRect(key, fromBytes<Rect>(v)); else if (ty == "bool") (void) a.AddBool(key, v[0] != 0); else (void) a.AddData(key, tyCode(ty), v.data(), (uint32)v.size());}
         else if (kind < 9) (void) a.AddString(key, S(r.chance(1,2) ? genStr(r) : genFn(r)));
         else if (kind < 10) {const std::string b = genRaw(r, true); (void) a.AddFlat(key, GetByteBufferFromPool((uint32)b.size(), (const uint8 *)b.data()));}
         else if (depth < 3) {Message sub; if (r.chance(1,2)) {std::string raw; unhex(genFakeArchive(r, depth+1), raw); (void) unflat(raw, sub);} else fillMsg(r, sub, 2); (void) a.AddMessage(key, GetMessageFromPool(sub));}
      }
   }
   void mutateArchive(Rng & r, Message & a, int depth)
   {
      static const char * keys[] = {"fn", "idx", "min", "max", "type", "op", "mop", "val", "msk", "def", "kid", "defmsg"};
      uint32 tc, cnt;
      if ((depth < 4)&&(r.chance(1,2))&&(a.GetInfo("kid", &tc, &cnt).IsOK())&&(tc == B_MESSAGE_TYPE)&&(cnt > 0))
      {
         const uint32 i = r.below(cnt); ConstMessageRef sub;
         if ((a.FindMessage("kid", i, sub).IsOK())&&(sub())) {MessageRef copy = GetMessageFromPool(*sub()); mutateArchive(r, *copy(), depth+1); (void) a.ReplaceMessage(false, "kid", i, copy); return;}
      }
      std::vector<String> names; for (MessageFieldNameIterator it = a.GetFieldNameIterator(); it.HasData(); it++) names.push_back(it.GetFieldName());
      const String victim = names.empty() ? String("fn") : names[r.below((uint32)names.size())];
      switch(r.below(9))
      {
         case 0: a.what = r.chance(3,4) ? QUERY_FILTER_TYPE_WHATCODE + r.below(20) : (uint32)r.next(); break;
         case 1: (void) a.RemoveName(victim); break;
         case 2: (void) a.RemoveData(victim, r.below(2)); break;
         case 3: (void) a.RemoveName(victim); addJunkField(r, a, victim, depth); break;                       // same name, another type
         case 4: {const String k2 = keys[r.below(12)]; if (!a.HasName(k2)) (void) a.Rename(victim, k2);} break;
         case 5: addJunkField(r, a, keys[r.below(12)], depth); break;                                           // extra field or extra items (same type) / type clash (ignored)
         case 6:
         {
            // a boundary value in an integer field
            static const uint32 bv[] = {0, 1, 2, 5, 6, 7, 11, 12, 23, 24, 27, 28, 127, 128, 255, 0x7FFFFFFFu, 0x80000000u, 0xFFFFFFFEu, 0xFFFFFFFFu};
            const uint32 v = bv[r.below(sizeof(bv)/sizeof(bv[0]))];
            if (a.GetInfo(victim, &tc, &cnt).IsOK()) {if (tc == B_INT32_TYPE) (void) a.ReplaceInt32(false, victim, 0, (int32)v); else if (tc == B_INT8_TYPE) (void) a.ReplaceInt8(false, victim, 0, (int8)v);}
         }
         break;
         case 7: {const String k = r.chance(1,2) ? "op" : "mop"; (void) a.RemoveName(k); (void) a.AddInt8(k, (int8)(r.chance(1,2) ? r.below(30) : r.below(256)));} break;
         default: {const String k = r.chance(1,2) ? "val" : (r.chance(1,2) ? "def" : "msk"); if (a.GetInfo(k, &tc, &cnt).IsOK()) {if (tc == B_STRING_TYPE) (void) a.AddString(k, S(genStr(r))); else if (tc == B_RAW_TYPE) {const std::string b = genRaw(r, true); (void) a.AddFlat(k, GetByteBufferFromPool((uint32)b.size(), (const uint8 *)b.data()));} else {(void) a.RemoveName(k); addJunkField(r, a, k, depth);}}} break;
      }
   }

   // ------------------------------------------------------------------ expression strings
   // an AST is printed twice: as an expression string (with random spelling: synonyms, letter case, blanks, optional parentheses)
   // and as the prefix form of the tree the documented grammar (html/Beginners Guide.html) says it denotes
   static std::string sp(Rng & r) {return r.chance(2,3) ? " " : r.chance(1,2) ? "" : r.chance(1,2) ? "  " : "\t";}
   static std::string spx(Rng & r) {return r.chance(2,3) ? " " : r.chance(1,2) ? "  " : "\n";}   // at least one blank
   static std::string recase(Rng & r, const std::string & w) {if (r.chance(3,4)) return w; std::string o = w; for (size_t i=0; i<o.size(); i++) if ((o[i] >= 'a')&&(o[i] <= 'z')&&(r.chance(1,2))) o[i] = (char)(o[i]-32); return o;}
   static std::string zeros(int n) {return hexOf(std::string(n, '\0'));}
   // the operand literal of a typed leaf: text for the expression, in-memory bytes for the tree
   void genOperand(Rng & r, const std::string & ty, bool isDefault, std::string & text, std::string & bytes)
   {
      if (ty == "bool")
      {
         const bool b = r.chance(1,2);
         static const char * on[] = {"true", "yes", "1", "on", "T"}; static const char * off[] = {"false", "off", "0", "no", "F"};
         text = isDefault ? (b ? on[r.below(5)] : off[r.below(5)]) : std::string(b ? "true" : "false");
         bytes = std::string(1, (char)(b ? 1 : 0)); return;
      }
      if ((ty == "f32")||(ty == "f64"))
      {
         static const char * lits[] = {"0.5", "1.5", "-2.25", "100.0", "3.", ".125", "-0.0", "21.75", "1024.5", "150.0", "21"};
         static const double vals[] = {0.5, 1.5, -2.25, 100.0, 3.0, 0.125, -0.0, 21.75, 1024.5, 150.0, 21.0};
         const uint32 i = r.below(11); text = lits[i];
         if (ty == "f64") {uint64_t b; memcpy(&b, &vals[i], 8); bytes = le(b, 8);} else {const float f = (float)vals[i]; uint32_t b; memcpy(&b, &f, 4); bytes = le(b, 4);}
         return;
      }
      if (ty == "pt")
      {
         const float x = (float)((int)r.below(40) - 20) * 0.5f, y = (float)r.below(9);
         char buf[64]; snprintf(buf, sizeof(buf), "%g,%g", (double)x, (double)y); text = buf;
         uint32_t bx, by; memcpy(&bx, &x, 4); memcpy(&by, &y, 4); bytes = le(bx, 4) + le(by, 4); return;
      }
      const int sz = (int)tySize(ty);
      int64_t v = r.chance(1,2) ? (int64_t)r.below(200) - 100 : r.chance(1,2) ? (int64_t)(int32_t)r.next() : (int64_t)(r.next() >> r.below(40));
      if (sz == 1) v = (int64_t)r.below(256) - 128; else if (sz == 2) v = (int64_t)r.below(65536) - 32768; else if (sz == 4) v = (int64_t)(int32_t)v;
      else if (r.chance(1,8)) v = r.chance(1,2) ? INT64_MIN : INT64_MAX;
      char buf[40]; snprintf(buf, sizeof(buf), "%lld", (long long)v);
      text = std::string(((v >= 0)&&(sz != 8)&&(r.chance(1,6))) ? "+" : "") + buf;   // Atoll() (int64) takes no leading '+': "(int64)+5" is 0
      bytes = le((uint64_t)v, sz);
   }
   void genLeaf(Rng & r, std::string & e, std::string & t)
   {
      // field names, several of which contain a keyword or synonym of the lexer ("or ", "what", "not", "is ", "and ", "xor ", "exists")
      static const char * names[] = {"age", "weight", "n1", "x_y", "Foo", "k", "sober", "eyecolor", "v2", "somewhat", "notes", "basis", "android", "this", "format", "taxor", "coexists", "band"};
      const std::string nm = names[r.below(18)];
      const std::string fn = hexOf(nm);
      // "age:2" = third value of the field "age"
      uint32 idx = 0; std::string lhs = nm;
      if (r.chance(1,4)) {idx = r.chance(3,4) ? r.below(4) : r.chance(1,2) ? 0xFFFFFFFFu : r.below(100000); lhs += ":" + u64s(idx);}
      const std::string ix = " " + u64s(idx) + " ";
      static const char * nops[]  = {"==", "<", ">", "<=", ">=", "!="};
      const uint32 k = r.below(20);
      if (k < 3)
      {
         const uint32 op = r.below(6); const uint32 v = r.chance(1,2) ? r.below(10) : r.chance(1,2) ? 0xFFFFFFFFu - r.below(2) : (uint32)r.next();
         const std::string ops = (op == 0) ? (r.chance(1,3) ? std::string("==") : r.chance(1,2) ? std::string("=") : recase(r, "is ")) : std::string(nops[op]);
         e = recase(r, "what") + sp(r) + ops + sp(r) + u64s(v);
         uint64_t lo = 0, hi = 0xFFFFFFFFu; bool imp = false, neg = false;
         switch(op) {case 0: lo = hi = v; break; case 5: lo = hi = v; neg = true; break; case 1: if (v == 0) imp = true; else hi = v-1; break; case 2: if (v == 0xFFFFFFFFu) imp = true; else lo = (uint64_t)v+1; break; case 3: hi = v; break; default: lo = v; break;}
         if (imp) {lo = 1; hi = 0;}   // "no what-code is < 0": a filter that never matches
         t = std::string(neg ? "max 0 1 " : "") + "what " + u64s(lo) + " " + u64s(hi);
         return;
      }
      if (k < 5)
      {
         static const char * casts[] = {"", "(int32)", "(int8)", "(int16)", "(int64)", "(float)", "(double)", "(bool)", "(string)", "(point)", "(rect)"};
         static const uint32 tcs[] = {B_ANY_TYPE, B_INT32_TYPE, B_INT8_TYPE, B_INT16_TYPE, B_INT64_TYPE, B_FLOAT_TYPE, B_DOUBLE_TYPE, B_BOOL_TYPE, B_STRING_TYPE, B_POINT_TYPE, B_RECT_TYPE};
         const uint32 c = r.chance(1,2) ? 0 : r.below(11);
         e = recase(r, "exists ") + sp(r) + recase(r, casts[c]) + sp(r) + lhs;
         t = "exists " + fn + ix + u64s(tcs[c]);
         return;
      }
      if (k < 9)
      {
         // strings
         static const char * sops[] = {"==", "<", ">", "<=", ">=", "!=", "startswith ", "endswith ", "contains ", "isstartof ", "isendof ", "issubstringof ", "matches ", "matchesregex "};
         static const char * vals[] = {"green", "twenty-one", "a", "Zed", "x9", "hello_world", "q.r", "notes", "somewhat"};
         const uint32 op = r.below(14); const uint32 opc = (op < 12) ? op : (op == 12) ? 24 : 25;
         const std::string v = vals[r.below(9)];
         const bool quoted = r.chance(1,2);
         const std::string vs = quoted ? "\"" + (r.chance(1,4) ? v + " " + v : v) + "\"" : (r.chance(1,4) ? recase(r, "(string)") + sp(r) : std::string()) + v;
         const std::string vv = (quoted && vs.size() > v.size()+2) ? v + " " + v : v;
         std::string dtok = "-";
         if (r.chance(1,5)) {const std::string d = r.chance(1,6) ? std::string() : std::string(vals[r.below(9)]); lhs += "|" + d; dtok = hexOf(d);}   // "numstr|100 startswith ..."
         e = lhs + ((op < 6) ? sp(r) : spx(r)) + recase(r, sops[op]) + sp(r) + vs;
         t = "str " + fn + ix + u64s(opc) + " " + hexOf(vv) + " " + dtok;
         return;
      }
      // numeric leaves: type by heuristics (true/false, digits, dot, f suffix, comma) or by an explicit cast
      static const char * tys[]   = {"bool", "bool", "i32", "i32", "i32", "i8", "i16", "i64", "i64", "f64", "f64", "f32", "f32", "pt"};
      static const char * casts[] = {"", "(bool)", "", "", "(int32)", "(int8)", "(int16)", "(int64)", "(int64)", "", "(double)", "", "(float)", ""};
      const uint32 c = r.below(14); const std::string ty = tys[c];
      std::string cast = casts[c];
      if ((ty == "pt")&&(r.chance(1,3))) cast = "(point)";
      const uint32 op = ((ty == "bool")||(ty == "pt")) ? (r.chance(2,3) ? 0 : 5) : r.below(6);
      std::string text, bytes; genOperand(r, ty, !cast.empty(), text, bytes);
      if ((ty == "f32")&&(cast.empty())) text += "f";                                                        // "21f": float
      if ((ty == "f64")&&(cast.empty())&&(text.find('.') == std::string::npos)) text += ".0";                // a dot: double
      if ((ty == "bool")&&(cast.empty())) text = recase(r, text);
      std::string dtok = "-";
      if (r.chance(1,5)) {std::string dt, db; genOperand(r, ty, true, dt, db); lhs += "|" + dt; dtok = hexOf(db);}   // "weight|100 >= 150.0f": the default has the operand's type
      e = lhs + sp(r) + nops[op] + sp(r) + recase(r, cast) + (cast.empty() ? std::string() : sp(r)) + text;
      t = "num " + ty + " " + fn + ix + u64s(op) + " 0 " + hexOf(bytes) + " " + zeros((int)tySize(ty)) + " " + dtok;
   }
   void genExprAst(Rng & r, int depth, std::string & e, std::string & t)
   {
      if ((depth >= 3)||(r.chance(1,2)))
      {
         genLeaf(r, e, t);
         if (r.chance(1,4)) {e = (r.chance(1,2) ? "!" : recase(r, "not ")) + sp(r) + "(" + sp(r) + e + sp(r) + ")"; t = "max 0 1 " + t;}
         else if (r.chance(1,6)) {e = "!" + e; t = "max 0 1 " + t;}   // '!' in front of a bare predicate negates it
      }
      else
      {
         const uint32 c = r.below(3), n = r.range(2,4);
         static const char * sym[3][2] = {{"&&", "and "}, {"||", "or "}, {"^", "xor "}};
         const bool word = r.chance(1,3);
         std::string es, ts;
         for (uint32 i=0; i<n; i++)
         {
            std::string ke, kt; genExprAst(r, depth+1, ke, kt);
            const bool neg = r.chance(1,6);
            if (i) es += sp(r) + (word ? recase(r, sym[c][1]) : std::string(sym[c][0])) + sp(r);
            es += std::string(neg ? "!" : "") + "(" + sp(r) + ke + sp(r) + ")";
            ts += std::string(" ") + (neg ? "max 0 1 " : "") + kt;
         }
         e = es;
         t = ((c == 0) ? "min 4294967295 " : (c == 1) ? "min 0 " : "xor ") + u64s(n) + ts;
      }
      // redundant parentheses and double negation are part of the grammar: "((x))", "!(!(x))", "(!(x))"
      if (r.chance(1,8)) e = "(" + sp(r) + e + sp(r) + ")";
      else if (r.chance(1,12)) {e = "!(" + sp(r) + e + sp(r) + ")"; t = "max 0 1 " + t;}
   }
   // hostile / undocumented spellings: judged by the model only
   std::string genWildExpr(Rng & r)
   {
      std::string e, t; genExprAst(r, r.below(3), e, t);
      static const char * frag[] = {"(", ")", "!", "<", ">", "==", "<=", ">=", "!=", "&&", "||", "^", "=", "\"", " ", "\t", "\x0b", "\x0c", "what", "exists ", "is ", "and ", "or ", "not ", "xor ", "equals ", "(int32)", "(int8)", "(string)", "(bool)", "(float)",
                                    "(double)", "(int64)", "(int16)", "(point)", "(rect)", ":", "|", ":1", ":2", "|5", "|x", ":-1", ":99999999999", "this", "format", "android", "x", "7", "-", "+", ".", ",", "1,2", "1,2,3,4", "f", "1e3", "0x10", "inf", "nan", "0.1", "true", "FALSE", "\xc3\xa9",
                                    "startswith ", "contains ", "matches ", "issubstringof ", "18446744073709551616", "9223372036854775807", "-9223372036854775807", "4294967296", "a|b|c", "a:b:2", "\"a:1\"", "\"q|5\"", "()", "(("};
      const uint32 mode = r.below(10);
      if (mode < 4)
      {
         // field-name suffixes and other spellings the documentation describes but the denotation oracle does not cover here
         static const char * pre[] = {"age:1 >= 21", "age|18 >= 21", "w:2|7 < 5", "exists age:1", "n|x == abc", "n:3 contains \"q\"", "a| == 1", "k:0 == (int8)5", "this == 1", "format == 2", "android > 3", "axor == 1", "x == 1e3", "x == 0x10", "x == 0.1", "x == (float)inf",
                                     "((a == 1))", "(a == 1", "a == 1)", "a == (int32)\"5\"", "\"a b\" == 5", "what foo 5", "a exists b", "x == (rect)1,2,3", "x == 1,,2", "x == (int64)--5", "x == (int32)99999999999", "what == 4294967296", "what == -1", "exists \"x:1\"", "!exists (int32)age", "not not (a == 1)", "eyecolor == \"green\"", "!(eyecolor contains \"green\")", "(!(a == 1)) && (b == 2)", "!(!(a == 1))", "exists\nage"};
         std::string s = pre[r.below(sizeof(pre)/sizeof(pre[0]))];
         if (r.chance(1,3)) {std::string e2, t2; genExprAst(r, 2, e2, t2); s = "(" + s + ") && (" + e2 + ")";}
         return s;
      }
      const uint32 nm = r.range(1,3);
      for (uint32 k=0; k<nm; k++)
      {
         const uint32 len = (uint32)e.size();
         switch(r.below(5))
         {
            case 0: if (len) e.erase(r.below(len), r.range(1,3)); break;
            case 1: e.insert(r.below(len+1), frag[r.below(sizeof(frag)/sizeof(frag[0]))]); break;
            case 2: if (len) e[r.below(len)] = "()!<>=&|^\" :|.,-+fxie\t"[r.below(23)]; break;
            case 3: {std::string g; const uint32 n = r.range(1,6); for (uint32 i=0; i<n; i++) g += frag[r.below(sizeof(frag)/sizeof(frag[0]))]; e = r.chance(1,2) ? g : e + g;} break;
            default: if (len > 1) {const uint32 a = r.below(len); e = e.substr(a) + e.substr(0, a);} break;
         }
      }
      for (size_t i=0; i<e.size(); i++) if (e[i] == 0) e[i] = ' ';
      return e;
   }

   virtual void gen(Rng & r, const Tier & tier, FILE * o)
   {
      out = o;
      const uint32 ncases = tier.thorough ? 30000 : 400;
      for (uint32 c=0; c<ncases; c++)
      {
         fprintf(out, "case %u\n", c*tier.nshards + tier.shard);
         reset(); newPools(r);
         const uint32 shape = r.below(13);
         if (shape >= 10)
         {
            // expression strings: documented forms with their denotation, then hostile spellings
            const uint32 n = r.range(3,8);
            for (uint32 k=0; k<n; k++)
            {
               if (r.chance(3,5)) {std::string e, t; genExprAst(r, r.chance(1,3) ? 3 : r.below(3), e, t); emit("exprt " + hexOf(e) + " " + t);}
               else emit("expr " + hexOf(genWildExpr(r)));
            }
         }
         else if (shape < 7)
         {
            // a tree, its archive, its restored twin, and Messages on both
            const int maxDepth = r.chance(1,4) ? 5 : r.range(0,3);
            emit("tree 0 " + genTree(r, 0, maxDepth));
            emit("arch 0");
            emit("rt 0 1");
            emit("arch 1");
            const uint32 ne = r.range(3, 10);
            for (uint32 e=0; e<ne; e++)
            {
               const std::string m = genMsgHex(r);
               const std::string node = r.chance(1,3) ? " " + hexOf(genStr(r)) + " " + u64s(r.chance(3,4) ? r.below(5) : (uint32)(poolI[r.below(4)] % 40)) : std::string();
               emit("eval " + u64s(r.below(2)) + " " + m + node);
               if (r.chance(1,3)) emit("eval " + u64s(r.below(2)) + " " + m + node);
            }
            if (r.chance(1,2))
            {
               // a corrupted copy of the archive, as an untrusted peer might send it
               Message a; if ((slots[0].f())&&(slots[0].f()->SaveToArchive(a).IsOK()))
               {
                  const uint32 nm = r.range(1,3);
                  for (uint32 k=0; k<nm; k++)
                  {
                     if (r.chance(1,4)) emit("mk 2 " + mutate(r, flat(a)));
                     else {Message b = a; const uint32 nmu = r.chance(2,3) ? 1 : 2; for (uint32 q=0; q<nmu; q++) mutateArchive(r, b, 0); emit("mk 2 " + hexOf(flat(b)));}
                     if ((slots[2].f() == NULL)&&(r.chance(3,4))) continue;
                     emit("arch 2");
                     const uint32 ne = r.range(1,3);
                     for (uint32 e=0; e<ne; e++) emit("eval 2 " + genMsgHex(r) + (r.chance(1,4) ? " " + hexOf(genStr(r)) + " " + u64s(r.below(4)) : std::string()));
                     if (r.chance(1,2)) {emit("rt 2 3"); emit("arch 3"); emit("eval 3 " + genMsgHex(r) + (r.chance(1,4) ? " " + hexOf(genStr(r)) + " 2" : std::string()));}
                  }
               }
            }
         }
         else if (shape < 9)
         {
            // arbitrary Messages offered as archives
            const uint32 n = r.range(1,4);
            for (uint32 k=0; k<n; k++)
            {
               const uint32 s = r.below(NSLOTS);
               emit("mk " + u64s(s) + " " + genFakeArchive(r, 0));
               if ((slots[s].f() == NULL)&&(r.chance(3,4))) continue;
               emit("arch " + u64s(s));
               const uint32 ne = r.range(1,3);
               for (uint32 e=0; e<ne; e++) emit("eval " + u64s(s) + " " + genMsgHex(r) + (r.chance(1,4) ? " " + hexOf(genStr(r)) + " " + u64s(r.below(4)) : std::string()));
               if (r.chance(1,2)) {emit("rt " + u64s(s) + " " + u64s((s+1)%NSLOTS)); emit("arch " + u64s((s+1)%NSLOTS));}
            }
         }
         else
         {
            // malformed ops / non-Messages
            static const char * junk[] = {"tree 0 what 1", "tree 9 what 1 2", "tree 0 num i32 x61 0 0 0 x01 x00000000 -", "tree 0 num bool x61 0 0 0 x02 x00 -", "tree 0 min 0 2 what 1 1", "tree 0 xor 1 what 1 1 what 2 2",
                                          "mk 0 x", "mk 0 x00", "mk 1 zz", "eval 0 x", "eval 0", "arch 7", "rt 0 4", "frob 1", "tree 0 str x6100 0 0 x61 -", "tree 0 what 4294967296 0", "eval 0 x 1", "tree 0 raw x61 0 0 0 - - -"};
            emit("tree 1 what 0 4294967295");
            const uint32 n = r.range(2,6);
            for (uint32 k=0; k<n; k++) emit(junk[r.below(sizeof(junk)/sizeof(junk[0]))]);
            emit("eval 1 " + genMsgHex(r));
            emit("eval 1 " + mutate(r, flat(Message(5))));
         }
      }
   }
};

int main(int argc, char ** argv) {QfEngine e; return harnessMain(argc, argv, e);}
