// Engine `ht` (C09): two tables of one kind (Hashtable / OrderedKeysHashtable / OrderedValuesHashtable) and key
// type (uint32 under a deliberately colliding hash functor / String), int values, four live iterators, driven
// through the public API of util/Hashtable.h.  Key and value arguments may be references obtained from the
// table itself (alias mode: @f @l @a<i> @i<n>).
//
// Direct oracle (needs no model): a std::list<pair> reference per table updated with ideal ordered-map
// semantics; after every op (tables <= 64 entries; every 16th op above) the real table's forward sequence must
// equal the reference (plain kind) or hold the same pairs and be sorted (ordered kinds, while nothing disturbed
// the order by hand), the backward traversal must be its reverse, query results must be the reference's; an
// iterator that was advanced must stand on an entry that exists in its table with that value, must not show a
// key twice and must have shown every key that was present throughout once it reports the end (while no
// operation reordered its table).
#include "libvh/vh.h"
#include "util/Hashtable.h"
#include "util/String.h"
#include <list>
#include <set>
#include <map>
#include <algorithm>
#include <type_traits>
#include <signal.h>
#include <unistd.h>
#include <fcntl.h>
#include "syslog/SysLog.h"

using namespace muscle;
using namespace vh;

static uint32 g_hashMod = 0;   // 0 = identity, 1 = every key collides, n = n buckets' worth of hash codes
class CollidingHashFunctor
{
public:
   uint32 operator()(const uint32 & k) const {return g_hashMod ? (k % g_hashMod) : k;}
   bool AreKeysEqual(const uint32 & a, const uint32 & b) const {return a == b;}
};

template<class K> struct KeyTraits;
template<> struct KeyTraits<uint32>
{
   typedef CollidingHashFunctor HF;
   static bool parse(const std::string & tok, uint32 & k) {uint64_t v; if ((!toU64(tok, v))||(v > 0xFFFFFFFFULL)||(tok.size() > 10)) return false; k = (uint32)v; return true;}
   static std::string render(const uint32 & k) {return u64s(k);}
   static bool less(const uint32 & a, const uint32 & b) {return a < b;}
};
template<> struct KeyTraits<String>
{
   typedef DEFAULT_HASH_FUNCTOR(String) HF;
   static bool parse(const std::string & tok, String & k) {std::string b; if (!unhex(tok, b)) return false; if (b.find('\0') != std::string::npos) return false; k = String(b.data(), (uint32)b.size()); return true;}
   static std::string render(const String & k) {return hexOf((const uint8_t *)k(), k.Length());}
   static bool less(const String & a, const String & b) {return strcmp(a(), b()) < 0;}
};

struct IWorld
{
   virtual ~IWorld() {}
   virtual std::string step(const std::vector<std::string> & toks) = 0;
   virtual uint32_t size(int t) const = 0;
   virtual std::string keyTokAt(int t, uint32_t idx) const = 0;
   virtual bool iterLive(int i) const = 0;
   virtual bool iterHasData(int i) const = 0;
   virtual bool zeroCap(int t) const = 0;          // GetNumAllocatedItemSlots() == 0
   virtual bool autoSortOn(int t) const = 0;       // ordered kinds: GetAutoSortEnabled()
   virtual bool hasKeyTok(int t, const std::string & tok) const = 0;
   virtual int valueOfKeyTok(int t, const std::string & tok) const = 0;   // -1 if absent
};

template<class TableT, class K, int KIND> struct WorldT : public IWorld
{
   typedef KeyTraits<K> KT;
   typedef typename TableT::IteratorType IterT;
   typedef std::pair<K,int> Pair;
   typedef std::list<Pair> Ref;
   typedef std::integral_constant<bool, (KIND != 0)> IsOrd;
   struct KLess {bool operator()(const K & a, const K & b) const {return KT::less(a, b);}};
   typedef std::set<K, KLess> KSet;

   TableT * tab[2];
   IterT * it[4];
   Ref ref[2];
   typedef std::map<K, typename Ref::iterator, KLess> RMap;
   RMap rmap[2];             // key -> node of the reference list (list iterators survive sort/splice/swap)
   bool sortedExpected[2];   // ordered kinds: nothing has disturbed the sort order by hand since the last full sort
   bool autoRef[2];
   uint64_t opCount;

   struct Book {int owner; bool strict; KSet visited, throughout, removedSince;};
   Book book[4];

   WorldT() : opCount(0)
   {
      for (int t=0; t<2; t++) {tab[t] = new TableT; sortedExpected[t] = true; autoRef[t] = true;}
      for (int i=0; i<4; i++) {it[i] = NULL; book[i].owner = -1; book[i].strict = false;}
   }
   virtual ~WorldT()
   {
      // tables first, iterators afterwards: a live iterator must survive the destruction of its table
      for (int t=0; t<2; t++) delete tab[t];
      for (int i=0; i<4; i++) delete it[i];
   }

   // ------------------------------------------------------------------ introspection for the generator
   virtual uint32_t size(int t) const {return tab[t]->GetNumItems();}
   virtual std::string keyTokAt(int t, uint32_t idx) const {const K * k = tab[t]->GetKeyAt(idx); return k ? KT::render(*k) : std::string("0");}
   virtual bool iterLive(int i) const {return it[i] != NULL;}
   virtual bool iterHasData(int i) const {return (it[i] != NULL)&&(it[i]->HasData());}
   virtual bool zeroCap(int t) const {return tab[t]->GetNumAllocatedItemSlots() == 0;}
   virtual bool autoSortOn(int t) const {return autoRef[t];}
   virtual bool hasKeyTok(int t, const std::string & tok) const {K k = K(); return (KT::parse(tok, k))&&(tab[t]->ContainsKey(k));}
   virtual int valueOfKeyTok(int t, const std::string & tok) const {K k = K(); if (!KT::parse(tok, k)) return -1; const int * v = tab[t]->Get(k); return v ? *v : -1;}

   // ------------------------------------------------------------------ reference (ideal ordered map)
   static bool ltEntry(const Pair & a, const Pair & b) {return (KIND == 2) ? (a.second < b.second) : KT::less(a.first, b.first);}
   static bool ltByKey(const Pair & a, const Pair & b) {return KT::less(a.first, b.first);}
   static bool ltByVal(const Pair & a, const Pair & b) {return a.second < b.second;}
   typename Ref::iterator rfind(int t, const K & k) {typename RMap::iterator i = rmap[t].find(k); return (i == rmap[t].end()) ? ref[t].end() : i->second;}
   void rerase(int t, typename Ref::iterator i) {rmap[t].erase(i->first); ref[t].erase(i);}
   void rinsert(int t, typename Ref::iterator pos, const Pair & p) {rmap[t][p.first] = ref[t].insert(pos, p);}
   bool rhas(int t, const K & k) {return rfind(t, k) != ref[t].end();}

   void noteReorder(int t) {for (int i=0; i<4; i++) if (book[i].owner == t) book[i].strict = false;}
   void noteRemove(int t, const K & k) {for (int i=0; i<4; i++) if (book[i].owner == t) {book[i].throughout.erase(k); book[i].removedSince.insert(k);}}
   void noteInsert(int t, const K & k) {for (int i=0; i<4; i++) if ((book[i].owner == t)&&(book[i].removedSince.count(k))) book[i].strict = false;}
   void noteDetach(int t) {for (int i=0; i<4; i++) if (book[i].owner == t) {book[i].owner = -1; book[i].throughout.clear();}}

   void rremove(int t, const K & k) {typename Ref::iterator i = rfind(t, k); if (i != ref[t].end()) {const K kk = i->first; rerase(t, i); noteRemove(t, kk);}}
   // Put(): replace in place or append
   void rput(int t, const K & k, int v)
   {
      typename Ref::iterator i = rfind(t, k);
      if (i != ref[t].end()) {i->second = v; if (KIND != 0) noteReorder(t); if ((KIND == 2)&&(!autoRef[t])) sortedExpected[t] = false;}   // an ordered table may move the entry
      else {noteInsert(t, k); rinsert(t, ref[t].end(), Pair(k, v)); if ((KIND != 0)&&(!autoRef[t])) sortedExpected[t] = false;}
   }
   // unlink k and relink it at list position pos (reference for every positional operation)
   void rmoveTo(int t, const K & k, size_t pos)
   {
      typename Ref::iterator i = rfind(t, k); if (i == ref[t].end()) return;
      const Pair p = *i; rerase(t, i);
      typename Ref::iterator j = ref[t].begin(); for (size_t n=0; (n<pos)&&(j != ref[t].end()); n++) ++j;
      rinsert(t, j, p);
      noteReorder(t); if (KIND != 0) sortedExpected[t] = false;
   }
   size_t rindex(int t, const K & k) {size_t n = 0; for (typename Ref::iterator i = ref[t].begin(); i != ref[t].end(); ++i, ++n) if (i->first == k) return n; return n;}
   void rclear(int t) {ref[t].clear(); rmap[t].clear(); noteDetach(t); sortedExpected[t] = true;}

   std::string kv(const K & k, int v) const {return KT::render(k) + ":" + u64s((uint64_t)(uint32_t)v);}

   // ------------------------------------------------------------------ the direct oracle on one table
   void checkTable(int t, bool force)
   {
      const uint32 n = tab[t]->GetNumItems();
      if ((!force)&&(n > 64)&&((opCount % 16) != 0)) return;
      std::vector<Pair> fwd, bwd;
      for (HashtableIterator<K,int,typename KT::HF> i(*tab[t], HTIT_FLAG_NOREGISTER); i.HasData(); i++) {fwd.push_back(Pair(i.GetKey(), i.GetValue())); if (fwd.size() > (size_t)n+2) break;}
      for (HashtableIterator<K,int,typename KT::HF> i(*tab[t], HTIT_FLAG_NOREGISTER|HTIT_FLAG_BACKWARDS); i.HasData(); i++) {bwd.push_back(Pair(i.GetKey(), i.GetValue())); if (bwd.size() > (size_t)n+2) break;}
      if (fwd.size() != n) oracleFail("GetNumItems() = " + u64s(n) + " but a forward traversal yields " + u64s(fwd.size()) + " entries");
      std::vector<Pair> rb(bwd.rbegin(), bwd.rend());
      if (rb != fwd) oracleFail("backward traversal is not the reverse of the forward traversal (table " + u64s(t) + ")");
      if (fwd.size() != ref[t].size()) {oracleFail("table " + u64s(t) + " holds " + u64s(fwd.size()) + " entries, the ideal map " + u64s(ref[t].size())); return;}
      if (KIND == 0)
      {
         size_t idx = 0;
         for (typename Ref::iterator i = ref[t].begin(); i != ref[t].end(); ++i, ++idx)
            if ((!(fwd[idx].first == i->first))||(fwd[idx].second != i->second)) {oracleFail("table " + u64s(t) + " position " + u64s(idx) + ": has " + kv(fwd[idx].first, fwd[idx].second) + ", ideal ordered map has " + kv(i->first, i->second)); break;}
      }
      else
      {
         std::vector<Pair> a(fwd), b(ref[t].begin(), ref[t].end());
         std::sort(a.begin(), a.end(), ltByKey); std::sort(b.begin(), b.end(), ltByKey);
         if (a != b) oracleFail("ordered table " + u64s(t) + " does not hold the pairs of the ideal map");
         if (sortedExpected[t]) for (size_t i=1; i<fwd.size(); i++) if (ltEntry(fwd[i], fwd[i-1])) {oracleFail("auto-sorting table " + u64s(t) + " is out of order at position " + u64s(i) + ": " + kv(fwd[i-1].first, fwd[i-1].second) + " before " + kv(fwd[i].first, fwd[i].second)); break;}
      }
      const K * fk = tab[t]->GetFirstKey(); const K * lk = tab[t]->GetLastKey();
      if ((fk != NULL) != (n > 0)) oracleFail("GetFirstKey() disagrees with GetNumItems()");
      if ((n > 0)&&(fk)&&(lk)&&((!(*fk == fwd[0].first))||(!(*lk == fwd[n-1].first)))) oracleFail("GetFirstKey()/GetLastKey() are not the ends of the traversal");
   }

   // an iterator was created / moved: what it shows now
   std::string shown(int i, bool advanced)
   {
      IterT & x = *it[i];
      Book & b = book[i];
      if (!x.HasData())
      {
         if ((advanced)&&(b.strict)&&(b.owner >= 0))
            for (typename KSet::iterator k = b.throughout.begin(); k != b.throughout.end(); ++k)
               if (b.visited.count(*k) == 0) {oracleFail("iterator " + u64s(i) + " reached the end without visiting key " + KT::render(*k) + " which was present throughout"); break;}
         return "end";
      }
      const K & k = x.GetKey(); const int v = x.GetValue();
      if (advanced)
      {
         if (b.owner < 0) oracleFail("iterator " + u64s(i) + " still has data after its table was cleared and it was advanced");
         else
         {
            const int * tv = tab[b.owner]->Get(k);
            if (tv == NULL) oracleFail("iterator " + u64s(i) + " was advanced onto key " + KT::render(k) + " which is not in its table");
            else if (*tv != v) oracleFail("iterator " + u64s(i) + " shows a stale value for key " + KT::render(k));
         }
         if (b.strict)
         {
            if (b.visited.count(k)) oracleFail("iterator " + u64s(i) + " visits key " + KT::render(k) + " twice although nothing reordered its table");
            b.visited.insert(k);
         }
      }
      return kv(k, v);
   }
   void openBook(int i, int t, bool whole)
   {
      Book & b = book[i];
      b.owner = t; b.strict = whole; b.visited.clear(); b.throughout.clear(); b.removedSince.clear();
      if ((whole)&&(ref[t].size() <= 2048)) {for (typename Ref::iterator j = ref[t].begin(); j != ref[t].end(); ++j) b.throughout.insert(j->first);}
      else b.strict = false;
      if ((it[i])&&(it[i]->HasData())) b.visited.insert(it[i]->GetKey());
   }

   // ------------------------------------------------------------------ argument resolution (alias mode)
   // 0 = ok, 1 = the reference names nothing, 2 = malformed
   int refEntry(int t, const std::string & tok, const K * & pk, const int * & pv)
   {
      pk = NULL; pv = NULL;
      if (tok == "@f") {pk = tab[t]->GetFirstKey(); pv = tab[t]->GetFirstValue(); return pk ? 0 : 1;}
      if (tok == "@l") {pk = tab[t]->GetLastKey();  pv = tab[t]->GetLastValue();  return pk ? 0 : 1;}
      if (tok.compare(0, 2, "@a") == 0)
      {
         uint64_t idx; if (!toU64(tok.substr(2), idx)) return 2;
         if (idx > 0xFFFFFFFFULL) return 1;
         pk = tab[t]->GetKeyAt((uint32)idx); pv = tab[t]->GetValueAt((uint32)idx); return pk ? 0 : 1;
      }
      if (tok.compare(0, 2, "@i") == 0)
      {
         uint64_t i; if ((!toU64(tok.substr(2), i))||(i >= 4)) return 2;
         if ((it[i] == NULL)||(!it[i]->HasData())) return 1;
         pk = &it[i]->GetKey(); pv = &it[i]->GetValue(); return 0;
      }
      return 2;
   }
   int keyArg(int t, const std::string & tok, const K * & pk, K & store)
   {
      if ((!tok.empty())&&(tok[0] == '@')) {const int * pv; return refEntry(t, tok, pk, pv);}
      if (!KT::parse(tok, store)) return 2;
      pk = &store; return 0;
   }
   int valArg(int t, const std::string & tok, const int * & pv, int & store)
   {
      if ((!tok.empty())&&(tok[0] == '@')) {const K * pk; return refEntry(t, tok, pk, pv);}
      uint64_t v; if ((!toU64(tok, v))||(v >= 0x80000000ULL)||(tok.size() > 10)) return 2;
      store = (int)v; pv = &store; return 0;
   }
   static bool tabArg(const std::string & s, int & t) {if (s == "0") {t = 0; return true;} if (s == "1") {t = 1; return true;} return false;}
   static bool slotArg(const std::string & s, int & i) {if ((s.size() == 1)&&(s[0] >= '0')&&(s[0] <= '3')) {i = s[0]-'0'; return true;} return false;}
   static bool boolArg(const std::string & s, bool & b) {if (s == "0") {b = false; return true;} if (s == "1") {b = true; return true;} return false;}
   static bool natArg(const std::string & s, uint32 & n) {uint64_t v; if ((!toU64(s, v))||(v > 0xFFFFFFFFULL)||(s.size() > 10)) return false; n = (uint32)v; return true;}

   template<class T> static bool doAutoSort(T & t, bool en, bool now, std::true_type) {t.SetAutoSortEnabled(en, now); return true;}
   template<class T> static bool doAutoSort(T &, bool, bool, std::false_type) {return false;}
   template<class T> static int doReposition(T & t, const K & k, std::true_type) {return t.Reposition(k).IsOK() ? 1 : 0;}
   template<class T> static int doReposition(T &, const K &, std::false_type) {return -1;}

   static const char * okErr(const status_t & s) {return s.IsOK() ? "ok" : "err";}

   // ------------------------------------------------------------------ one op
   virtual std::string step(const std::vector<std::string> & a)
   {
      opCount++;
      const bool quiet = zeroCap(0)||zeroCap(1);
      int saved = -1;
      if (quiet) {fflush(stdout); saved = dup(1); const int dn = open("/dev/null", O_WRONLY); if (dn >= 0) {dup2(dn, 1); close(dn);}}
      const std::string r = step2(a);
      if (saved >= 0) {fflush(stdout); dup2(saved, 1); close(saved);}
      checkTable(0, false); checkTable(1, false);
      return r;
   }

   #define NEED(n) if (a.size() != (n)) return "bad-op"
   #define TAB(i) int t; if (!tabArg(a[i], t)) return "bad-op"; TableT & T = *tab[t]; (void) T
   #define KEY(i, pk) const K * pk = NULL; K pk##_store = K(); {const int rc = keyArg(t, a[i], pk, pk##_store); if (rc == 2) return "bad-op"; if (rc == 1) noref = true;}
   #define VAL(i, pv) const int * pv = NULL; int pv##_store = 0; {const int rc = valArg(t, a[i], pv, pv##_store); if (rc == 2) return "bad-op"; if (rc == 1) noref = true;}
   #define NOREF if (noref) return "noref"

   void expect(bool cond, const std::string & what) {if (!cond) oracleFail(what);}

   // a put-family call must succeed on an ideal map; returns true if it did
   bool putOK(int t, bool ok, const char * what)
   {
      if (ok) return true;
      if (tab[t]->GetNumAllocatedItemSlots() == 0) oracleFail(std::string(what) + " failed (out of memory) on table " + u64s(t) + " which has no slots allocated (GetNumAllocatedItemSlots()==0: moved-from, swapped with a moved-from table, or PreallocatedItemSlotsCount(0)); an ideal map accepts the pair");
                                              else oracleFail(std::string(what) + " failed on table " + u64s(t));
      return false;
   }
   bool isSortedNow(int t)
   {
      bool first = true; Pair prev;
      for (HashtableIterator<K,int,typename KT::HF> i(*tab[t], HTIT_FLAG_NOREGISTER); i.HasData(); i++)
      {
         const Pair cur(i.GetKey(), i.GetValue());
         if ((!first)&&(ltEntry(cur, prev))) return false;
         prev = cur; first = false;
      }
      return true;
   }
   // R3: with auto-sort disabled a Put() on an existing key must leave the pair where it is
   int32 idxIfUnsortedUpdate(int t, const K & k, bool had) {return ((KIND != 0)&&(!autoRef[t])&&(had)) ? tab[t]->IndexOfKey(k) : -2;}
   void checkNotMoved(int t, const K & k, int32 before, const char * what)
   {
      if ((before >= 0)&&(tab[t]->IndexOfKey(k) != before)) oracleFail(std::string(what) + " moved the existing key " + KT::render(k) + " from position " + u64s((uint32_t)before) + " to " + u64s((uint32_t)tab[t]->IndexOfKey(k)) + " although auto-sort is disabled (SetAutoSortEnabled(false)) on table " + u64s(t));
   }

   std::string step2(const std::vector<std::string> & a)
   {
      if (a.empty()) return "bad-op";
      const std::string & op = a[0];
      bool noref = false;

      if ((op == "put")||(op == "putp")||(op == "pag")||(op == "gop")||(op == "pinp")||(op == "por")||(op == "pfront")||(op == "pback"))
      {
         NEED(4); TAB(1); KEY(2, pk); VAL(3, pv); NOREF;
         const K k = *pk; const int v = *pv;   // by-value copies for the reference model only
         const bool had = rhas(t, k);
         const int32 ib = idxIfUnsortedUpdate(t, k, had);
         if (op == "put")  {const status_t s = T.Put(*pk, *pv); if (!putOK(t, s.IsOK(), "Put()")) return "err"; checkNotMoved(t, k, ib, "Put()"); rput(t, k, v); return okErr(s);}
         if (op == "putp")
         {
            int old = -1; bool replaced = false;
            const int refOld = had ? rfind(t, k)->second : -1;
            const status_t s = T.Put(*pk, *pv, old, &replaced);
            if (!putOK(t, s.IsOK(), "Put()")) return std::string("err") + (replaced ? " old" : " new");
            checkNotMoved(t, k, ib, "Put()");
            rput(t, k, v);
            expect(replaced == had, "Put(): replaced flag is wrong");
            if (replaced) expect(old == refOld, "Put(): previous value is wrong");
            return std::string(okErr(s)) + (replaced ? (" old=" + u64s((uint32_t)old)) : std::string(" new"));
         }
         if (op == "pag")  {const int * p = T.PutAndGet(*pk, *pv); if (!putOK(t, p != NULL, "PutAndGet()")) return "err"; checkNotMoved(t, k, ib, "PutAndGet()"); rput(t, k, v); return "ok " + u64s((uint32_t)*p);}
         if (op == "gop")
         {
            const int refOld = had ? rfind(t, k)->second : v;
            const int * p = T.GetOrPut(*pk, *pv);
            if (!putOK(t, p != NULL, "GetOrPut()")) return "err";
            if (!had) rput(t, k, v);
            if (p) expect(*p == refOld, "GetOrPut(): wrong value");
            return p ? ("ok " + u64s((uint32_t)*p)) : std::string("err");
         }
         if (op == "pinp")
         {
            const int * p = T.PutIfNotAlreadyPresent(*pk, *pv);
            if ((!had)&&(!putOK(t, p != NULL, "PutIfNotAlreadyPresent()"))) return "null";
            if (!had) rput(t, k, v);
            expect((p == NULL) == had, "PutIfNotAlreadyPresent(): result disagrees with the ideal map");
            return p ? ("ok " + u64s((uint32_t)*p)) : std::string("null");
         }
         if (op == "por")
         {
            const status_t s = T.PutOrRemove(*pk, *pv);
            if (!putOK(t, s.IsOK(), "PutOrRemove()")) return "err";
            if (v != 0) checkNotMoved(t, k, ib, "PutOrRemove()");
            if (v == 0) rremove(t, k); else rput(t, k, v);
            return okErr(s);
         }
         if (op == "pfront") {const status_t s = T.PutAtFront(*pk, *pv); if (!putOK(t, s.IsOK(), "PutAtFront()")) return "err"; rput(t, k, v); if ((had)||(KIND != 0)) rmoveTo(t, k, 0); else {rremove2(t, k); rinsert(t, ref[t].begin(), Pair(k, v));} return okErr(s);}
         /* pback */         {const status_t s = T.PutAtBack(*pk, *pv);  if (!putOK(t, s.IsOK(), "PutAtBack()")) return "err"; rput(t, k, v); if ((had)||(KIND != 0)) rmoveTo(t, k, ref[t].size()); return okErr(s);}
      }
      if (op == "putd")
      {
         NEED(3); TAB(1); KEY(2, pk); NOREF;
         const K k = *pk;
         const int32 ib = idxIfUnsortedUpdate(t, k, rhas(t, k));
         const status_t s = T.PutWithDefault(*pk); if (!putOK(t, s.IsOK(), "PutWithDefault()")) return "err"; checkNotMoved(t, k, ib, "PutWithDefault()"); rput(t, k, 0); return okErr(s);
      }
      if ((op == "pbefore")||(op == "pbehind"))
      {
         NEED(5); TAB(1); KEY(2, pk); KEY(3, pk2); VAL(4, pv); NOREF;
         const K k = *pk; const K k2 = *pk2; const int v = *pv;
         const bool had = rhas(t, k);
         const status_t s = (op == "pbefore") ? T.PutBefore(*pk, *pk2, *pv) : T.PutBehind(*pk, *pk2, *pv);
         if (!putOK(t, s.IsOK(), "PutBefore()/PutBehind()")) return "err";
         rput(t, k, v);
         if ((rhas(t, k2))&&(!(k == k2)))
         {
            // unlink k, relink next to k2
            typename Ref::iterator i = rfind(t, k); const Pair p = *i; rerase(t, i);
            typename Ref::iterator j = rfind(t, k2); if (op == "pbehind") ++j;
            rinsert(t, j, p);
            if ((had)||(KIND != 0)) noteReorder(t);
            if (KIND != 0) sortedExpected[t] = false;
         }
         return okErr(s);
      }
      if (op == "ppos")
      {
         NEED(5); TAB(1); KEY(2, pk); uint32 pos; if (!natArg(a[3], pos)) return "bad-op"; VAL(4, pv); NOREF;
         const K k = *pk; const int v = *pv;
         const bool had = rhas(t, k);
         const status_t s = T.PutAtPosition(*pk, pos, *pv);
         if (!putOK(t, s.IsOK(), "PutAtPosition()")) return "err";
         rput(t, k, v);
         {
            typename Ref::iterator i = rfind(t, k); const Pair p = *i; rerase(t, i);
            typename Ref::iterator j = ref[t].begin(); for (uint32 n=0; (n<pos)&&(j != ref[t].end()); n++) ++j;
            rinsert(t, j, p);
            if ((had)||(KIND != 0)) noteReorder(t);
            if (KIND != 0) sortedExpected[t] = false;
         }
         return okErr(s);
      }
      if ((op == "get")||(op == "getd")||(op == "has")||(op == "idx")||(op == "kbefore")||(op == "kafter"))
      {
         NEED(3); TAB(1); KEY(2, pk); NOREF;
         typename Ref::iterator ri = rfind(t, *pk);
         const bool had = (ri != ref[t].end());
         if (op == "get")  {const int * p = T.Get(*pk); expect((p != NULL) == had, "Get(): presence disagrees with the ideal map"); if ((p)&&(had)) expect(*p == ri->second, "Get(): value disagrees with the ideal map"); int v2 = -7; const status_t s = T.Get(*pk, v2); expect(s.IsOK() == (p != NULL), "Get(key, ret) disagrees with Get(key)"); if (p) expect(v2 == *p, "Get(key, ret) value"); return p ? ("ok " + u64s((uint32_t)*p)) : std::string("none");}
         if (op == "getd") {const int v = T.GetWithDefault(*pk); expect(v == (had ? ri->second : 0), "GetWithDefault(): wrong value"); expect(T[*pk] == v, "operator[] disagrees with GetWithDefault"); return u64s((uint32_t)v);}
         if (op == "has")  {const bool b = T.ContainsKey(*pk); expect(b == had, "ContainsKey() disagrees with the ideal map"); return b ? "true" : "false";}
         if (op == "idx")  {const int32 i = T.IndexOfKey(*pk); if (KIND == 0) expect(i == (had ? (int32)rindex(t, *pk) : -1), "IndexOfKey() disagrees with the ideal map"); return (i >= 0) ? u64s((uint32_t)i) : std::string("-1");}
         const K * r = (op == "kbefore") ? T.GetKeyBefore(*pk) : T.GetKeyAfter(*pk);
         if (KIND == 0)
         {
            const K * want = NULL;
            if (had) {if (op == "kbefore") {if (ri != ref[t].begin()) {typename Ref::iterator p = ri; --p; want = &p->first;}} else {typename Ref::iterator p = ri; ++p; if (p != ref[t].end()) want = &p->first;}}
            expect(((r != NULL) == (want != NULL))&&((r == NULL)||(*r == *want)), "GetKeyBefore()/GetKeyAfter() disagree with the ideal map");
         }
         return r ? ("ok " + KT::render(*r)) : std::string("none");
      }
      if (op == "hasv")
      {
         NEED(3); TAB(1); VAL(2, pv); NOREF;
         bool want = false; for (typename Ref::iterator i = ref[t].begin(); i != ref[t].end(); ++i) if (i->second == *pv) want = true;
         const bool b = T.ContainsValue(*pv); expect(b == want, "ContainsValue() disagrees with the ideal map");
         return b ? "true" : "false";
      }
      if (op == "idxv")
      {
         NEED(4); TAB(1); VAL(2, pv); bool back; if (!boolArg(a[3], back)) return "bad-op"; NOREF;
         const int32 i = T.IndexOfValue(*pv, back);
         return (i >= 0) ? u64s((uint32_t)i) : std::string("-1");
      }
      if ((op == "keyat")||(op == "valat"))
      {
         NEED(3); TAB(1); uint32 idx; if (!natArg(a[2], idx)) return "bad-op";
         if (op == "keyat") {const K * k = T.GetKeyAt(idx); expect((k != NULL) == (idx < ref[t].size()), "GetKeyAt(): validity"); return k ? ("ok " + KT::render(*k)) : std::string("none");}
         const int * v = T.GetValueAt(idx); return v ? ("ok " + u64s((uint32_t)*v)) : std::string("none");
      }
      if ((op == "first")||(op == "last"))
      {
         NEED(2); TAB(1);
         const K * k = (op == "first") ? T.GetFirstKey() : T.GetLastKey();
         const int * v = (op == "first") ? T.GetFirstValue() : T.GetLastValue();
         if ((k == NULL)||(v == NULL)) return "none";
         return "ok " + kv(*k, *v);
      }
      if ((op == "rem")||(op == "remv")||(op == "remd"))
      {
         NEED(3); TAB(1); KEY(2, pk); NOREF;
         const K k = *pk;
         typename Ref::iterator ri = rfind(t, k); const bool had = (ri != ref[t].end()); const int refV = had ? ri->second : 0;
         std::string out;
         if (op == "rem")  {const status_t s = T.Remove(*pk); expect(s.IsOK() == had, "Remove(): status disagrees with the ideal map"); out = okErr(s);}
         if (op == "remv") {int v = -1; const status_t s = T.Remove(*pk, v); expect(s.IsOK() == had, "Remove(key, ret): status"); if (s.IsOK()) expect(v == refV, "Remove(key, ret): value"); out = s.IsOK() ? ("ok " + u64s((uint32_t)v)) : std::string("err");}
         if (op == "remd") {const int v = T.RemoveWithDefault(*pk); expect(v == refV, "RemoveWithDefault(): value"); out = u64s((uint32_t)v);}
         rremove(t, k);
         return out;
      }
      if ((op == "remf")||(op == "reml"))
      {
         NEED(2); TAB(1);
         K k = K(); int v = -1;
         const status_t s = (op == "remf") ? T.RemoveFirst(k, v) : T.RemoveLast(k, v);
         expect(s.IsOK() == (!ref[t].empty()), "RemoveFirst()/RemoveLast(): status");
         if (s.IsError()) return "err";
         if (KIND == 0) {const Pair & w = (op == "remf") ? ref[t].front() : ref[t].back(); expect((w.first == k)&&(w.second == v), "RemoveFirst()/RemoveLast() removed the wrong entry");}
         rremove(t, k);
         return "ok " + kv(k, v);
      }
      if ((op == "remt")||(op == "isect"))
      {
         NEED(2); TAB(1);
         const uint32 n = (op == "remt") ? T.Remove(*tab[1-t]) : T.Intersect(*tab[1-t]);
         std::vector<K> gone;
         for (typename Ref::iterator i = ref[t].begin(); i != ref[t].end(); ++i) if (rhas(1-t, i->first) == (op == "remt")) gone.push_back(i->first);
         for (size_t i=0; i<gone.size(); i++) rremove(t, gone[i]);
         expect(n == gone.size(), "Remove(table)/Intersect(table): count disagrees with the ideal map");
         return u64s(n);
      }
      if (op == "clear")
      {
         NEED(3); TAB(1); bool rel; if (!boolArg(a[2], rel)) return "bad-op";
         T.Clear(rel); rclear(t); return "ok";
      }
      if ((op == "mfront")||(op == "mback")||(op == "gmf")||(op == "gmb"))
      {
         NEED(3); TAB(1); KEY(2, pk); NOREF;
         const K k = *pk; const bool had = rhas(t, k);
         std::string out;
         if (op == "mfront") {const status_t s = T.MoveToFront(*pk); expect(s.IsOK() == had, "MoveToFront(): status"); out = okErr(s);}
         if (op == "mback")  {const status_t s = T.MoveToBack(*pk);  expect(s.IsOK() == had, "MoveToBack(): status");  out = okErr(s);}
         if (op == "gmf")    {const int * p = T.GetAndMoveToFront(*pk); expect((p != NULL) == had, "GetAndMoveToFront(): presence"); out = p ? ("ok " + u64s((uint32_t)*p)) : std::string("none");}
         if (op == "gmb")    {const int * p = T.GetAndMoveToBack(*pk);  expect((p != NULL) == had, "GetAndMoveToBack(): presence");  out = p ? ("ok " + u64s((uint32_t)*p)) : std::string("none");}
         if (had) rmoveTo(t, k, ((op == "mfront")||(op == "gmf")) ? 0 : ref[t].size());
         return out;
      }
      if ((op == "mbefore")||(op == "mbehind"))
      {
         NEED(4); TAB(1); KEY(2, pk); KEY(3, pk2); NOREF;
         const K k = *pk; const K k2 = *pk2;
         const bool good = rhas(t, k)&&rhas(t, k2)&&(!(k == k2));
         const status_t s = (op == "mbefore") ? T.MoveToBefore(*pk, *pk2) : T.MoveToBehind(*pk, *pk2);
         expect(s.IsOK() == good, "MoveToBefore()/MoveToBehind(): status");
         if (good)
         {
            typename Ref::iterator i = rfind(t, k); const Pair p = *i; rerase(t, i);
            typename Ref::iterator j = rfind(t, k2); if (op == "mbehind") ++j;
            rinsert(t, j, p);
            noteReorder(t); if (KIND != 0) sortedExpected[t] = false;
         }
         return okErr(s);
      }
      if (op == "mpos")
      {
         NEED(4); TAB(1); KEY(2, pk); uint32 pos; if (!natArg(a[3], pos)) return "bad-op"; NOREF;
         const K k = *pk; const bool had = rhas(t, k);
         const status_t s = T.MoveToPosition(*pk, pos);
         expect(s.IsOK() == had, "MoveToPosition(): status");
         if (had) rmoveTo(t, k, pos);
         return okErr(s);
      }
      if ((op == "sortk")||(op == "sortv")||(op == "sort"))
      {
         NEED(2); TAB(1);
         if (op == "sortk") {T.SortByKey();   ref[t].sort(ltByKey); if (KIND == 2) sortedExpected[t] = false; if (KIND == 1) sortedExpected[t] = true;}
         if (op == "sortv") {T.SortByValue(); ref[t].sort(ltByVal); if (KIND == 1) sortedExpected[t] = false; if (KIND == 2) sortedExpected[t] = true;}
         if (op == "sort")  {T.Sort(); if (KIND != 0) {ref[t].sort(ltEntry); sortedExpected[t] = true;}}
         if ((op != "sort")||(KIND != 0)) noteReorder(t);
         return "ok";
      }
      if (op == "autosort")
      {
         NEED(4); TAB(1); bool en, now; if ((!boolArg(a[2], en))||(!boolArg(a[3], now))) return "bad-op";
         if (!doAutoSort(T, en, now, IsOrd())) return "bad-op";
         if (en != autoRef[t]) {autoRef[t] = en; if ((en)&&(now)) {ref[t].sort(ltEntry); sortedExpected[t] = true; noteReorder(t);}}
         return "ok";
      }
      if (op == "repos")
      {
         NEED(3); if (KIND == 0) return "bad-op"; TAB(1); KEY(2, pk); NOREF;
         const int rc = doReposition(T, *pk, IsOrd());
         noteReorder(t);
         return (rc < 0) ? "bad-op" : (rc ? "ok" : "err");
      }
      if (op == "ensure")
      {
         NEED(4); TAB(1); uint32 n; bool sh; if ((!natArg(a[2], n))||(!boolArg(a[3], sh))) return "bad-op";
         if ((n > 1000000)&&(n != MUSCLE_NO_LIMIT)) return "bad-op";
         return okErr(T.EnsureSize(n, sh));
      }
      if (op == "shrink")
      {
         NEED(3); TAB(1); uint32 n; if ((!natArg(a[2], n))||(n > 1000000)) return "bad-op";
         return okErr(T.ShrinkToFit(n));
      }
      if ((op == "copy")||(op == "putall"))
      {
         NEED(2); TAB(1);
         status_t s;
         if (op == "copy") {T = *tab[1-t]; rclear(t);}
                      else s = T.Put(*tab[1-t]);
         if (!ref[1-t].empty())
         {
            for (typename Ref::iterator i = ref[1-t].begin(); i != ref[1-t].end(); ++i)
            {
               typename Ref::iterator j = rfind(t, i->first);
               if (j != ref[t].end()) j->second = i->second; else {noteInsert(t, i->first); rinsert(t, ref[t].end(), *i);}
            }
            if (KIND != 0) {ref[t].sort(ltEntry); sortedExpected[t] = true; noteReorder(t);}
         }
         return okErr(s);
      }
      if (op == "cctor")
      {
         NEED(2); TAB(1);
         TableT copy(T);
         if (KIND == 0) expect(copy.IsEqualTo(T, true), "a copy-constructed table differs from its source");
         else           expect(copy.IsEqualTo(T, false), "a copy-constructed table differs from its source");
         return dump(copy);
      }
      if (op == "massign")
      {
         NEED(2); TAB(1);
         T = std::move(*tab[1-t]);    // documented as a swap of the contents (and iterators)
         ref[0].swap(ref[1]); rmap[0].swap(rmap[1]); std::swap(sortedExpected[0], sortedExpected[1]);
         for (int i=0; i<4; i++) if (book[i].owner >= 0) book[i].owner = 1-book[i].owner;
         return "ok";
      }
      if (op == "movector")
      {
         NEED(2); TAB(1);
         TableT * fresh = new TableT(std::move(T));   // T is left as the source of a move: empty, no slots
         delete tab[1-t]; rclear(1-t);
         tab[1-t] = fresh; autoRef[1-t] = true;
         ref[1-t].swap(ref[t]); rmap[1-t].swap(rmap[t]); sortedExpected[1-t] = sortedExpected[t]; sortedExpected[t] = true;
         for (int i=0; i<4; i++) if (book[i].owner == t) book[i].owner = 1-t;
         expect(T.IsEmpty(), "a moved-from table is not empty");
         return "ok";
      }
      if (op == "mkpre")
      {
         NEED(3); TAB(1); uint32 n; if ((!natArg(a[2], n))||(n > 1000000)) return "bad-op";
         delete tab[t]; tab[t] = new TableT(PreallocatedItemSlotsCount(n)); rclear(t); autoRef[t] = true;
         return "ok";
      }
      if (op == "ecp")
      {
         NEED(3); TAB(1); uint32 n; if (!natArg(a[2], n)) return "bad-op";
         if ((n > 1000000)&&(n != MUSCLE_NO_LIMIT)) return "bad-op";
         return okErr(T.EnsureCanPut(n));
      }
      if (op == "setv")
      {
         NEED(4); TAB(1); KEY(2, pk); VAL(3, pv); NOREF;
         const int v = *pv;
         int * p = T.Get(*pk);
         typename Ref::iterator ri = rfind(t, *pk);
         expect((p != NULL) == (ri != ref[t].end()), "Get(): presence disagrees with the ideal map");
         if (p == NULL) return "none";
         *p = v; if (ri != ref[t].end()) ri->second = v;
         if (KIND == 2) sortedExpected[t] = false;
         return "ok";
      }
      if (op == "swt")
      {
         NEED(3); TAB(1); KEY(2, pk); NOREF;
         const K k = *pk;
         typename Ref::iterator ra = rfind(t, k), rb = rfind(1-t, k);
         const bool ha = (ra != ref[t].end()), hb = (rb != ref[1-t].end());
         const int va = ha ? ra->second : 0, vb = hb ? rb->second : 0;
         const bool wasSorted[2] = {sortedExpected[0]&&autoRef[0], sortedExpected[1]&&autoRef[1]};
         const status_t s = T.SwapWithTable(*pk, *tab[1-t]);
         if ((!ha)&&(!hb)) {expect(s.IsError(), "SwapWithTable(): status for a key in neither table"); return okErr(s);}
         if ((ha)&&(hb))
         {
            expect(s.IsOK(), "SwapWithTable(): status");
            ra->second = vb; rb->second = va;
            if (KIND != 0) {noteReorder(0); noteReorder(1);}
            if (KIND == 2) for (int x=0; x<2; x++) if (!autoRef[x]) sortedExpected[x] = false;   // auto-sort off: the pair stays where it is
            if (KIND == 2) for (int x=0; x<2; x++) if ((wasSorted[x])&&(!isSortedNow(x)))
            {
               oracleFail("SwapWithTable(): auto-sorting table " + u64s(x) + " was sorted before the call and is out of order after it (the values were swapped in place, the entries not re-positioned)");
               sortedExpected[x] = false;
            }
            return okErr(s);
         }
         const int dst = ha ? (1-t) : t, src = ha ? t : (1-t);
         if (!putOK(dst, s.IsOK(), "SwapWithTable()")) return "err";
         rput(dst, k, ha ? va : vb); rremove(src, k);
         return okErr(s);
      }
      if (op == "swap")
      {
         NEED(1);
         tab[0]->SwapContents(*tab[1]);
         ref[0].swap(ref[1]); rmap[0].swap(rmap[1]); std::swap(sortedExpected[0], sortedExpected[1]);
         for (int i=0; i<4; i++) if (book[i].owner >= 0) book[i].owner = 1-book[i].owner;
         return "ok";
      }
      if (op == "eq")
      {
         NEED(2); bool ord; if (!boolArg(a[1], ord)) return "bad-op";
         const bool b = tab[0]->IsEqualTo(*tab[1], ord);
         bool want;
         if (ord) want = (ref[0] == ref[1]);
         else {std::vector<Pair> x(ref[0].begin(), ref[0].end()), y(ref[1].begin(), ref[1].end()); std::sort(x.begin(), x.end(), ltByKey); std::sort(y.begin(), y.end(), ltByKey); want = (x == y);}
         if ((KIND == 0)||(!ord)) expect(b == want, "IsEqualTo() disagrees with the ideal maps");
         expect((*tab[0] == *tab[1]) == tab[0]->IsEqualTo(*tab[1], false), "operator== disagrees with IsEqualTo");
         return b ? "true" : "false";
      }
      if ((op == "mtt")||(op == "ctt"))
      {
         NEED(3); TAB(1); KEY(2, pk); NOREF;
         const K k = *pk; typename Ref::iterator ri = rfind(t, k); const bool had = (ri != ref[t].end()); const int v = had ? ri->second : 0;
         const status_t s = (op == "mtt") ? T.MoveToTable(*pk, *tab[1-t]) : T.CopyToTable(*pk, *tab[1-t]);
         if ((had)&&(!putOK(1-t, s.IsOK(), "MoveToTable()/CopyToTable()"))) return "err";
         expect(s.IsOK() == had, "MoveToTable()/CopyToTable(): status");
         if (had) {rput(1-t, k, v); if (op == "mtt") rremove(t, k);}
         return okErr(s);
      }
      if (op == "destroy")
      {
         NEED(2); TAB(1);
         delete tab[t]; tab[t] = new TableT; rclear(t); autoRef[t] = true; return "ok";
      }
      if (op == "n")    {NEED(2); TAB(1); expect(T.GetNumItems() == ref[t].size(), "GetNumItems() disagrees with the ideal map"); expect(T.IsEmpty() == ref[t].empty(), "IsEmpty()"); return u64s(T.GetNumItems());}
      if (op == "dump") {NEED(2); TAB(1); checkTable(t, true); return dump(T);}

      // ---- iterators
      if (op == "itnew")
      {
         NEED(4); int i; if (!slotArg(a[1], i)) return "bad-op"; TAB(2); bool back; if (!boolArg(a[3], back)) return "bad-op";
         delete it[i]; it[i] = NULL;
         it[i] = new IterT(T, back ? HTIT_FLAG_BACKWARDS : 0);
         openBook(i, t, true);
         return shown(i, false);
      }
      if (op == "itat")
      {
         NEED(5); int i; if (!slotArg(a[1], i)) return "bad-op"; TAB(2); KEY(3, pk); bool back; if (!boolArg(a[4], back)) return "bad-op"; NOREF;
         IterT * fresh = new IterT(T.GetIteratorAt(*pk, back ? HTIT_FLAG_BACKWARDS : 0));   // the key may be a reference into the old iterator: build first, delete afterwards
         delete it[i]; it[i] = fresh;
         openBook(i, t, false);
         return shown(i, false);
      }
      if ((op == "itnext")||(op == "itprev")||(op == "itpeek")||(op == "itdrop"))
      {
         NEED(2); int i; if (!slotArg(a[1], i)) return "bad-op";
         if (it[i] == NULL) return "noit";
         if (op == "itnext") {(*it[i])++; return shown(i, true);}
         if (op == "itprev") {book[i].strict = false; (*it[i])--; return shown(i, false);}
         if (op == "itpeek") return shown(i, false);
         delete it[i]; it[i] = NULL; book[i].owner = -1; book[i].strict = false; return "ok";
      }
      if (op == "itback")
      {
         NEED(3); int i; bool b; if ((!slotArg(a[1], i))||(!boolArg(a[2], b))) return "bad-op";
         if (it[i] == NULL) return "noit";
         if (it[i]->IsBackwards() != b) book[i].strict = false;
         it[i]->SetBackwards(b); return "ok";
      }
      if (op == "itcopy")
      {
         NEED(3); int i, j; if ((!slotArg(a[1], i))||(!slotArg(a[2], j))) return "bad-op";
         if (it[i] == NULL) return "noit";
         if (it[j] == NULL) it[j] = new IterT(*it[i]); else *it[j] = *it[i];
         if (i != j) {book[j] = book[i]; book[j].strict = false;}
         return "ok";
      }
      return "bad-op";
   }

   // a new key was put at the front of a plain table: the reference appended it, take it back out
   void rremove2(int t, const K & k) {typename Ref::iterator i = rfind(t, k); if (i != ref[t].end()) rerase(t, i);}

   std::string dump(const TableT & T) const
   {
      std::string s = "n=" + u64s(T.GetNumItems());
      uint32 guard = T.GetNumItems()+2;
      for (ConstHashtableIterator<K,int,typename KT::HF> i(T, HTIT_FLAG_NOREGISTER); (i.HasData())&&(guard > 0); i++, guard--) {s += " "; s += kv(i.GetKey(), i.GetValue());}
      return s;
   }
};

static void onWatchdog(int) {static const char m[] = "\nTIMEOUT: a Hashtable operation did not return within 20 s (endless traversal?)\n"; (void) !write(2, m, sizeof(m)-1); _exit(97);}

struct HtEngine : public Engine
{
   IWorld * w;
   HtEngine() : w(NULL) {signal(SIGALRM, onWatchdog);}

   virtual void reset() {delete w; w = NULL; g_hashMod = 0;}

   virtual std::string step(const std::vector<std::string> & a)
   {
      if (((a.size() == 4)||(a.size() == 5))&&(a[0] == "init"))
      {
         uint64_t hm, q = 0;
         if ((!toU64(a[3], hm))||(hm > 0xFFFFFFFFULL)) return "bad-op";
         if ((a.size() == 5)&&((!toU64(a[4], q))||(q >= 8))) return "bad-op";   // the model's behaviour switches; the real code has its own
         const std::string & k = a[1]; const std::string & kt = a[2];
         if (((k != "h")&&(k != "k")&&(k != "v"))||((kt != "u")&&(kt != "s"))) return "bad-op";
         delete w; w = NULL;
         g_hashMod = (uint32)hm;
         typedef CollidingHashFunctor CH;
         if (kt == "u")
         {
            if (k == "h") w = new WorldT<Hashtable<uint32,int,CH>, uint32, 0>;
            if (k == "k") w = new WorldT<OrderedKeysHashtable<uint32,int,CompareFunctor<uint32>,CH>, uint32, 1>;
            if (k == "v") w = new WorldT<OrderedValuesHashtable<uint32,int,CompareFunctor<int>,CH>, uint32, 2>;
         }
         else
         {
            if (k == "h") w = new WorldT<Hashtable<String,int>, String, 0>;
            if (k == "k") w = new WorldT<OrderedKeysHashtable<String,int>, String, 1>;
            if (k == "v") w = new WorldT<OrderedValuesHashtable<String,int>, String, 2>;
         }
         return "ok";
      }
      if (w == NULL) return "noinit";
      alarm(20);   // watchdog: a corrupted iteration list can make a traversal endless; a hang is a result, not an infinite run
      return w->step(a);
   }

   // ------------------------------------------------------------------ generator
   FILE * out;
   bool strKeys;
   uint32_t keyRange, keyBase;
   uint32_t quirks;     // which of the findings R1..R3 the code under test shows (probed once; goes onto every init line)
   char kindChar;
   static FILE * devnull() {static FILE * f = fopen("/dev/null", "w"); return f;}

   // bit0 (R1): a put into a table without slots fails for ever;  bit1 (R2): SwapWithTable() does not re-position;
   // bit2 (R3): Put() on an existing key re-positions although auto-sort is disabled
   static uint32_t probeQuirks()
   {
      fflush(stdout); const int saved = dup(1); {const int dn = open("/dev/null", O_WRONLY); if (dn >= 0) {dup2(dn, 1); close(dn);}}
      uint32_t q = 0;
      {Hashtable<int,int> z((PreallocatedItemSlotsCount(0))); if (z.Put(1,1).IsError()) q |= 1;}
      {OrderedValuesHashtable<int,int> x, y; (void) x.Put(1,10); (void) x.Put(2,20); (void) y.Put(1,90); (void) x.SwapWithTable(1, y); const int * f = x.GetFirstKey(); if ((f)&&(*f == 1)) q |= 2;}
      {OrderedValuesHashtable<int,int> x; x.SetAutoSortEnabled(false); (void) x.Put(1,50); (void) x.Put(2,60); (void) x.Put(1,99); const int * f = x.GetFirstKey(); if ((f)&&(*f != 1)) q |= 4;}
      fflush(stdout); dup2(saved, 1); close(saved);
      return q;
   }

   // While a finding is open its trigger inputs stay out of the random stream (they would hide other failures behind
   // a known one); they live in corpus/C09/*-known-*.ops.  As soon as the probe sees the repaired behaviour they are generated.
   bool isOpenTrigger(const std::vector<std::string> & a) const
   {
      if ((w == NULL)||(a.size() < 2)||(quirks == 0)) return false;
      const std::string & op = a[0];
      const int t = (a[1] == "1") ? 1 : 0;
      const bool putFam = (op == "put")||(op == "putp")||(op == "putd")||(op == "pag")||(op == "gop")||(op == "pinp")||(op == "por")||(op == "pfront")||(op == "pback")||(op == "pbefore")||(op == "pbehind")||(op == "ppos");
      if (quirks & 1)
      {
         if ((putFam)&&(w->zeroCap(t))) return true;
         if (((op == "mtt")||(op == "ctt"))&&(w->zeroCap(1-t))) return true;
         if ((op == "swt")&&((w->zeroCap(0))||(w->zeroCap(1)))) return true;
      }
      if ((quirks & 2)&&(op == "swt")&&(kindChar == 'v')&&(a.size() >= 3))
      {
         if (a[2][0] == '@') return true;
         if ((w->hasKeyTok(0, a[2]))&&(w->hasKeyTok(1, a[2]))) return true;
      }
      if ((quirks & 4)&&(kindChar != 'h')&&(!w->autoSortOn(t))&&((op == "put")||(op == "putp")||(op == "putd")||(op == "pag")||(op == "por"))&&(a.size() >= 3))
      {
         if ((a[2][0] == '@')||(w->hasKeyTok(t, a[2]))) return true;
      }
      return false;
   }
   void emit(const std::string & line)
   {
      if (isOpenTrigger(split(line))) return;
      fputs(line.c_str(), out); fputc('\n', out);
      fflush(out);                                    // the op line must be on disk before the real code runs it (it may crash or hang)
      FILE * keep = g_oracle; g_oracle = devnull();   // the generator's own executions are not oracle runs
      (void) step(split(line));
      g_oracle = keep;
   }
   std::string keyTok(uint32_t j) const
   {
      if (!strKeys) return u64s(j);
      std::string s;
      if (j == 0) return hexOf(s);
      if ((j % 5) == 0) s = "a_very_long_key_prefix_beyond_any_small_buffer_";
      if ((j % 7) == 3) s += (char)0xC3;     // bytes >= 0x80: strcmp compares unsigned
      uint32_t x = j; while(x) {s.push_back((char)('a'+(x%26))); x /= 26;}
      return hexOf(s);
   }
   std::string genKey(Rng & r, int t)
   {
      // mostly keys that are in the table or in the small universe around it
      const uint32_t n = w->size(t);
      if ((n > 0)&&(r.chance(2,5))) return w->keyTokAt(t, (r.chance(1,4)) ? ((r.chance(1,2)) ? 0 : n-1) : r.below(n));
      if ((!strKeys)&&(r.chance(1,40))) return u64s(0xFFFFFFFFu - r.below(2));
      return keyTok(keyBase + r.below(keyRange));
   }
   std::string genKeyArg(Rng & r, int t, uint32_t aliasPct)
   {
      if (r.below(100) < aliasPct)
      {
         const uint32_t n = w->size(t);
         switch(r.below(4))
         {
            case 0: return "@f";
            case 1: return "@l";
            case 2: return "@a" + u64s(n ? r.below(n) : 0);
            default: {const int i = (int)r.below(4); if (w->iterHasData(i)) return "@i" + u64s((uint32_t)i); return "@f";}
         }
      }
      return genKey(r, t);
   }
   std::string genVal(Rng & r, int t, uint32_t aliasPct)
   {
      if (r.below(100) < aliasPct)
      {
         const uint32_t n = w->size(t);
         switch(r.below(4))
         {
            case 0: return "@f";
            case 1: return "@l";
            case 2: return "@a" + u64s(n ? r.below(n) : 0);
            default: {const int i = (int)r.below(4); if (w->iterHasData(i)) return "@i" + u64s((uint32_t)i); return "@l";}
         }
      }
      if (r.chance(1,12)) return u64s(0x7FFFFFFFu - r.below(3));
      return u64s(r.below(r.chance(1,2) ? 4 : 10));
   }
   std::string genPos(Rng & r, int t)
   {
      const uint32_t n = w->size(t);
      switch(r.below(8))
      {
         case 0: return "0";
         case 1: return u64s(n);
         case 2: return u64s(n ? n-1 : 0);
         case 3: return u64s(n/2);
         case 4: return u64s(n/2 + 1);
         case 5: return u64s(n/2 ? n/2-1 : 0);
         case 6: return u64s(n + 1 + r.below(3));
         default: return u64s(r.below(n+1));
      }
   }

   // one random op; `mix` selects the flavour: 0 general, 1 removal-heavy under iteration, 2 growth-heavy, 3 alias-heavy
   void randomOp(Rng & r, int mix, bool ordered)
   {
      const int t = r.chance(4,5) ? 0 : 1;
      const std::string T = u64s((uint32_t)t);
      const uint32_t al = (mix == 3) ? 60 : 6;
      if (r.chance(1,120))
      {
         // malformed stream: both sides must reject these the same way and leave the state alone
         static const char * bad[] = {"put 0 1", "put 2 1 1", "put 0 1 2147483648", "put 0 1 -1", "put 0 @z 1", "put 0 @a 1", "put 0 1 @i9", "frob 0", "rem", "itnew 4 0 0", "itnew 0 0 2",
                                      "mpos 0 1 x", "ensure 0 1000001 0", "ensure 0 7", "get 0 99999999999", "get 0 x00", "get 0 x6", "get 0 xzz", "swap 1", "eq 2", "itnext 7", "itcopy 0 4", "clear 0 2", "ppos 0 1 -3 1",
                                      "shrink 0 4294967295", "keyat 0 4294967296", "init h u", "dump 3", "put 0 1 1 1"};
         emit(bad[r.below(sizeof(bad)/sizeof(bad[0]))]);
         return;
      }
      uint32_t c = r.below(100);
      if (mix == 1) {if (c < 30) c = 40 + r.below(12); else if (c < 55) c = 80 + r.below(8);}      // removals, iterator steps
      if (mix == 2) {if (c < 45) c = r.below(8);}                                                   // puts
      if (mix == 3) {if (c < 40) c = r.below(22);}                                                  // puts and positional puts with references
      if (c < 8)   {emit("put " + T + " " + genKeyArg(r, t, al) + " " + genVal(r, t, al)); return;}
      if (c < 10)  {emit("putp " + T + " " + genKeyArg(r, t, al) + " " + genVal(r, t, al)); return;}
      if (c < 11)  {emit("putd " + T + " " + genKeyArg(r, t, al)); return;}
      if (c < 12)  {emit("pag " + T + " " + genKeyArg(r, t, al) + " " + genVal(r, t, al)); return;}
      if (c < 13)  {emit("gop " + T + " " + genKeyArg(r, t, al) + " " + genVal(r, t, al)); return;}
      if (c < 14)  {emit("pinp " + T + " " + genKeyArg(r, t, al) + " " + genVal(r, t, al)); return;}
      if (c < 15)  {emit("por " + T + " " + genKeyArg(r, t, al) + " " + genVal(r, t, al)); return;}
      if (c < 17)  {emit("pfront " + T + " " + genKeyArg(r, t, al) + " " + genVal(r, t, al)); return;}
      if (c < 18)  {emit("pback " + T + " " + genKeyArg(r, t, al) + " " + genVal(r, t, al)); return;}
      if (c < 20)  {emit("pbefore " + T + " " + genKeyArg(r, t, al) + " " + genKeyArg(r, t, al*3+10) + " " + genVal(r, t, al)); return;}
      if (c < 22)  {emit("pbehind " + T + " " + genKeyArg(r, t, al) + " " + genKeyArg(r, t, al*3+10) + " " + genVal(r, t, al)); return;}
      if (c < 24)  {emit("ppos " + T + " " + genKeyArg(r, t, al) + " " + genPos(r, t) + " " + genVal(r, t, al)); return;}
      if (c < 26)  {emit("get " + T + " " + genKeyArg(r, t, al)); return;}
      if (c < 27)  {emit("getd " + T + " " + genKeyArg(r, t, al)); return;}
      if (c < 28)  {emit("has " + T + " " + genKeyArg(r, t, al)); return;}
      if (c < 29)  {emit("hasv " + T + " " + genVal(r, t, al)); return;}
      if (c < 30)  {emit("idx " + T + " " + genKeyArg(r, t, al)); return;}
      if (c < 31)  {emit("idxv " + T + " " + genVal(r, t, al) + " " + u64s(r.below(2))); return;}
      if (c < 32)  {emit("keyat " + T + " " + genPos(r, t)); return;}
      if (c < 33)  {emit("valat " + T + " " + genPos(r, t)); return;}
      if (c < 34)  {emit((r.chance(1,2) ? "first " : "last ") + T); return;}
      if (c < 35)  {emit((r.chance(1,2) ? "kbefore " : "kafter ") + T + " " + genKeyArg(r, t, al)); return;}
      if (c < 36)  {emit("n " + T); return;}
      if (c < 40)  {emit("dump " + T); return;}
      if (c < 46)  {emit("rem " + T + " " + genKeyArg(r, t, al+10)); return;}
      if (c < 47)  {emit("remv " + T + " " + genKeyArg(r, t, al)); return;}
      if (c < 48)  {emit("remd " + T + " " + genKeyArg(r, t, al)); return;}
      if (c < 50)  {emit("remf " + T); return;}
      if (c < 52)  {emit("reml " + T); return;}
      if (c < 53)  {if (r.chance(1,3)) emit((r.chance(1,2) ? "remt " : "isect ") + T); else emit("rem " + T + " " + (w->iterHasData((int)r.below(4)) ? ("@i" + u64s(r.below(4))) : genKey(r, t))); return;}
      if (c < 54)  {if (r.chance(1,4)) emit("clear " + T + " " + u64s(r.below(2))); else emit("get " + T + " " + genKey(r, t)); return;}
      if (c < 56)  {emit("mfront " + T + " " + genKeyArg(r, t, al)); return;}
      if (c < 58)  {emit("mback " + T + " " + genKeyArg(r, t, al)); return;}
      if (c < 60)  {emit("mbefore " + T + " " + genKeyArg(r, t, al) + " " + genKeyArg(r, t, al)); return;}
      if (c < 62)  {emit("mbehind " + T + " " + genKeyArg(r, t, al) + " " + genKeyArg(r, t, al)); return;}
      if (c < 65)  {emit("mpos " + T + " " + genKeyArg(r, t, al) + " " + genPos(r, t)); return;}
      if (c < 66)  {emit((r.chance(1,2) ? "gmf " : "gmb ") + T + " " + genKeyArg(r, t, al)); return;}
      if (c < 67)  {emit("sortk " + T); return;}
      if (c < 68)  {emit("sortv " + T); return;}
      if (c < 69)  {if (ordered) {switch(r.below(3)) {case 0: emit("sort " + T); break; case 1: emit("autosort " + T + " " + u64s(r.below(2)) + " " + u64s(r.below(2))); break; default: emit("repos " + T + " " + genKeyArg(r, t, al)); break;}} else emit("sort " + T); return;}
      if (c < 71)
      {
         static const uint32_t sizes[] = {0, 1, 6, 7, 8, 13, 14, 15, 254, 255, 256, 257, 300};
         const uint32_t n = w->size(t);
         switch(r.below(5))
         {
            case 0: emit("ensure " + T + " " + u64s(sizes[r.below(sizeof(sizes)/sizeof(sizes[0]))]) + " " + u64s(r.below(2))); break;
            case 1: emit("shrink " + T + " " + u64s(r.below(3))); break;
            case 2: emit("ensure " + T + " " + u64s(n + r.below(3)) + " 1"); break;
            case 3: emit("ensure " + T + " " + u64s(n*2 + r.below(2)) + " 0"); break;
            default: if (r.chance(1,6)) emit("ensure " + T + " 4294967295 " + u64s(r.below(2))); else emit("shrink " + T + " 0"); break;
         }
         return;
      }
      if (c < 72)  {emit((r.chance(1,2) ? "copy " : "putall ") + T); return;}
      if (c < 73)  {emit("cctor " + T); return;}
      if (c < 75)  {emit("swap"); return;}
      if (c < 76)  {emit("eq " + u64s(r.below(2))); return;}
      if (c < 78)  {emit((r.chance(1,2) ? "mtt " : "ctt ") + T + " " + genKeyArg(r, t, al)); return;}
      if (c < 79)
      {
         switch(r.below(12))
         {
            case 0: case 1: emit("destroy " + T); break;
            case 2: case 3: case 4: emit("swt " + T + " " + genKeyArg(r, t, al)); break;
            case 5: emit("movector " + T); break;
            case 6: emit("massign " + T); break;
            case 7: emit("mkpre " + T + " " + u64s(r.chance(1,2) ? 0 : r.below(9))); break;
            case 8: emit("ecp " + T + " " + u64s(r.chance(1,8) ? 4294967295u : r.below(4))); break;
            case 9: case 10: emit("setv " + T + " " + genKeyArg(r, t, al) + " " + genVal(r, t, al)); break;
            default: emit("has " + T + " " + genKey(r, t)); break;
         }
         return;
      }
      // iterators (c in 79..99)
      const int i = (int)r.below(4);
      const std::string I = u64s((uint32_t)i);
      if ((!w->iterLive(i))||((!w->iterHasData(i))&&(r.chance(2,3)))) {if (r.chance(3,4)) emit("itnew " + I + " " + T + " " + u64s(r.chance(1,3) ? 1 : 0)); else emit("itat " + I + " " + T + " " + genKeyArg(r, t, al) + " " + u64s(r.below(2))); return;}
      if (c < 92)  {emit("itnext " + I); return;}
      if (c < 94)  {emit("itprev " + I); return;}
      if (c < 95)  {emit("itpeek " + I); return;}
      if (c < 96)  {emit("itdrop " + I); return;}
      if (c < 97)  {emit("itback " + I + " " + u64s(r.below(2))); return;}
      if (c < 98)  {emit("itcopy " + I + " " + u64s(r.below(4))); return;}
      if (c < 99)  {emit("itat " + I + " " + T + " " + genKeyArg(r, t, al) + " " + u64s(r.below(2))); return;}
      emit("itnew " + I + " " + T + " " + u64s(r.below(2)));
   }

   void fillTo(Rng & r, int t, uint32_t target, bool sequential)
   {
      const std::string T = u64s((uint32_t)t);
      uint32_t guard = target*4 + 16;
      uint32_t next = keyBase;
      while((w->size(t) < target)&&(guard-- > 0))
      {
         if (sequential) emit("put " + T + " " + keyTok(next++) + " " + u64s(r.below(10)));
                    else emit("put " + T + " " + keyTok(keyBase + r.below(keyRange)) + " " + u64s(r.below(10)));
      }
   }
   void openIterators(Rng & r, int t)
   {
      const std::string T = u64s((uint32_t)t);
      const uint32_t n = w->size(t);
      emit("itnew 0 " + T + " 0");
      emit("itnew 1 " + T + " 1");
      emit("itat 2 " + T + " @a" + u64s(n/2) + " 0");
      emit("itat 3 " + T + " " + (r.chance(1,2) ? std::string("@l") : ("@a" + u64s(n ? r.below(n) : 0))) + " " + u64s(r.below(2)));
      const uint32_t steps = r.below(4);
      for (uint32_t i=0; i<steps; i++) emit("itnext " + u64s(r.below(4)));
   }
   void finish()
   {
      for (int i=0; i<4; i++) emit("itpeek " + u64s((uint32_t)i));
      emit("dump 0"); emit("dump 1");
      // run every live iterator to its end (bounded), then look again
      for (int i=0; i<4; i++) {uint32_t guard = 40; while((w->iterHasData(i))&&(guard-- > 0)) emit("itnext " + u64s((uint32_t)i));}
      emit("destroy 0");
      for (int i=0; i<4; i++) {emit("itpeek " + u64s((uint32_t)i)); emit("itnext " + u64s((uint32_t)i));}
      emit("dump 1");
   }

   virtual void gen(Rng & r, const Tier & tier, FILE * o)
   {
      out = o;
      quirks = probeQuirks();
      const uint32_t ncases = tier.thorough ? 1500 : 180;
      static const char * kinds[] = {"h", "h", "h", "k", "v", "v"};
      for (uint32_t c=0; c<ncases; c++)
      {
         fprintf(out, "case %u\n", c*tier.nshards + tier.shard);
         reset();
         const char * kind = kinds[r.below(6)];
         const bool ordered = (kind[0] != 'h');
         strKeys = r.chance(1,3);
         static const uint32_t mods[] = {0, 1, 3, 3, 0, 16};
         uint32_t hm = strKeys ? 0 : mods[r.below(6)];
         uint32_t scenario = r.below(15);
         // the 65535/65536 boundary: thorough only, one big case on every fourth shard
         const bool big = (tier.thorough)&&(c == 0)&&((tier.shard % 4) == 0);
         if (big) {scenario = 100; strKeys = false; hm = 0; kind = ((tier.shard % 8) == 0) ? "h" : "k";}
         if (scenario == 10) {strKeys = false; hm = 0;}                                   // exact capacities: identity hash, so that key % capacity picks the slot
         if ((scenario == 12)||(scenario == 14)) kind = r.chance(3,4) ? "v" : "k";         // re-positioning / auto-sort toggling need an ordered kind
         const bool ordered2 = (kind[0] != 'h');
         keyBase = r.chance(1,4) ? 0 : r.below(1000);
         static const uint32_t ranges[] = {6, 12, 12, 20, 40, 40, 90};
         keyRange = ranges[r.below(7)];
         kindChar = kind[0];
         emit(std::string("init ") + kind + " " + (strKeys ? "s" : "u") + " " + u64s(hm) + " " + u64s(quirks));
         if (scenario <= 4)
         {
            // general mix over a small key universe, iterators opened along the way
            const uint32_t nops = r.range(30, tier.thorough ? 260 : 160);
            const int mix = (int)r.below(4);
            for (uint32_t i=0; i<nops; i++) randomOp(r, mix, ordered);
         }
         else if (scenario <= 6)
         {
            // walk the population across 6/7/8 (first growth) and 13/14/15 with iterators registered
            fillTo(r, 0, 5 + r.below(3), r.chance(1,2));
            openIterators(r, 0);
            const uint32_t nops = r.range(40, 120);
            for (uint32_t i=0; i<nops; i++) randomOp(r, (i < nops/2) ? 2 : 1, ordered);
         }
         else if (scenario == 7)
         {
            // alias mode at full capacity: capacity == population after ShrinkToFit / at 7, 14, 28
            static const uint32_t full[] = {7, 14, 28, 9, 3};
            keyRange = 200;
            fillTo(r, 0, full[r.below(5)], true);
            if (r.chance(1,2)) emit("shrink 0 0");
            openIterators(r, 0);
            const uint32_t nops = r.range(20, 80);
            for (uint32_t i=0; i<nops; i++)
            {
               if (r.chance(1,3))
               {
                  const std::string fresh = keyTok(keyBase + 500 + i);
                  switch(r.below(6))
                  {
                     case 0: emit("pbefore 0 " + fresh + " @f " + genVal(r, 0, 50)); break;
                     case 1: emit("pbehind 0 " + fresh + " @l " + genVal(r, 0, 50)); break;
                     case 2: emit("put 0 " + fresh + " @f"); break;
                     case 3: emit("pbefore 0 " + fresh + " @a" + u64s(r.below(w->size(0)+1)) + " @l"); break;
                     case 4: emit("ppos 0 " + fresh + " " + genPos(r, 0) + " @a" + u64s(r.below(w->size(0)+1))); break;
                     default: emit("pbehind 0 " + fresh + " @i" + u64s(r.below(4)) + " @i" + u64s(r.below(4))); break;
                  }
                  if (r.chance(1,3)) emit("shrink 0 0");
               }
               else randomOp(r, 3, ordered);
            }
         }
         else if (scenario <= 9)
         {
            // the 254/255/256 boundary (index width 8 -> 16 bits): population grown through 224 -> 448 slots, or the
            // capacity pinned to 254..257 by EnsureSize/ShrinkToFit, four iterators registered while crossing
            keyRange = 700;
            if (hm == 1) hm = 3;
            const uint32_t start = r.chance(1,2) ? (220 + r.below(8)) : (250 + r.below(5));
            if (r.chance(1,2)) emit("ensure 0 " + u64s(254 + r.below(4)) + " 0");
            fillTo(r, 0, start, r.chance(1,2));
            openIterators(r, 0);
            const uint32_t nops = r.range(60, tier.thorough ? 400 : 140);
            for (uint32_t i=0; i<nops; i++)
            {
               const uint32_t n = w->size(0);
               if (r.chance(1,10)) {if (r.chance(1,2)) emit("shrink 0 " + u64s(r.below(2))); else emit("ensure 0 " + u64s(254 + r.below(4)) + " " + u64s(r.below(2)));}
               else if (r.chance(1,3)) emit("put 0 " + keyTok(keyBase + 1000 + i) + " " + u64s(r.below(10)));
               else if ((n > 250)&&(r.chance(1,4))) emit("rem 0 " + w->keyTokAt(0, r.below(n)));
               else randomOp(r, (int)r.below(3), ordered);
            }
         }
         else if (scenario == 10)
         {
            // (a) a table of EXACTLY 256 (or, sparsely populated, 65536) slots: its last slot index is the all-ones value of the
            // next narrower index type.  Capacity reached by EnsureSize, by the preallocating constructor, or by ShrinkToFit at
            // exactly that many items; keys whose hash % capacity is capacity-1; the capacity-th insert; copies of such a table.
            const uint32_t cap = r.chance(2,3) ? 256 : 65536;
            const bool dense = (cap == 256)&&(r.chance(2,3));
            keyBase = 0; keyRange = 3*cap;
            const uint32_t how = r.below(3);
            if (how == 0) emit("ensure 0 " + u64s(cap) + " 0");
            else if (how == 1) emit("mkpre 0 " + u64s(cap));
            else if (cap == 256) {for (uint32_t i=0; i<cap; i++) emit("put 0 " + u64s(i*(r.chance(1,2)?1:1)) + " " + u64s(i%10)); emit("shrink 0 0");}
            else emit("ensure 0 " + u64s(cap) + " 1");
            emit("put 0 " + u64s(cap-1) + " 1"); emit("put 0 " + u64s(2*cap-1) + " 2"); emit("put 0 " + u64s(3*cap-1) + " 3"); emit("put 0 " + u64s(cap-2) + " 4");
            emit("itat 0 0 " + u64s(cap-1) + " 0"); emit("itat 1 0 " + u64s(2*cap-1) + " 1"); emit("itnew 2 0 0"); emit("itnew 3 0 1");
            if (dense) {uint32_t k = 0; uint32_t guard = 4*cap; while((w->size(0) < cap)&&(guard-- > 0)) {emit("put 0 " + u64s(k) + " " + u64s(k%7)); k++;}}   // up to the capacity-th insert
            emit("n 0"); emit("first 0"); emit("last 0"); emit("get 0 " + u64s(cap-1)); emit("idx 0 " + u64s(2*cap-1)); emit("kafter 0 " + u64s(cap-1)); emit("kbefore 0 " + u64s(cap-1));
            for (int i=0; i<4; i++) {emit("itnext " + u64s((uint32_t)i)); emit("itpeek " + u64s((uint32_t)i));}
            emit("cctor 0");                                    // the copy constructor takes over the capacity and re-inserts every pair by hash % capacity
            emit("ensure 1 " + u64s(cap) + " 0"); emit("copy 1"); emit("eq 1");
            emit("rem 0 " + u64s(cap-1)); emit("put 0 " + u64s(cap-1) + " 9"); emit("mfront 0 " + u64s(cap-1)); emit("rem 0 " + u64s(3*cap-1)); emit("put 0 " + u64s(4*cap-1) + " 5");
            if (w->size(0) <= 600) emit("dump 0");
            if (dense) {emit("put 0 " + u64s(5*cap+1) + " 1"); emit("put 0 " + u64s(5*cap+2) + " 1");}   // one past the capacity: growth to the wider index type
            emit("shrink 0 0"); emit("massign 0"); emit("n 0"); emit("n 1");
            const uint32_t nops = r.range(10, 40);
            for (uint32_t i=0; i<nops; i++) {if (w->size(0) > 600) emit("reml 0"); else randomOp(r, (int)r.below(3), ordered);}
            if (w->size(0) > 600) {emit("n 0"); emit("clear 0 1");}
            if (w->size(1) > 600) {emit("n 1"); emit("clear 1 1");}
         }
         else if (scenario == 11)
         {
            // (b) several registered iterators parked on the SAME entry while the array is reallocated (growth at a full table,
            // EnsureSize, ShrinkToFit, EnsureCanPut); every one of them must be re-pointed at the clone of its entry
            static const uint32_t fulls[] = {7, 14, 28, 5, 56, 224, 255, 256, 20};
            const uint32_t n0 = fulls[r.below(9)];
            keyRange = 4*n0 + 50;
            fillTo(r, 0, n0, true);
            const uint32_t rounds = r.range(2, 5);
            for (uint32_t round=0; round<rounds; round++)
            {
               const uint32_t n = w->size(0); if (n == 0) break;
               const std::string at = "@a" + u64s((r.chance(1,4)) ? ((r.chance(1,2)) ? 0 : n-1) : r.below(n));
               emit("itat 0 0 " + at + " 0"); emit("itat 1 0 @i0 1"); emit("itcopy 0 2"); emit("itat 3 0 @i0 " + u64s(r.below(2)));
               if (r.chance(1,3)) emit("rem 0 @i0");    // ... or all four hold a scratch copy and stand on the same neighbour
               switch(r.below(6))
               {
                  case 0: case 1: emit("put 0 " + keyTok(keyBase + 10000 + round) + " " + u64s(r.below(10))); break;
                  case 2: emit("ensure 0 " + u64s(n*2 + r.below(3)) + " 0"); break;
                  case 3: emit("shrink 0 " + u64s(r.below(2))); break;
                  case 4: emit("ensure 0 " + u64s(n + r.below(3)) + " 1"); break;
                  default: emit("ecp 0 " + u64s(1 + r.below(300))); break;
               }
               for (int i=0; i<4; i++) emit("itpeek " + u64s((uint32_t)i));
               emit("itnext 0"); emit("itprev 1"); emit("itnext 2"); emit("itnext 3");
               if (r.chance(1,2)) emit("rem 0 @i2");
               for (int i=0; i<4; i++) emit("itpeek " + u64s((uint32_t)i));
               const uint32_t nops = r.below(12);
               for (uint32_t i=0; i<nops; i++) randomOp(r, 2, ordered2);
            }
         }
         else if (scenario == 12)
         {
            // (c) Put(existingKey, newValue) / in-place update + Reposition(key) on a sorted table: the pair has to travel towards
            // the back (or the front) and stop in the middle, next to equal values, at the ends
            const uint32_t n0 = r.range(4, 14);
            keyRange = 40;
            for (uint32_t i=0; i<n0; i++) emit("put 0 " + keyTok(keyBase + i*3 + r.below(3)) + " " + u64s(10*(1 + r.below(n0))));
            openIterators(r, 0);
            const uint32_t nops = r.range(30, 90);
            for (uint32_t i=0; i<nops; i++)
            {
               const uint32_t n = w->size(0);
               if ((n < 3)||(r.chance(1,6))) {randomOp(r, 0, true); continue;}
               const std::string who = w->keyTokAt(0, r.below(n));
               const uint32_t j = r.below(n);
               const int vj = w->valueOfKeyTok(0, w->keyTokAt(0, j));
               long long nvl = (long long)vj + ((long long)r.below(3)-1)*(long long)(1+r.below(6)); if (nvl < 0) nvl = 0; if (nvl > 0x7FFFFFFFLL) nvl = 0x7FFFFFFFLL;
               const int nv = (int)nvl;
               switch(r.below(8))
               {
                  case 0: case 1: case 2: emit("put 0 " + who + " " + u64s((uint32_t)nv)); break;
                  case 3: emit("putp 0 " + who + " " + u64s((uint32_t)nv)); break;
                  case 4: emit("pag 0 " + who + " " + u64s((uint32_t)nv)); break;
                  case 5: emit("setv 0 " + who + " " + u64s((uint32_t)nv)); emit("repos 0 " + who); break;
                  case 6: emit("setv 0 " + who + " " + u64s((uint32_t)nv)); if (r.chance(1,2)) emit("itnext " + u64s(r.below(4))); emit("repos 0 " + who); break;
                  default: emit("ctt 1 " + who); emit("setv 1 " + who + " " + u64s((uint32_t)nv)); emit("swt 0 " + who); break;
               }
               if (r.chance(1,4)) emit("dump 0");
               if (r.chance(1,3)) emit("itnext " + u64s(r.below(4)));
            }
         }
         else if (scenario == 13)
         {
            // moved-from tables being used again (move constructor, move assignment, SwapContents with a table that has no slots,
            // PreallocatedItemSlotsCount(0)) and the whole cross-table family, iterators alive
            keyRange = 14;
            const uint32_t n0 = r.range(0, 9), n1 = r.range(0, 9);
            for (uint32_t i=0; i<n0; i++) emit("put 0 " + keyTok(keyBase + r.below(10)) + " " + u64s(r.below(10)));
            for (uint32_t i=0; i<n1; i++) emit("put 1 " + keyTok(keyBase + 4 + r.below(10)) + " " + u64s(r.below(10)));
            emit("itnew 0 0 0"); emit("itnew 1 1 1"); emit("itat 2 0 @l 1"); emit("itat 3 1 @f 0");
            const uint32_t nops = r.range(30, 100);
            for (uint32_t i=0; i<nops; i++)
            {
               const std::string T = u64s(r.below(2));
               const int t = (T == "1") ? 1 : 0;
               const std::string key = keyTok(keyBase + r.below(keyRange));
               switch(r.below(30))
               {
                  case 0: case 1: emit("movector " + T); break;
                  case 2: emit("massign " + T); break;
                  case 3: emit("swap"); break;
                  case 4: emit("mkpre " + T + " 0"); break;
                  case 5: emit("mkpre " + T + " " + u64s(r.below(5))); break;
                  case 6: case 7: case 8: emit("put " + T + " " + key + " " + u64s(r.below(10))); break;
                  case 9: emit("pfront " + T + " " + key + " " + u64s(r.below(10))); break;
                  case 10: emit("gop " + T + " " + key + " " + u64s(r.below(10))); break;
                  case 11: emit("ensure " + T + " " + u64s(r.below(3)*r.below(6)) + " " + u64s(r.below(2))); break;
                  case 12: emit("shrink " + T + " " + u64s(r.below(2))); break;
                  case 13: emit("clear " + T + " " + u64s(r.below(2))); break;
                  case 14: emit("copy " + T); break;
                  case 15: emit("putall " + T); break;
                  case 16: case 17: case 18: emit("swt " + T + " " + key); break;
                  case 19: case 20: emit("mtt " + T + " " + key); break;
                  case 21: emit("ctt " + T + " " + key); break;
                  case 22: emit(r.chance(1,2) ? ("remt " + T) : ("isect " + T)); break;
                  case 23: emit("eq " + u64s(r.below(2))); break;
                  case 24: emit("cctor " + T); break;
                  case 25: emit("itnew " + u64s(r.below(4)) + " " + T + " " + u64s(r.below(2))); break;
                  case 26: emit("itnext " + u64s(r.below(4))); break;
                  case 27: emit("ecp " + T + " " + u64s(r.below(3))); break;
                  case 28: emit("dump " + T); break;
                  default: randomOp(r, 0, ordered2); break;
               }
               (void) t;
            }
         }
         else if (scenario == 14)
         {
            // SetAutoSortEnabled() toggling followed by Put / Reposition / Sort, iterators alive
            keyRange = 20;
            fillTo(r, 0, r.range(3, 10), false);
            openIterators(r, 0);
            const uint32_t nops = r.range(40, 120);
            for (uint32_t i=0; i<nops; i++)
            {
               const std::string key = r.chance(1,2) ? keyTok(keyBase + r.below(keyRange)) : (w->size(0) ? w->keyTokAt(0, r.below(w->size(0))) : keyTok(keyBase));
               switch(r.below(14))
               {
                  case 0: emit("autosort 0 0 " + u64s(r.below(2))); break;
                  case 1: emit("autosort 0 1 " + u64s(r.below(2))); break;
                  case 2: case 3: case 4: emit("put 0 " + key + " " + u64s(r.below(12))); break;
                  case 5: emit("repos 0 " + key); break;
                  case 6: emit("sort 0"); break;
                  case 7: emit("setv 0 " + key + " " + u64s(r.below(12))); break;
                  case 8: emit("itnext " + u64s(r.below(4))); break;
                  case 9: emit("dump 0"); break;
                  case 10: emit("putall 0"); break;
                  case 11: emit("swt 0 " + key); break;
                  default: randomOp(r, 0, true); break;
               }
            }
         }
         else
         {
            // 65534/65535/65536/65537
            keyRange = 70000; keyBase = 0;
            const uint32_t variant = (tier.shard/4) % 4;    // 0: EnsureSize(65536), 1: ShrinkToFit at exactly 65536 items, 2: 65535, 3: preallocated 65536 + copies
            if (variant == 0) emit("ensure 0 65536 0");
            if (variant == 2) emit("ensure 0 65535 0");
            if (variant == 3) emit("mkpre 0 65536");
            fillTo(r, 0, (variant == 2) ? 65535 : 65536, true);   // sequential keys under the identity hash: key 65535 takes slot 65535 at the capacity-th insert
            if (variant == 1) emit("shrink 0 0");
            emit("n 0"); emit("get 0 65535"); emit("kbefore 0 65535"); emit("idx 0 65534");
            if (variant == 3) {emit("ensure 1 65536 0"); emit("copy 1"); emit("eq 1"); emit("n 1"); emit("last 1"); emit("clear 1 1");}
            openIterators(r, 0);
            emit("itat 0 0 65535 1"); emit("itnext 0"); emit("itpeek 0");
            for (uint32_t i=0; i<10; i++) emit("put 0 " + keyTok(100000 + i) + " " + u64s(r.below(10)));   // crosses the pinned capacity: reallocation to 16 -> 32 bit indices
            for (uint32_t i=0; i<120; i++)
            {
               const uint32_t n = w->size(0);
               switch(r.below(8))
               {
                  case 0: emit("rem 0 " + w->keyTokAt(0, r.below(n))); break;
                  case 1: emit("put 0 " + keyTok(200000 + i) + " " + u64s(r.below(10))); break;
                  case 2: emit("itnext " + u64s(r.below(4))); break;
                  case 3: emit("rem 0 @i" + u64s(r.below(4))); break;
                  case 4: emit("mpos 0 " + w->keyTokAt(0, r.below(n)) + " " + u64s(r.below(n))); break;
                  case 5: emit("pbefore 0 " + keyTok(300000 + i) + " @f 1"); break;
                  case 6: emit("shrink 0 " + u64s(r.below(2))); break;
                  default: emit("get 0 " + w->keyTokAt(0, r.below(n))); break;
               }
            }
            // down across the boundary again
            for (uint32_t i=0; i<12; i++) emit("reml 0");
            emit("shrink 0 0");
            for (uint32_t i=0; i<6; i++) {emit("remf 0"); emit("itnext " + u64s(r.below(4)));}
            emit("shrink 0 0");
            emit("n 0"); emit("first 0"); emit("last 0");
            for (int i=0; i<4; i++) emit("itpeek " + u64s((uint32_t)i));
            emit("clear 0 1");
            for (int i=0; i<4; i++) {emit("itpeek " + u64s((uint32_t)i)); emit("itnext " + u64s((uint32_t)i));}
            continue;
         }
         finish();
      }
      reset();
   }
};

int main(int argc, char ** argv)
{
   HtEngine e;
   return harnessMain(argc, argv, e);
}
