// Engine `wc` (C15): one StringMatcher driven through SetPattern/Match/IsPatternUnique/ToString plus the free
// functions EscapeRegexTokens / RemoveEscapeChars / CanWildcardStringMatchMultipleValues / HasRegexTokens /
// IsRegexToken of regex/StringMatcher.h.
//
// Direct oracle (needs no model): an independent backtracking matcher for the *documented* pattern syntax
// (regex/StringMatcher.h class comment, html/muscle-by-example/docs/stringmatcher.md), written against the
// pattern text; escape exactness against all one-edit neighbours; "single-valued" patterns never match two strings.
#include "libvh/vh.h"
#include "regex/StringMatcher.h"
#include "util/String.h"
#include <functional>
#include <set>

using namespace muscle;
using namespace vh;

// ------------------------------------------------------------------------------------------------
// The documented syntax, read from the pattern text (independent of the generator and of the library).
//   pattern := ['~'] ( range-list | alts )          range-list := '<' clause (',' clause)* '>'
//   alts    := seq (('|' | ',') seq)*               clause     := N | N '-' M | '-' M | N '-' | '-'
//   seq     := atom*                                atom := '*' | '?' | class | '(' alts ')' | '\' c | plain
//   class   := '[' ['^'] item+ ']'                  item := c | c '-' c      (c: none of ] [ ^ - \ ; , . + * ? are ordinary members)
// Patterns outside this grammar (backtick regexes, dangling backslash, unbalanced brackets, { } ^ $ …) get no
// verdict from the oracle; only must-not-crash and the single-valued check apply to them.
// ------------------------------------------------------------------------------------------------
namespace doc {

enum {EPS, LIT, ANY, STAR, CLS, SEQ, ALT, GRP};

struct Node
{
   int kind; unsigned char c; bool esc; bool neg; bool bar;
   std::vector<std::pair<unsigned char, unsigned char> > items;   // class items (lo == hi for a single character)
   std::vector<bool> isRange;
   std::vector<Node> kids;
   Node(int k = EPS) : kind(k), c(0), esc(false), neg(false), bar(false) {}
};

static bool isPlain(unsigned char c) {return (c != 0)&&(strchr("*?[](),|\\^${}", c) == NULL);}
static bool isClassChar(unsigned char c) {return (c != 0)&&(strchr("][^-\\", c) == NULL);}

struct Parser
{
   const std::string & s; size_t i; bool ok;
   Parser(const std::string & str, size_t start) : s(str), i(start), ok(true) {}
   bool more() const {return i < s.size();}
   unsigned char peek() const {return (unsigned char)s[i];}

   Node alts()
   {
      Node a(ALT); a.kids.push_back(seq());
      std::vector<bool> bars;
      while((ok)&&(more())&&((peek() == '|')||(peek() == ','))) {bars.push_back(peek() == '|'); i++; a.kids.push_back(seq());}
      if (a.kids.size() == 1) return a.kids[0];
      return a;
   }
   Node seq()
   {
      Node q(SEQ);
      while((ok)&&(more()))
      {
         const unsigned char c = peek();
         if ((c == '|')||(c == ',')||(c == ')')) break;
         i++;
         if (c == '*') q.kids.push_back(Node(STAR));
         else if (c == '?') q.kids.push_back(Node(ANY));
         else if (c == '[') q.kids.push_back(cls());
         else if (c == '(')
         {
            Node g(GRP); g.kids.push_back(alts());
            if ((!more())||(peek() != ')')) {ok = false; break;}
            i++; q.kids.push_back(g);
         }
         else if (c == '\\')
         {
            if (!more()) {ok = false; break;}
            Node l(LIT); l.c = peek(); l.esc = true; i++; q.kids.push_back(l);
         }
         else if (isPlain(c)) {Node l(LIT); l.c = c; q.kids.push_back(l);}
         else {ok = false; break;}
      }
      return q;
   }
   Node cls()
   {
      Node k(CLS);
      if ((more())&&(peek() == '^')) {k.neg = true; i++;}
      while(true)
      {
         if (!more()) {ok = false; return k;}
         const unsigned char c = peek(); i++;
         if (c == ']') break;
         if (!isClassChar(c)) {ok = false; return k;}
         if ((i+1 < s.size())&&(s[i] == '-'))
         {
            const unsigned char h = (unsigned char)s[i+1];
            if ((!isClassChar(h))||(h < c)) {ok = false; return k;}
            k.items.push_back(std::make_pair(c, h)); k.isRange.push_back(true); i += 2;
         }
         else {k.items.push_back(std::make_pair(c, c)); k.isRange.push_back(false);}
      }
      if (k.items.empty()) ok = false;
      return k;
   }
};

typedef std::function<bool(size_t)> Cont;

static bool match(const Node & n, const std::string & s, size_t at, const Cont & k)
{
   switch(n.kind)
   {
      case EPS:  return k(at);
      case LIT:  return (at < s.size())&&((unsigned char)s[at] == n.c)&&(k(at+1));
      case ANY:  return (at < s.size())&&(k(at+1));
      case STAR: for (size_t j=at; j<=s.size(); j++) if (k(j)) return true; return false;
      case CLS:
      {
         if (at >= s.size()) return false;
         const unsigned char x = (unsigned char)s[at];
         bool in = false;
         for (size_t j=0; j<n.items.size(); j++) if ((n.items[j].first <= x)&&(x <= n.items[j].second)) in = true;
         return (in != n.neg)&&(k(at+1));
      }
      case SEQ:
      {
         // match kids[0..] in order
         std::function<bool(size_t, size_t)> go = [&](size_t idx, size_t pos) -> bool {
            if (idx == n.kids.size()) return k(pos);
            return match(n.kids[idx], s, pos, [&, idx](size_t p2) {return go(idx+1, p2);});
         };
         return go(0, at);
      }
      case ALT: for (size_t j=0; j<n.kids.size(); j++) if (match(n.kids[j], s, at, k)) return true; return false;
      case GRP: return match(n.kids[0], s, at, k);
   }
   return false;
}

struct Range {bool hasLo, hasHi, single; uint64_t lo, hi;};

// "an ASCII representation of an integer": a non-empty string of decimal digits (any length; leading zeros allowed)
static bool isDecimal(const std::string & s)
{
   if (s.empty()) return false;
   for (size_t i=0; i<s.size(); i++) if ((s[i] < '0')||(s[i] > '9')) return false;
   return true;
}
static bool isCanonDecimal(const std::string & s) {return (isDecimal(s))&&((s.size() == 1)||(s[0] != '0'));}
// value of a decimal, saturating at 2^63 (larger than every number a pattern can name)
static uint64_t decValue(const std::string & s) {uint64_t v = 0; for (size_t i=0; i<s.size(); i++) {if (v > (1ULL<<59)) return 1ULL<<63; v = v*10 + (uint64_t)(s[i]-'0');} return v;}

struct Pattern
{
   bool inGrammar;      // the oracle can tell what this pattern means
   bool neg, isRanges;
   Node tree;
   std::vector<Range> ranges;
   Pattern() : inGrammar(false), neg(false), isRanges(false) {}

   // documented meaning
   bool denotes(const std::string & subj) const
   {
      bool r;
      if (isRanges)
      {
         r = false;
         if (isDecimal(subj))
         {
            const uint64_t v = decValue(subj);
            for (size_t i=0; i<ranges.size(); i++)
            {
               const Range & g = ranges[i];
               if (g.single) {if (v == g.lo) r = true;}
               else if (((!g.hasLo)||(g.lo <= v))&&((!g.hasHi)||(v <= g.hi))) r = true;
            }
         }
      }
      else r = match(tree, subj, 0, [&](size_t p) {return p == subj.size();});
      return neg ? !r : r;
   }
};

static bool parseNumber(const std::string & s, uint64_t & v)
{
   if ((!isCanonDecimal(s))||(s.size() > 10)) return false;
   v = decValue(s);
   return v < 4294967295ULL;   // 2^32-1 is MUSCLE_NO_LIMIT, "no upper bound"
}

static Pattern parse(const std::string & text)
{
   Pattern p;
   size_t at = 0;
   if ((at < text.size())&&(text[at] == '~')) {p.neg = true; at++;}
   if (at < text.size())
   {
      const char f = text[at];
      if ((f == '`')||(f == '~')) return p;    // regex mode / a second tilde: not documented
      if (f == '<')
      {
         const size_t gt = text.find('>', at+1);
         if ((gt == std::string::npos)||(gt+1 != text.size())) return p;   // `<` first but not a range list: not documented
         p.isRanges = true;
         std::vector<std::string> cl = split(text.substr(at+1, gt-at-1), ',');
         if ((cl.empty())||(gt == at+1)) return p;
         for (size_t i=0; i<cl.size(); i++)
         {
            Range g; g.hasLo = g.hasHi = g.single = false; g.lo = g.hi = 0;
            const size_t dash = cl[i].find('-');
            if (dash == std::string::npos) {if (!parseNumber(cl[i], g.lo)) return p; g.single = true;}
            else
            {
               const std::string a = cl[i].substr(0, dash), b = cl[i].substr(dash+1);
               if (!a.empty()) {if (!parseNumber(a, g.lo)) return p; g.hasLo = true;}
               if (!b.empty()) {if (!parseNumber(b, g.hi)) return p; g.hasHi = true;}
               if ((g.hasLo)&&(g.hasHi)&&(g.lo > g.hi)) return p;
            }
            p.ranges.push_back(g);
         }
         p.inGrammar = true;
         return p;
      }
   }
   Parser ps(text, at);
   p.tree = ps.alts();
   if ((!ps.ok)||(ps.more())) return p;
   p.inGrammar = true;
   return p;
}

} // namespace doc

// ------------------------------------------------------------------------------------------------
static const char * kLetters = "ab01";
static const char * kMeta    = "*?[](),|\\^${}~`<>-=+.:!";     // every metacharacter of either syntax, plus : and !
static std::string alphabet() {return std::string(kLetters) + kMeta;}

static bool hasNul(const std::string & s) {return s.find('\0') != std::string::npos;}
static std::string mstr(const String & s) {return std::string(s(), s.Length());}

struct WcEngine : public Engine
{
   StringMatcher * sm;
   std::string pat;
   doc::Pattern cur;
   std::set<std::string> matched;

   WcEngine() : sm(new StringMatcher) {}
   ~WcEngine() {delete sm;}

   // ------------------------------------------------------------------ generator: documented patterns
   struct G
   {
      Rng & r; G(Rng & rr) : r(rr) {}
      std::string out;                  // rendering
      std::string litChars;             // characters used as literals / class members (for subject alphabets)

      unsigned char pickLit() {const std::string a = alphabet(); return (unsigned char)(r.chance(1,2) ? kLetters[r.below(4)] : a[r.below((uint32_t)a.size())]);}
      unsigned char pickCls()
      {
         static const char * safe = "ab01()|${}~`<>=:!,.+*?,.+*?";
         return (unsigned char)(r.chance(2,3) ? kLetters[r.below(4)] : safe[r.below((uint32_t)strlen(safe))]);
      }
      doc::Node alts(int depth)
      {
         const uint32_t n = r.chance(2,3) ? 1 : r.range(2,3);
         if (n == 1) return seq(depth);
         doc::Node a(doc::ALT);
         for (uint32_t i=0; i<n; i++) a.kids.push_back(seq(depth));
         a.bar = r.chance(1,2);
         return a;
      }
      doc::Node seq(int depth)
      {
         doc::Node q(doc::SEQ);
         const uint32_t n = r.chance(1,12) ? 0 : r.range(1,4);
         for (uint32_t i=0; i<n; i++) q.kids.push_back(atom(depth));
         return q;
      }
      doc::Node atom(int depth)
      {
         const uint32_t w = r.below(100);
         if (w < 52)
         {
            doc::Node l(doc::LIT); l.c = pickLit();
            l.esc = (!doc::isPlain(l.c))||(r.chance(1,8));
            return l;
         }
         if (w < 63) return doc::Node(doc::ANY);
         if (w < 76) return doc::Node(doc::STAR);
         if ((w < 89)||(depth <= 0))
         {
            doc::Node k(doc::CLS); k.neg = r.chance(1,3);
            const uint32_t n = r.range(1,3);
            for (uint32_t i=0; i<n; i++)
            {
               unsigned char a = pickCls(), b = pickCls();
               if (r.chance(1,3)) {if (a > b) std::swap(a, b); k.items.push_back(std::make_pair(a, b)); k.isRange.push_back(true);}
               else {k.items.push_back(std::make_pair(a, a)); k.isRange.push_back(false);}
            }
            return k;
         }
         doc::Node g(doc::GRP); g.kids.push_back(alts(depth-1));
         return g;
      }
      void render(const doc::Node & n)
      {
         switch(n.kind)
         {
            case doc::EPS: break;
            case doc::LIT: if (n.esc) out.push_back('\\'); out.push_back((char)n.c); litChars.push_back((char)n.c); break;
            case doc::ANY: out.push_back('?'); break;
            case doc::STAR: out.push_back('*'); break;
            case doc::CLS:
               out.push_back('['); if (n.neg) out.push_back('^');
               for (size_t i=0; i<n.items.size(); i++)
               {
                  out.push_back((char)n.items[i].first); litChars.push_back((char)n.items[i].first);
                  if (n.isRange[i]) {out.push_back('-'); out.push_back((char)n.items[i].second); litChars.push_back((char)n.items[i].second);}
               }
               out.push_back(']');
            break;
            case doc::SEQ: for (size_t i=0; i<n.kids.size(); i++) render(n.kids[i]); break;
            case doc::ALT: for (size_t i=0; i<n.kids.size(); i++) {if (i) out.push_back((n.bar != (r.chance(1,6))) ? '|' : ','); render(n.kids[i]);} break;
            case doc::GRP: out.push_back('('); render(n.kids[0]); out.push_back(')'); break;
         }
      }
      // a random member of the language of (n)
      void sample(const doc::Node & n, std::string & s)
      {
         const std::string a = alphabet();
         switch(n.kind)
         {
            case doc::LIT: s.push_back((char)n.c); break;
            case doc::ANY: s.push_back(r.chance(2,3) ? kLetters[r.below(4)] : a[r.below((uint32_t)a.size())]); break;
            case doc::STAR: {const uint32_t k = r.below(3); for (uint32_t i=0; i<k; i++) s.push_back(r.chance(2,3) ? kLetters[r.below(4)] : a[r.below((uint32_t)a.size())]);} break;
            case doc::CLS:
               for (int tries=0; tries<40; tries++)
               {
                  unsigned char x;
                  if (n.neg) x = (unsigned char)a[r.below((uint32_t)a.size())];
                  else {const size_t j = r.below((uint32_t)n.items.size()); x = (unsigned char)r.range(n.items[j].first, n.items[j].second);}
                  bool in = false; for (size_t j=0; j<n.items.size(); j++) if ((n.items[j].first <= x)&&(x <= n.items[j].second)) in = true;
                  if ((in != n.neg)&&(x != 0)) {s.push_back((char)x); return;}
               }
               s.push_back('#');
            break;
            case doc::SEQ: for (size_t i=0; i<n.kids.size(); i++) sample(n.kids[i], s); break;
            case doc::ALT: sample(n.kids[r.below((uint32_t)n.kids.size())], s); break;
            case doc::GRP: sample(n.kids[0], s); break;
            default: break;
         }
      }
   };

   static std::string mutate(Rng & r, std::string s)
   {
      const std::string a = alphabet();
      const char c = r.chance(1,2) ? kLetters[r.below(4)] : a[r.below((uint32_t)a.size())];
      switch(r.below(4))
      {
         case 0: if (!s.empty()) s.erase(r.below((uint32_t)s.size()), 1); break;
         case 1: s.insert(r.below((uint32_t)s.size()+1), 1, c); break;
         case 2: if (!s.empty()) s[r.below((uint32_t)s.size())] = c; break;
         default: if (s.size() > 1) {const size_t i = r.below((uint32_t)s.size()-1); std::swap(s[i], s[i+1]);} else s.push_back(c); break;
      }
      return s;
   }

   static void allStrings(const std::string & sigma, uint32_t maxLen, std::vector<std::string> & out)
   {
      out.push_back("");
      size_t from = 0;
      for (uint32_t len=1; len<=maxLen; len++)
      {
         const size_t to = out.size();
         for (size_t i=from; i<to; i++) for (size_t j=0; j<sigma.size(); j++) out.push_back(out[i] + sigma[j]);
         from = to;
      }
   }

   void emitObservers(FILE * out, const std::string & p)
   {
      fputs("flags\ntostr\n", out);
      fprintf(out, "cmm %s\nunesc %s\n", hexOf(p).c_str(), hexOf(p).c_str());
   }

   // documented, non-range pattern + subjects: every string of length <= L over a per-pattern alphabet (both sides of
   // the "iff"), members of the language, and one-edit neighbours of members
   void genDocumented(Rng & r, const Tier & tier, FILE * out)
   {
      G g(r);
      const doc::Node t = g.alts(2);
      g.render(t);
      std::string body = g.out;
      if ((!body.empty())&&(strchr("~`<", body[0]) != NULL)) body = "\\" + body;   // a prefix character meant literally is written escaped
      const std::string p = (r.chance(1,5) ? "~" : "") + body;
      fprintf(out, "gpat %s\n", hexOf(p).c_str());
      emitObservers(out, p);
      // alphabet for the exhaustive part: characters of the pattern first, then letters
      std::string pool = g.litChars + kLetters, sigma;
      const uint32_t want = tier.thorough ? 5 : 4;
      for (int tries=0; (tries<60)&&(sigma.size()<want); tries++) {const char c = pool[r.below((uint32_t)pool.size())]; if (sigma.find(c) == std::string::npos) sigma.push_back(c);}
      std::vector<std::string> subj; allStrings(sigma, tier.thorough ? 4 : 3, subj);
      const uint32_t nsamp = tier.thorough ? 16 : 8;
      for (uint32_t i=0; i<nsamp; i++)
      {
         std::string s; g.sample(t, s);
         if (s.size() > 12) s.resize(12);
         subj.push_back(s); subj.push_back(mutate(r, s));
         if (r.chance(1,2)) subj.push_back(mutate(r, mutate(r, s)));
      }
      subj.push_back(mstr(RemoveEscapeChars(String(p.data(), (uint32)p.size()))));
      for (size_t i=0; i<subj.size(); i++) if (!hasNul(subj[i])) fprintf(out, "match %s\n", hexOf(subj[i]).c_str());
   }

   // range list + subjects: decimals around every boundary, non-numeric strings, and strings that merely START with a
   // number or are too large for 32 bits (former finding F9; regression case corpus/C15/wc-regress-F9.ops)
   void genRanges(Rng & r, const Tier & tier, FILE * out, bool malformed)
   {
      static const uint64_t nums[] = {0,1,2,5,7,9,10,11,19,21,25,99,100,101,255,65535,65536,4294967293ULL,4294967294ULL};
      std::string p = r.chance(1,5) ? "~<" : "<";
      std::vector<uint64_t> bounds;
      if (!malformed)
      {
         const uint32_t n = r.range(1,4);
         for (uint32_t i=0; i<n; i++)
         {
            if (i) p.push_back(',');
            uint64_t a = nums[r.below(19)], b = nums[r.below(19)]; if (a > b) std::swap(a, b);
            if (r.chance(1,6)) {a = r.below(1000); b = a + r.below(50);}
            bounds.push_back(a); bounds.push_back(b);
            if (r.chance(1,8))
            {
               // not documented (so emitted as `pat`, no oracle verdict), but plain C++ on the code side: reversed bounds,
               // numbers that do not fit 32 bits, blanks
               switch(r.below(4))
               {
                  case 0: p += u64s(b) + "-" + u64s(a); break;
                  case 1: p += r.chance(1,2) ? "4294967296" : (r.chance(1,2) ? "9999999999-" : "-18446744073709551617"); break;
                  case 2: p += " " + u64s(a) + " - " + u64s(b) + " "; break;
                  default: p += u64s(a) + "-" + u64s(b) + "-" + u64s(r.below(30)); break;
               }
               continue;
            }
            switch(r.below(6))
            {
               case 0: p += u64s(a); break;
               case 1: p += "-" + u64s(b); break;
               case 2: p += u64s(a) + "-"; break;
               case 3: if (r.chance(1,4)) {p += "-"; break;}   // else fall through
               default: p += u64s(a) + "-" + u64s(b); break;
            }
         }
         p.push_back('>');
      }
      else
      {
         static const char * rc = "0123456789-,,-- >x<~\t";
         const uint32_t n = r.below(9);
         for (uint32_t i=0; i<n; i++) p.push_back(r.chance(1,2) ? (char)('0'+r.below(10)) : rc[r.below((uint32_t)strlen(rc))]);
         if (r.chance(5,6)) p.push_back('>');
         if (r.chance(1,10)) p.push_back(r.chance(1,2) ? '>' : 'a');
         for (size_t i=0; i<p.size(); i++) if ((p[i] >= '0')&&(p[i] <= '9')) bounds.push_back((uint64_t)(p[i]-'0'));
         bounds.push_back(r.below(100));
      }
      const bool documented = doc::parse(p).inGrammar;
      fprintf(out, "%s %s\n", ((!malformed)&&(documented)) ? "gpat" : "pat", hexOf(p).c_str());
      emitObservers(out, p);
      std::vector<std::string> subj;
      for (size_t i=0; i<bounds.size(); i++) for (int d=-1; d<=1; d++)
      {
         const uint64_t v = bounds[i] + (uint64_t)d;
         if ((bounds[i] == 0)&&(d < 0)) continue;
         if (v < 4294967296ULL) subj.push_back(u64s(v));
      }
      static const char * other[] = {"", "x", "a5", "-5", " 5", "+5", "<5>", "~", "five", ">", "-"};
      for (size_t i=0; i<sizeof(other)/sizeof(other[0]); i++) subj.push_back(other[i]);
      for (uint32_t i=0; i<(tier.thorough?12u:6u); i++) subj.push_back(u64s(r.chance(1,2) ? r.below(120) : (uint64_t)(r.next() % 4294967296ULL)));
      {
         static const char * pre[] = {"6x", "06", "007", "00", "5-7", "7>", "4294967295", "4294967296", "4294967301", "4294967302", "18446744073709551621", "99999999999999999999999", "5 ", "1e3", "0x10"};
         for (size_t i=0; i<sizeof(pre)/sizeof(pre[0]); i++) subj.push_back(pre[i]);
         for (size_t i=0; (i<bounds.size())&&(i<4); i++) {subj.push_back("0" + u64s(bounds[i])); subj.push_back(u64s(bounds[i]) + "x"); subj.push_back(u64s(bounds[i] + 4294967296ULL));}
      }
      for (size_t i=0; i<subj.size(); i++) fprintf(out, "match %s\n", hexOf(subj[i]).c_str());
   }

   // strings that are (mostly) NOT documented patterns: dangling backslash, unbalanced brackets, { } ^ $ and | at the
   // edges, backtick regexes … — must not crash; whatever has a documented meaning is still judged by the oracle
   void genMalformed(Rng & r, const Tier & tier, FILE * out)
   {
      const std::string a = alphabet();
      std::string p;
      for (int tries=0; tries<20; tries++)
      {
         p.clear();
         if (r.chance(1,2))
         {
            G g(r); const doc::Node t = g.alts(2); g.render(t); p = g.out;
            const uint32_t k = r.range(1,3);
            for (uint32_t i=0; i<k; i++)
            {
               switch(r.below(5))
               {
                  case 0: if (!p.empty()) p.erase(r.below((uint32_t)p.size()), 1); break;
                  case 1: p.insert(r.below((uint32_t)p.size()+1), 1, kMeta[r.below((uint32_t)strlen(kMeta))]); break;
                  case 2: p.push_back(r.chance(1,2) ? '\\' : kMeta[r.below((uint32_t)strlen(kMeta))]); break;
                  case 3: p.insert(0, 1, kMeta[r.below((uint32_t)strlen(kMeta))]); break;
                  default: if (!p.empty()) p[r.below((uint32_t)p.size())] = kMeta[r.below((uint32_t)strlen(kMeta))]; break;
               }
            }
         }
         else
         {
            const uint32_t n = r.below(9);
            for (uint32_t i=0; i<n; i++) p.push_back(r.chance(1,3) ? kLetters[r.below(4)] : a[r.below((uint32_t)a.size())]);
            if (r.chance(1,20)) p.push_back((char)r.range(1,255));
         }
         const doc::Pattern d = doc::parse(p);
         if ((d.inGrammar)&&(d.isRanges)) continue;         // range lists have their own stream with clean subjects
         break;
      }
      fprintf(out, "pat %s\n", hexOf(p).c_str());
      emitObservers(out, p);
      std::vector<std::string> subj;
      subj.push_back(""); subj.push_back(p); subj.push_back(mstr(RemoveEscapeChars(String(p.data(), (uint32)p.size()))));
      const uint32_t n = tier.thorough ? 24 : 12;
      for (uint32_t i=0; i<n; i++)
      {
         std::string s; const uint32_t len = r.below(6);
         for (uint32_t j=0; j<len; j++) s.push_back(r.chance(1,2) ? kLetters[r.below(4)] : a[r.below((uint32_t)a.size())]);
         subj.push_back(s);
         subj.push_back(mutate(r, subj[r.below((uint32_t)subj.size())]));
      }
      for (size_t i=0; i<subj.size(); i++) if (!hasNul(subj[i])) fprintf(out, "match %s\n", hexOf(subj[i]).c_str());
   }

   virtual void gen(Rng & r, const Tier & tier, FILE * out)
   {
      uint32_t caseNo = 0;
      #define NEWCASE fprintf(out, "case %u\n", (caseNo++)*tier.nshards + tier.shard)
      // (1) IsRegexToken: the whole table, every run
      if (tier.shard == 0)
      {
         NEWCASE;
         for (uint32_t c=0; c<256; c++) {fprintf(out, "tok %u 0\n", c); fprintf(out, "tok %u 1\n", c);}
      }
      // (2) escape: every string up to length 3 (quick) / 4 (thorough) over {a,0} + every metacharacter, split over the shards
      {
         const std::string sigma = std::string("a0") + kMeta;
         std::vector<std::string> all; allStrings(sigma, tier.thorough ? 4 : 3, all);
         uint32_t inCase = 0;
         for (size_t i=tier.shard; i<all.size(); i+=tier.nshards)
         {
            if ((inCase++ % 200) == 0) NEWCASE;
            fprintf(out, "esc %s\n", hexOf(all[i]).c_str());
            if ((i/tier.nshards) % 8 == 0) {fprintf(out, "unesc %s\n", hexOf(all[i]).c_str()); fprintf(out, "cmm %s\n", hexOf(all[i]).c_str());}
         }
         const uint32_t extra = tier.thorough ? 3000 : 300;
         for (uint32_t k=0; k<extra; k++)
         {
            std::string s; const uint32_t len = r.range(4, 9);
            for (uint32_t j=0; j<len; j++) s.push_back(r.chance(1,20) ? (char)r.range(1,255) : sigma[r.below((uint32_t)sigma.size())]);
            if ((inCase++ % 200) == 0) NEWCASE;
            fprintf(out, "esc %s\n", hexOf(s).c_str());
            fprintf(out, "unesc %s\n", hexOf(s).c_str());
            fprintf(out, "cmm %s\n", hexOf(s).c_str());
         }
      }
      // (2b) the single-valued test: every string up to length 4 (thorough: 5) over {a \ * , - ~ <} through
      //      CanWildcardStringMatchMultipleValues / RemoveEscapeChars, and the short ones as patterns with the subjects that
      //      tell "one string" from "several" apart
      {
         const std::string sigma = "a\\*,-~<";
         std::vector<std::string> all; allStrings(sigma, tier.thorough ? 5 : 4, all);
         uint32_t inCase = 0;
         for (size_t i=tier.shard; i<all.size(); i+=tier.nshards)
         {
            const std::string & w = all[i];
            if ((inCase++ % 100) == 0) NEWCASE;
            fprintf(out, "cmm %s\nunesc %s\n", hexOf(w).c_str(), hexOf(w).c_str());
            if (w.size() <= 3)
            {
               const std::string u = mstr(RemoveEscapeChars(String(w.data(), (uint32)w.size())));
               fprintf(out, "pat %s\nflags\n", hexOf(w).c_str());
               fprintf(out, "match %s\nmatch %s\nmatch %s\nmatch %s\n", hexOf(u).c_str(), hexOf(u+"a").c_str(), hexOf(w).c_str(), hexOf("a"+u).c_str());
            }
         }
      }
      // (3) patterns
      const uint32_t ncases = tier.thorough ? 600 : 70;
      for (uint32_t c=0; c<ncases; c++)
      {
         NEWCASE;
         const uint32_t npat = r.range(1,3);     // several SetPattern calls on the same object
         for (uint32_t k=0; k<npat; k++)
         {
            const uint32_t w = r.below(100);
            if (w < 62) genDocumented(r, tier, out);
            else if (w < 74) genRanges(r, tier, out, false);
            else if (w < 82) genRanges(r, tier, out, true);
            else genMalformed(r, tier, out);
         }
      }
      #undef NEWCASE
   }

   // ------------------------------------------------------------------ execution
   virtual void reset() {delete sm; sm = new StringMatcher; pat.clear(); cur = doc::Pattern(); matched.clear();}

   static bool arg(const std::string & tok, std::string & out) {return (unhex(tok, out))&&(!hasNul(out));}
   static const char * b01(bool b) {return b ? "1" : "0";}

   void escapeOracle(const std::string & s, const std::string & e)
   {
      const String es(e.data(), (uint32)e.size());
      if (mstr(RemoveEscapeChars(es)) != s) {oracleFail("escape: RemoveEscapeChars(EscapeRegexTokens(s)) != s for s=" + hexOf(s)); return;}
      StringMatcher m;
      if (m.SetPattern(es, true).IsError()) {oracleFail("escape: the escaped string is not a valid pattern, s=" + hexOf(s)); return;}
      // (a leading backtick used to be left unescaped — finding "tick", fixed in /repo; corpus/C15/wc-regress-tick.ops is its regression case)
      const char * tag = "escape: ";
      if (!m.Match(s.c_str())) {oracleFail(std::string(tag) + "the escaped pattern does not match the string itself, s=" + hexOf(s)); return;}
      if (!m.IsPatternUnique()) {oracleFail("escape: the escaped pattern is not reported unique, s=" + hexOf(s)); return;}
      // exactness: no one-edit neighbour matches
      const std::string sigma = std::string("ab0") + kMeta;
      for (size_t i=0; i<=s.size(); i++)
      {
         std::string t;
         if (i < s.size()) {t = s; t.erase(i, 1); if (m.Match(t.c_str())) {oracleFail(std::string(tag) + "the escaped pattern of s=" + hexOf(s) + " also matches " + hexOf(t)); return;}}
         for (size_t j=0; j<sigma.size(); j++)
         {
            t = s; t.insert(i, 1, sigma[j]);
            if (m.Match(t.c_str())) {oracleFail(std::string(tag) + "the escaped pattern of s=" + hexOf(s) + " also matches " + hexOf(t)); return;}
            if (i < s.size()) {t = s; t[i] = sigma[j]; if ((t != s)&&(m.Match(t.c_str()))) {oracleFail(std::string(tag) + "the escaped pattern of s=" + hexOf(s) + " also matches " + hexOf(t)); return;}}
         }
      }
   }

   virtual std::string step(const std::vector<std::string> & t)
   {
      const std::string & op = t[0];
      std::string s;
      if (((op == "pat")||(op == "gpat"))&&(t.size() == 2))
      {
         if (!arg(t[1], s)) return "bad-op";
         pat = s; matched.clear();
         const status_t r = sm->SetPattern(String(s.data(), (uint32)s.size()), true);
         cur = doc::parse(s);
         if ((op == "gpat")&&(!cur.inGrammar)) oracleFail("generator: a pattern announced as documented is not accepted by the oracle's parser: " + hexOf(s));
         if ((cur.inGrammar)&&(r.IsError())) oracleFail("SetPattern rejects a documented pattern: " + hexOf(s));
         if ((cur.inGrammar)&&(sm->IsPatternUnique()))
         {
            const String u = RemoveEscapeChars(String(s.data(), (uint32)s.size()));
            if (!sm->Match(u())) oracleFail("unique: IsPatternUnique() but the pattern does not match its own unescaped text, pattern=" + hexOf(s));
         }
         return r.IsOK() ? "ok" : "err";
      }
      if ((op == "flags")&&(t.size() == 1))
      {
         return std::string("u=") + b01(sm->IsPatternUnique()) + " l=" + b01(sm->IsPatternListOfUniqueValues()) + " n=" + b01(sm->IsNegate());
      }
      if ((op == "tostr")&&(t.size() == 1)) return hexOf(mstr(sm->ToString()));
      if ((op == "match")&&(t.size() == 2))
      {
         if (!arg(t[1], s)) return "bad-op";
         const bool real = sm->Match(s.c_str());
         if (cur.inGrammar)
         {
            const bool want = cur.denotes(s);
            if (real != want)
            {
               const std::string why = cur.isRanges ? "range: " : "match: ";
               oracleFail(why + "Match() differs from the documented meaning: pattern=" + hexOf(pat) + " subject=" + hexOf(s) + " Match=" + b01(real) + " documented=" + b01(want));
            }
         }
         if (real)
         {
            matched.insert(s);
            if ((matched.size() >= 2)&&(!CanWildcardStringMatchMultipleValues(String(pat.data(), (uint32)pat.size()))))
               oracleFail("multi: two different strings match but CanWildcardStringMatchMultipleValues() says no: pattern=" + hexOf(pat) + " subjects=" + hexOf(*matched.begin()) + "," + hexOf(*matched.rbegin()));
            if ((sm->IsPatternUnique())&&(cur.inGrammar)&&(s != mstr(RemoveEscapeChars(String(pat.data(), (uint32)pat.size())))))
               oracleFail("unique: IsPatternUnique() but a string other than the unescaped pattern matches: pattern=" + hexOf(pat) + " subject=" + hexOf(s));
         }
         return b01(real);
      }
      if ((op == "esc")&&(t.size() == 2))
      {
         if (!arg(t[1], s)) return "bad-op";
         const std::string e = mstr(EscapeRegexTokens(String(s.data(), (uint32)s.size())));
         escapeOracle(s, e);
         return hexOf(e);
      }
      if ((op == "unesc")&&(t.size() == 2))
      {
         if (!arg(t[1], s)) return "bad-op";
         return hexOf(mstr(RemoveEscapeChars(String(s.data(), (uint32)s.size()))));
      }
      if ((op == "cmm")&&(t.size() == 2))
      {
         if (!arg(t[1], s)) return "bad-op";
         bool only = false;
         const bool m = CanWildcardStringMatchMultipleValues(s.c_str(), &only);
         if (m != CanWildcardStringMatchMultipleValues(s.c_str())) oracleFail("cmm: the result depends on whether the optional out-parameter is given: " + hexOf(s));
         return std::string("m=") + b01(m) + " c=" + b01(only) + " h=" + b01(HasRegexTokens(s.c_str()));
      }
      if ((op == "tok")&&(t.size() == 3))
      {
         uint64_t c, f;
         if ((!toU64(t[1], c))||(!toU64(t[2], f))||(c > 255)||(f > 1)) return "bad-op";
         return b01(IsRegexToken((char)(unsigned char)c, f != 0));
      }
      return "bad-op";
   }

};

int main(int argc, char ** argv) {WcEngine e; return harnessMain(argc, argv, e);}
