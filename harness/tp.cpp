// Engine `tp` (C19): user-thread programs over ONE real muscle::ThreadPool with real IThreadPoolClients, executed on REAL
// threads (the user threads AND the pool's own internal threads) under the deterministic cooperative scheduler
// (libvh/coop.h).  One op line = one complete execution:
//
//    x <maxThreads> <regs> <nthreads> <prog_0> … <prog_{n-1}> <event>*
//
//    regs  = one character per client (1–6 clients): `1` = registered with the pool before the threads start, `0` = not
//    prog  = string over  s<c> client c: SendMessageToThreadPool(Message with what = 100*thread + index of the op in prog)
//                         r<c> client c: SetThreadPool(&pool)        u<c> client c: SetThreadPool(NULL)
//                         D    pool.Shutdown() (reached through AbstractObjectRecycler::FlushCachedObjects(), as SetupSystem does);  `-` = empty
//    event = `<i>`  scheduler thread i takes one step (from its park point to its next one) if it is runnable, else SKIP.
//            Threads 0…n-1 are the user threads; thread n+j is the internal thread of the pool thread with _threadID j.
//    after the listed events the TAIL rule completes the run: lowest-numbered runnable thread steps; if none, stop
//    (verdict `done` if every user thread finished, else `deadlock B=<unfinished user threads>`).
//
// Result line:  one token per event `<i>:<o>` with o = `-` skipped | `.` ran, nothing observable | comma-separated list of
//               s+ s! (submit accepted / refused)  r+ r= (registered / was registered)  u+ u= (unregistered / was not registered)
//               D<n> (Shutdown returned n)  E<c>/<id> X<c>/<id> (handler of client c entered / left for Message id)  Z (pool thread ended);
//               then `|`, the tail's tokens, the verdict, and the pool's tables:
//               A=<available thread ids> B=<active ids> R=<client/beingHandled…> P=<client/#pending…> Q=<client/#deferred…> W=<clients waiting in Unregister> S=<shuttingDown> N=<_threadIDCounter>.
// Park points: every Lock(_poolLock) (always grantable: no park point lies inside a critical section), the
// WaitCondition::Wait of UnregisterClient, Thread::WaitForInternalThreadToExit, the pool thread's start and its wait for
// the next Message from its owner, one explicit yield inside the client's handler (between "enter" and "exit"), and one
// explicit yield at the start of every API call of a user thread.
#include <string>
#include <vector>
#include <set>
#include <map>
#include <algorithm>
#include <deque>
#include <signal.h>
#include "util/Hashtable.h"
#include "util/Queue.h"
#include "util/RefCount.h"
#include "util/ObjectPool.h"
#include "util/OutputPrinter.h"
#include "util/String.h"
#include "util/TimeUtilityFunctions.h"
#include "message/Message.h"
#include "system/Mutex.h"
#include "system/WaitCondition.h"
#include "system/Thread.h"
#include "system/SetupSystem.h"
#include "syslog/SysLog.h"
// The oracle inspects the pool's tables and calls the private Shutdown() through the (then public) recycler base.  Every
// header that ThreadPool.h includes has been included above, so the define below only opens the classes of this one file.
#define private public
#include "system/ThreadPool.h"
#undef private

#include "libvh/vh.h"
#include "libvh/coop.h"

using namespace muscle;

namespace {

enum {MAXU = 4, MAXC = 6, MAXPOOL = 6, TAIL_CAP = 4000};

struct UOp {char kind; int c;};

struct Line
{
   uint32_t maxT;
   std::string regs;
   std::vector<std::string> progText;
   std::vector<std::vector<UOp> > progs;
   std::vector<int> evs;
};

static bool parseProg(const std::string & s, size_t nc, std::vector<UOp> & out)
{
   out.clear();
   if (s == "-") return true;
   if ((s.empty())||(s.size() > 40)) return false;
   for (size_t i=0; i<s.size(); )
   {
      UOp o; o.kind = s[i]; o.c = 0;
      if (s[i] == 'D') {out.push_back(o); i++; continue;}
      if ((strchr("sru", s[i]) == NULL)||(i+1 >= s.size())||(s[i+1] < '0')||(s[i+1] > '9')||((size_t)(s[i+1]-'0') >= nc)) return false;
      o.c = s[i+1]-'0'; out.push_back(o); i += 2;
   }
   return true;
}

static bool parseLine(const std::vector<std::string> & t, Line & L)
{
   if ((t.size() < 5)||(t[0] != "x")) return false;
   uint64_t m, n;
   if ((!vh::toU64(t[1], m))||(m > MAXPOOL)) return false;
   L.maxT = (uint32_t) m;
   L.regs = t[2];
   if ((L.regs.empty())||(L.regs.size() > MAXC)) return false;
   for (size_t i=0; i<L.regs.size(); i++) if ((L.regs[i] != '0')&&(L.regs[i] != '1')) return false;
   if ((!vh::toU64(t[3], n))||(n < 1)||(n > MAXU)||(t.size() < 4+n)) return false;
   L.progs.clear(); L.progText.clear(); L.evs.clear();
   for (size_t i=0; i<n; i++) {std::vector<UOp> p; if (!parseProg(t[4+i], L.regs.size(), p)) return false; L.progs.push_back(p); L.progText.push_back(t[4+i]);}
   for (size_t i=4+n; i<t.size(); i++) {uint64_t k; if ((!vh::toU64(t[i], k))||(k >= MAXU+MAXPOOL)) return false; L.evs.push_back((int)k);}
   return true;
}

static std::string lineTextOf(const Line & L)
{
   std::string s = "x " + vh::u64s(L.maxT) + " " + L.regs + " " + vh::u64s(L.progText.size());
   for (size_t i=0; i<L.progText.size(); i++) s += " " + L.progText[i];
   for (size_t i=0; i<L.evs.size(); i++) s += " " + vh::u64s((uint64_t)L.evs[i]);
   return s;
}

// The contract under which the property is claimed (see the doc comments of IThreadPoolClient: a client object is not
// itself thread-safe, `_threadPool` is an unsynchronised member): a client that is ever (un)registered by a program is
// used by that one thread only; Shutdown() is called at most once and nobody registers with a pool that is shut down;
// the pool has at least one thread.  Lines outside the contract are still executed and compared with the model, but the
// direct oracle is not evaluated on them.
static bool compliant(const Line & L)
{
   if (L.maxT < 1) return false;
   int shutdowns = 0, regs = 0;
   for (size_t t=0; t<L.progs.size(); t++) for (size_t k=0; k<L.progs[t].size(); k++) {if (L.progs[t][k].kind == 'D') shutdowns++; if (L.progs[t][k].kind == 'r') regs++;}
   if ((shutdowns > 1)||((shutdowns > 0)&&(regs > 0))) return false;
   for (size_t c=0; c<L.regs.size(); c++)
   {
      int manager = -1; bool multi = false;
      for (size_t t=0; t<L.progs.size(); t++) for (size_t k=0; k<L.progs[t].size(); k++)
         if ((L.progs[t][k].c == (int)c)&&((L.progs[t][k].kind == 'r')||(L.progs[t][k].kind == 'u'))) {if ((manager >= 0)&&(manager != (int)t)) multi = true; manager = (int) t;}
      if (multi) return false;
      if (manager >= 0) for (size_t t=0; t<L.progs.size(); t++) if ((int)t != manager) for (size_t k=0; k<L.progs[t].size(); k++) if ((L.progs[t][k].kind != 'D')&&(L.progs[t][k].c == (int)c)) return false;
   }
   return true;
}

static bool g_genMode = false;
static std::string g_pendingLine;
static void emitPendingAndDie()
{
   static bool once = false;
   if ((g_genMode)&&(!once)&&(!g_pendingLine.empty())) {once = true; fputs(g_pendingLine.c_str(), stdout); fputc('\n', stdout); fflush(stdout);}
}
static void onFatalSignal(int sig) {emitPendingAndDie(); signal(sig, SIG_DFL); raise(sig);}
extern "C" void __sanitizer_set_death_callback(void (*cb)(void));

struct Exec;

struct TClient : public IThreadPoolClient
{
   Exec * x; int idx;
   TClient(Exec * x_, int i) : IThreadPoolClient(NULL), x(x_), idx(i) {}
   virtual void MessageReceivedFromThreadPool(const MessageRef & msg, uint32 numLeft);
};

// ---------------------------------------------------------------------------------------------------------------------
struct Exec
{
   vh::CoopScheduler & S;
   Exec(vh::CoopScheduler & s) : S(s), pool(NULL) {}

   ThreadPool * pool;
   std::vector<TClient *> clients;
   int n;
   Line L;
   bool checked;                        // the line is inside the contract: evaluate the direct oracle
   bool recording;
   bool shutdownStarted;
   std::string slice;                   // what the running thread reports for this step
   std::vector<std::string> oracle;

   // the handler call log, per client
   std::vector<std::vector<uint32_t> > accepted;   // ids whose SendMessageToThreadPool returned B_NO_ERROR, in order
   std::vector<uint32_t> entered, left;            // number of handler calls entered / returned
   std::vector<int> inHandler;                     // id being handled now, or -1
   uint32_t maxInHandlers;                         // most clients inside handlers at one instant

   // exploration record
   std::vector<int> executed;
   std::vector<std::vector<int> > enabledAt;

   void fail(const std::string & msg) {if ((checked)&&(oracle.size() < 8)&&(std::find(oracle.begin(), oracle.end(), msg) == oracle.end())) oracle.push_back(msg);}
   void say(const std::string & tok) {if (!recording) return; if (!slice.empty()) slice += ","; slice += tok;}

   // DIRECT ORACLE, part 1 (on the handler log): one at a time per client, in submission order, each id at most once
   void onEnter(int c, uint32_t id)
   {
      if (!recording) return;
      say("E" + vh::u64s((uint64_t)c) + "/" + vh::u64s(id));
      if (inHandler[c] >= 0) fail("client " + vh::u64s((uint64_t)c) + ": handler entered for Message " + vh::u64s(id) + " while its handler for Message " + vh::u64s((uint64_t)inHandler[c]) + " has not returned (two pool threads at the same time)");
      const uint32_t k = entered[c]++;
      if (k >= accepted[c].size()) fail("client " + vh::u64s((uint64_t)c) + ": handler called for Message " + vh::u64s(id) + " but only " + vh::u64s(accepted[c].size()) + " Messages were accepted (handled twice, or never submitted)");
      else if (accepted[c][k] != id) fail("client " + vh::u64s((uint64_t)c) + ": handler call #" + vh::u64s(k) + " got Message " + vh::u64s(id) + " but the Message submitted at that position is " + vh::u64s(accepted[c][k]) + " (order / exactly-once violated)");
      inHandler[c] = (int) id;
      uint32_t cnt = 0; for (size_t i=0; i<inHandler.size(); i++) if (inHandler[i] >= 0) cnt++;
      if (cnt > maxInHandlers) maxInHandlers = cnt;
      if (cnt > L.maxT) fail("more clients inside handlers (" + vh::u64s(cnt) + ") than the pool has threads");
   }
   void onExit(int c, uint32_t id)
   {
      if (!recording) return;
      say("X" + vh::u64s((uint64_t)c) + "/" + vh::u64s(id));
      if (inHandler[c] != (int) id) fail("client " + vh::u64s((uint64_t)c) + ": handler returned for Message " + vh::u64s(id) + " which is not the one in progress");
      inHandler[c] = -1; left[c]++;
   }

   int clientIndex(const IThreadPoolClient * p) const {for (size_t i=0; i<clients.size(); i++) if (clients[i] == p) return (int) i; return -1;}

   std::string snapshot() const
   {
      std::string s = "A="; bool first = true;
      for (HashtableIterator<uint32, ThreadPool::ThreadPoolThreadRef> it(pool->_availableThreads, HTIT_FLAG_NOREGISTER); it.HasData(); it++) {if (!first) s += ","; first = false; s += vh::u64s(it.GetKey());}
      if (first) s += "_";
      s += " B="; first = true;
      for (HashtableIterator<uint32, ThreadPool::ThreadPoolThreadRef> it(pool->_activeThreads, HTIT_FLAG_NOREGISTER); it.HasData(); it++) {if (!first) s += ","; first = false; s += vh::u64s(it.GetKey());}
      if (first) s += "_";
      s += " R="; first = true;
      for (HashtableIterator<IThreadPoolClient *, bool> it(pool->_registeredClients, HTIT_FLAG_NOREGISTER); it.HasData(); it++) {if (!first) s += ","; first = false; s += vh::u64s((uint64_t)(int64_t)clientIndex(it.GetKey())) + "/" + (it.GetValue() ? "1" : "0");}
      if (first) s += "_";
      s += " P="; first = true;
      for (HashtableIterator<IThreadPoolClient *, Queue<MessageRef> > it(pool->_pendingMessages, HTIT_FLAG_NOREGISTER); it.HasData(); it++) {if (!first) s += ","; first = false; s += vh::u64s((uint64_t)(int64_t)clientIndex(it.GetKey())) + "/" + vh::u64s(it.GetValue().GetNumItems());}
      if (first) s += "_";
      s += " Q="; first = true;
      for (HashtableIterator<IThreadPoolClient *, Queue<MessageRef> > it(pool->_deferredMessages, HTIT_FLAG_NOREGISTER); it.HasData(); it++) {if (!first) s += ","; first = false; s += vh::u64s((uint64_t)(int64_t)clientIndex(it.GetKey())) + "/" + vh::u64s(it.GetValue().GetNumItems());}
      if (first) s += "_";
      s += " W="; first = true;
      for (HashtableIterator<IThreadPoolClient *, WaitCondition *> it(pool->_waitingForCompletion, HTIT_FLAG_NOREGISTER); it.HasData(); it++) {if (!first) s += ","; first = false; s += vh::u64s((uint64_t)(int64_t)clientIndex(it.GetKey()));}
      if (first) s += "_";
      s += std::string(" S=") + (pool->_shuttingDown ? "1" : "0") + " N=" + vh::u64s(pool->_threadIDCounter);
      return s;
   }

   // DIRECT ORACLE, part 2 (on the pool's own tables, evaluated while every thread is parked)
   void checkTables()
   {
      const uint32_t na = pool->_availableThreads.GetNumItems(), nb = pool->_activeThreads.GetNumItems();
      if (na+nb > L.maxT) fail("thread limit exceeded: " + snapshot());
      for (HashtableIterator<uint32, ThreadPool::ThreadPoolThreadRef> it(pool->_availableThreads, HTIT_FLAG_NOREGISTER); it.HasData(); it++)
         if (pool->_activeThreads.ContainsKey(it.GetKey())) fail("a pool thread is in both the available and the active table: " + snapshot());
      for (HashtableIterator<IThreadPoolClient *, Queue<MessageRef> > it(pool->_pendingMessages, HTIT_FLAG_NOREGISTER); it.HasData(); it++)
         if ((it.GetValue().HasItems())&&(pool->_registeredClients.GetWithDefault(it.GetKey()))) fail("a client that is being handled has Messages in the pending table: " + snapshot());
      // a client whose handler is running must be marked as being handled (unless the pool is shutting down)
      if (!pool->_shuttingDown) for (size_t c=0; c<clients.size(); c++)
         if ((inHandler[c] >= 0)&&(pool->_registeredClients.GetWithDefault(clients[c]) == false)) fail("client " + vh::u64s(c) + " is inside its handler but not marked as being handled: " + snapshot());
   }

   void body(int t)
   {
      const std::vector<UOp> & prog = L.progs[(size_t)t];
      for (size_t k=0; k<prog.size(); k++)
      {
         if (S.aborting()) break;
         vh::CoopScheduler::yieldPoint();
         if ((S.aborting())||(!recording)) break;
         const UOp o = prog[k];
         TClient * cl = (o.kind == 'D') ? NULL : clients[(size_t)o.c];
         switch(o.kind)
         {
            case 's':
            {
               const uint32_t id = (uint32_t)(100*t+(int)k);
               MessageRef m = GetMessageFromPool(id);
               const status_t r = cl->SendMessageToThreadPool(m);
               if ((S.aborting())||(!recording)) return;
               if (r.IsOK()) accepted[(size_t)o.c].push_back(id);
               say(r.IsOK() ? "s+" : "s!");
            }
            break;
            case 'r':
            {
               const bool was = (cl->GetThreadPool() != NULL);
               cl->SetThreadPool(pool);
               if ((S.aborting())||(!recording)) return;
               say(was ? "r=" : ((cl->GetThreadPool() != NULL) ? "r+" : "r!"));
            }
            break;
            case 'u':
            {
               const bool was = (cl->GetThreadPool() != NULL);
               cl->SetThreadPool(NULL);
               if ((S.aborting())||(!recording)) return;
               say(was ? "u+" : "u=");
               // DIRECT ORACLE, part 3: unregistering returns only after all the client's submitted Messages have been handled
               if (was)
               {
                  if (inHandler[(size_t)o.c] >= 0) fail("SetThreadPool(NULL) of client " + vh::u64s((uint64_t)o.c) + " returned while its handler for Message " + vh::u64s((uint64_t)inHandler[(size_t)o.c]) + " is still running");
                  if ((!shutdownStarted)&&(left[(size_t)o.c] != accepted[(size_t)o.c].size())) fail("SetThreadPool(NULL) of client " + vh::u64s((uint64_t)o.c) + " returned with " + vh::u64s(left[(size_t)o.c]) + " of its " + vh::u64s(accepted[(size_t)o.c].size()) + " accepted Messages handled");
               }
            }
            break;
            default:
            {
               shutdownStarted = true;
               const uint32 cnt = static_cast<AbstractObjectRecycler *>(pool)->FlushCachedObjects();   // = pool->Shutdown()
               if ((S.aborting())||(!recording)) return;
               say("D" + vh::u64s(cnt));
               // DIRECT ORACLE, part 4: Shutdown() returns only when every pool thread has ended and no handler is running
               for (int i=n; i<S.numThreads(); i++) if (!S.finished(i)) fail("Shutdown() returned while pool thread " + vh::u64s((uint64_t)(i-n)) + " is still alive");
               for (size_t c=0; c<inHandler.size(); c++) if (inHandler[c] >= 0) fail("Shutdown() returned while the handler of client " + vh::u64s(c) + " is still running");
            }
            break;
         }
      }
   }

   static void userEvent(vh::CoopScheduler & s, int me, int kind, const void * obj, long arg, void * user)
   {
      (void) s; (void) obj; (void) arg;
      Exec * x = (Exec *) user;
      if ((kind == MUSCLE_VH_THREAD_EXIT)&&(me >= 0)) x->say("Z");
   }

   void noteEnabled()
   {
      std::vector<int> en;
      const int nt = S.numThreads();
      for (int i=0; i<nt; i++) if (S.runnable(i)) en.push_back(i);
      enabledAt.push_back(en);
   }

   // policy: 0 = the TAIL rule of the line protocol; 1 = the generator's non-preemptive default (keep running the last thread while it is runnable)
   std::string run(const Line & line, int policy = 0)
   {
      L = line;
      S.reset();
      S.install();
      S.setAllWaitConditionsRelevant(true);
      S.setAllThreadsRelevant(true);
      S.setParkPolicy(MUSCLE_VH_SIG_SEND, false);   // the signal byte is sent inside the critical section that queued the Message: not a step of its own
      S.setUserEvent(&Exec::userEvent, this);
      pool = new ThreadPool(L.maxT);
      S.registerObject(&pool->_poolLock);
      n = (int) L.progs.size();
      const size_t nc = L.regs.size();
      clients.clear();
      for (size_t c=0; c<nc; c++) clients.push_back(new TClient(this, (int)c));
      for (size_t c=0; c<nc; c++) if (L.regs[c] == '1') clients[c]->SetThreadPool(pool);   // sequential set-up, on the controller thread
      accepted.assign(nc, std::vector<uint32_t>()); entered.assign(nc, 0); left.assign(nc, 0); inHandler.assign(nc, -1); maxInHandlers = 0;
      checked = compliant(L); recording = true; shutdownStarted = false;
      slice.clear(); oracle.clear(); executed.clear(); enabledAt.clear();
      for (int i=0; i<n; i++) {Exec * self = this; S.spawn([self, i]() {self->body(i);});}

      std::string out;
      int last = -1;
      std::string ranText;
      if (g_genMode) {Line b = L; b.evs.clear(); ranText = lineTextOf(b);}
      for (size_t e=0; e<L.evs.size(); e++)
      {
         const int i = L.evs[e];
         if (g_genMode) g_pendingLine = ranText + " " + vh::u64s((uint64_t)i);
         slice.clear();
         if (S.runnable(i)) noteEnabled();
         const vh::CoopScheduler::StepResult r = S.grant(i);
         if (!out.empty()) out += " ";
         out += vh::u64s((uint64_t)i) + ":";
         if (r == vh::CoopScheduler::STEP_SKIPPED) out += "-";
         else {out += slice.empty() ? std::string(".") : slice; executed.push_back(i); if (g_genMode) ranText += " " + vh::u64s((uint64_t)i); checkTables(); last = i;}
      }
      out += out.empty() ? "|" : " |";
      for (int steps=0; steps<TAIL_CAP; steps++)
      {
         int pick = -1;
         const int nt = S.numThreads();
         if ((policy == 1)&&(last >= 0)&&(S.runnable(last))) pick = last;
         else for (int i=0; i<nt; i++) if (S.runnable(i)) {pick = i; break;}
         if (pick < 0) break;
         slice.clear();
         if (g_genMode) {g_pendingLine = ranText + " " + vh::u64s((uint64_t)pick); ranText = g_pendingLine;}
         noteEnabled();
         (void) S.grant(pick);
         out += " " + vh::u64s((uint64_t)pick) + ":" + (slice.empty() ? std::string(".") : slice);
         executed.push_back(pick); checkTables(); last = pick;
      }
      bool done = true; std::string b;
      for (int i=0; i<n; i++) if (!S.finished(i)) {done = false; if (!b.empty()) b += ","; b += vh::u64s((uint64_t)i);}
      out += done ? std::string(" done") : (" deadlock B=" + b);
      out += " " + snapshot();

      // DIRECT ORACLE, part 5 (end of the run): no deadlock; without a shutdown every accepted Message was handled exactly once
      if (!done) fail("deadlock: user thread(s) " + b + " can never finish: " + snapshot());
      else
      {
         for (size_t c=0; c<nc; c++)
         {
            if (inHandler[c] >= 0) fail("run ended with client " + vh::u64s(c) + " still inside its handler");
            if ((!shutdownStarted)&&(left[c] != accepted[c].size())) fail("client " + vh::u64s(c) + ": " + vh::u64s(accepted[c].size()) + " Messages accepted but " + vh::u64s(left[c]) + " handled (and no shutdown)");
         }
      }

      // tear down outside the model: release every parked thread (pool threads then poll for their quit Message), destroy the pool, then the clients
      recording = false;
      if (S.beginAbort() == false) {fprintf(stderr, "tp: cannot unwind\n"); fflush(stdout); _exit(3);}
      for (int i=0; i<n; i++) S.waitFinished(i);
      delete pool; pool = NULL;      // ~ThreadPool() = Shutdown(): joins the pool threads, detaches the clients
      S.waitAllFinished();
      for (size_t c=0; c<nc; c++) {clients[c]->_threadPool = NULL; delete clients[c];}
      clients.clear();
      g_pendingLine.clear();
      return out;
   }
};

void TClient :: MessageReceivedFromThreadPool(const MessageRef & msg, uint32 /*numLeft*/)
{
   const uint32_t id = msg()->what;
   x->onEnter(idx, id);
   vh::CoopScheduler::yieldPoint();
   x->onExit(idx, id);
}

// ---------------------------------------------------------------------------------------------------------------------
struct TPEngine : public vh::Engine
{
   vh::CoopScheduler S;
   Exec X;
   uint64_t lineNo;
   TPEngine() : X(S), lineNo(0) {}

   virtual void reset() {}

   virtual std::string step(const std::vector<std::string> & toks)
   {
      Line L;
      if (!parseLine(toks, L)) return "bad-op";
      const std::string r = X.run(L);
      std::vector<std::string> orc = X.oracle;
      for (size_t i=0; i<orc.size(); i++) vh::oracleFail(orc[i]);
      if ((lineNo++ % 16) == 0)
      {
         const std::string r2 = X.run(L);   // scheduler self-test: the result must be a function of the line alone
         if (r2 != r) vh::oracleFail("scheduler self-test: two executions of the same line differ: [" + r + "] vs [" + r2 + "]");
      }
      return r;
   }

   // ---- generator -------------------------------------------------------------------------------------------------
   // Programs inside the contract: every client has one owner thread which alone may (un)register it; clients that are
   // never (un)registered ("shared") may be submitted to from every thread; at most one Shutdown, and then no register ops.
   void genLine(vh::Rng & rng, Line & L, uint32_t maxOps)
   {
      L.maxT = rng.chance(1,2) ? 1+rng.below(2) : 1+rng.below(3);
      const uint32_t nc = rng.range(1, 4);
      const uint32_t nt = rng.range(1, 3);
      const bool withShutdown = rng.chance(1,4);
      std::vector<int> owner(nc); std::vector<bool> shared(nc);
      L.regs.clear();
      for (uint32_t c=0; c<nc; c++)
      {
         owner[c] = (int) rng.below(nt);
         shared[c] = rng.chance(1,4);
         L.regs.push_back(((shared[c])||(withShutdown)||(rng.chance(3,4))) ? '1' : '0');
      }
      L.progs.clear(); L.progText.clear(); L.evs.clear();
      const uint32_t sdThread = rng.below(nt);
      for (uint32_t t=0; t<nt; t++)
      {
         std::string p;
         std::vector<uint32_t> mine;
         for (uint32_t c=0; c<nc; c++) if ((shared[c])||(owner[c] == (int)t)) mine.push_back(c);
         const uint32_t len = (mine.empty()) ? 0 : (rng.chance(1,6) ? rng.range(0, maxOps) : rng.range((maxOps+1)/2, maxOps));
         std::vector<std::string> ops_;
         for (uint32_t k=0; k<len; k++)
         {
            const uint32_t c = mine[rng.below((uint32_t)mine.size())];
            const uint32_t r = rng.below(10);
            char kind = 's';
            if ((!shared[c])&&(owner[c] == (int)t)) {if (r < 2) kind = 'u'; else if ((r < 4)&&(!withShutdown)) kind = 'r';}
            std::string o; o.push_back(kind); o.push_back((char)('0'+c)); ops_.push_back(o);
         }
         if ((withShutdown)&&(t == sdThread)) ops_.insert(ops_.begin()+rng.below((uint32_t)ops_.size()+1), std::string("D"));
         for (size_t k=0; k<ops_.size(); k++) p += ops_[k];
         if (p.empty()) p = "-";
         std::vector<UOp> ops; (void) parseProg(p, nc, ops);
         L.progs.push_back(ops); L.progText.push_back(p);
      }
   }

   void emitLine(FILE * out, const Line & L) {fputs(lineTextOf(L).c_str(), out); fputc('\n', out);}

   // bounded-preemption exploration (stateless, by re-execution): schedules with at most `bound` preemptions, fewest first,
   // each emitted as a fully explicit event list
   struct Item {std::vector<int> prefix; int cost;};
   void explore(FILE * out, const Line & base, int bound, uint32_t quota)
   {
      std::vector<std::deque<Item> > work((size_t)bound+1);
      Item first; first.cost = 0; work[0].push_back(first);
      while(quota > 0)
      {
         int lvl = -1;
         for (int b=0; b<=bound; b++) if (!work[(size_t)b].empty()) {lvl = b; break;}
         if (lvl < 0) break;
         const Item it = work[(size_t)lvl].front(); work[(size_t)lvl].pop_front();
         Line L = base; L.evs = it.prefix;
         (void) X.run(L, 1);
         const std::vector<int> ex = X.executed;
         const std::vector<std::vector<int> > en = X.enabledAt;
         Line full = base; full.evs = ex;
         emitLine(out, full); quota--;
         int lastThread = -1;
         for (size_t j=0; j<ex.size(); j++)
         {
            if (j >= it.prefix.size()) for (size_t a=0; a<en[j].size(); a++)
            {
               if (en[j][a] == ex[j]) continue;
               bool lastRunnable = false;
               for (size_t b=0; b<en[j].size(); b++) if (en[j][b] == lastThread) lastRunnable = true;
               const int cost = ((lastRunnable)&&(en[j][a] != lastThread)) ? 1 : 0;
               if (it.cost+cost > bound) continue;
               Item ni; ni.prefix.assign(ex.begin(), ex.begin()+j); ni.prefix.push_back(en[j][a]); ni.cost = it.cost+cost;
               work[(size_t)ni.cost].push_back(ni);
            }
            lastThread = ex[j];
         }
      }
   }

   virtual void gen(vh::Rng & rng, const vh::Tier & tier, FILE * out)
   {
      g_genMode = true;
      signal(SIGABRT, onFatalSignal); signal(SIGSEGV, onFatalSignal);
      __sanitizer_set_death_callback(emitPendingAndDie);
      const uint32_t nprogs   = tier.thorough ? 120 : 12;     // programs explored per shard
      const uint32_t perProg  = tier.thorough ? 250 : 120;    // cap on explored schedules per program (fewest preemptions first)
      const uint32_t nrandom  = tier.thorough ? 12000 : 700;  // random lines per shard
      const int bound = tier.thorough ? 3 : 2;
      uint32_t caseNo = tier.shard*100000;
      for (uint32_t p=0; p<nprogs; p++)
      {
         Line L; genLine(rng, L, (p%3 == 0) ? 3 : 4);
         fprintf(out, "case %u\n", caseNo++);
         explore(out, L, bound, perProg);
      }
      // random beyond the bound: arbitrary event lists (disabled events are skipped, the tail rule completes the run)
      for (uint32_t k=0; k<nrandom; k++)
      {
         if ((k % 50) == 0) fprintf(out, "case %u\n", caseNo++);
         Line L; genLine(rng, L, 5);
         const uint32_t nev = rng.chance(1,6) ? 0 : rng.range(1, 90);
         const uint32_t nt = (uint32_t) L.progs.size() + L.maxT;
         int cur = (int) rng.below(nt);
         for (uint32_t e=0; e<nev; e++)
         {
            if (rng.chance(1,3)) cur = (int) rng.below(nt + (rng.chance(1,20) ? 1 : 0));
            L.evs.push_back(cur);
         }
         emitLine(out, L);
      }
   }
};

} // namespace

int main(int argc, char ** argv)
{
   CompleteSetupSystem css;
   SetConsoleLogLevel(MUSCLE_LOG_NONE);
   TPEngine e;
   return vh::harnessMain(argc, argv, e);
}
