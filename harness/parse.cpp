// Engine `parse` (C02, Message parsers): one hostile byte string per op, handed to one parser of received data:
//    parse <cpp|mini|micro|py> x<hex>   ->   ok <canonical dump>  |  err
// cpp = Message::UnflattenFromBytes, mini = MMUnflattenMessage, micro = UMInitializeWithExistingData + every public
// accessor (the micro codec parses lazily, in its getters), py = lang/python3/message.py Message.Unflatten (subprocess).
// The Lean engine `parse` predicts the cpp line from the parser model `decode`; for the other parsers it prints `?`.
//
// DIRECT ORACLE of C02 per op (needs no model): the parser returns normally from an EXACT-SIZE heap copy of the input
// (ASan/UBSan abort otherwise; the framework blames the case), within the watchdog time; its status is ok or error;
// an accepted object can be dumped through every getter and re-flattened into a buffer of exactly its advertised size;
// after the parse — successful or not — the same object parses a known-good encoding to the known-good content
// (destructible and reusable); and the bytes requested from the allocator during the parse are <= K*N + C.
//
// Allocation bound, measured through the sanitizer allocator hooks (malloc/calloc/realloc/operator new all end there):
//    cumulative bytes REQUESTED during the parser call  <=  ALLOC_K * N + ALLOC_C      (N = input length)
// Justification of K = 96: the densest legal input is a run of minimal fields (13 bytes each on the wire: 4 name length,
// 1 NUL, 4 type, 4 payload length, empty Message payload); each becomes a Hashtable entry holding a String key and a
// MessageField (about 150 bytes with the index arrays), and the table grows by doubling, so the cumulative request is up
// to 2-3 times the final size: about 35 bytes per input byte.  String arrays cost sizeof(String) = 40 bytes per 5-byte item, doubled by the
// Queue's growth.  96 leaves a factor of about 2.5 over the densest case and is far below what a peer-declared count could
// ask for (F1: 30 bytes -> 350 MB = 10^7 per byte).  C = 256 KiB absorbs the ObjectPool slabs (8 KiB each; a parse that
// is the first to need an array class of some type takes a whole slab; pools are warmed up first, but a slab is also
// taken whenever the live objects exceed the slabs at hand) — independent of N.  The worst ratio seen is printed to
// stderr at exit so that the margin is visible.
//
// Known findings are kept OUT of the random stream by construction (they would end the process on most cases and hide
// everything else); their minimal triggers are corpus/C02/parse-known-*.ops:
//   * micro codec (F8, not hardened at all): the random stream gives the micro parser VALID encodings only (every
//     generated sample and its nested forms); truncations/corruptions for it live in the corpus, one per call site.
// Repaired in /repo (regression inputs in corpus/C02/parse-regress-*.ops; the stream contains their input classes again):
//   * mini codec, MINI-UNTERMINATED: MMUnflattenMessage now rejects a string item of length 0 or without NUL terminator —
//     every hostile input goes to the mini codec, string type code or not;
//   * mini codec, rest of F15: MMUnflattenMessage now bounds the nesting (MUSCLE_MAX_MESSAGE_NESTING_DEPTH) — the mini
//     parser gets the same 5 000- and 30 000-level inputs as the C++ parser.
#define main msg_cpp_main_unused
#include "msg.cpp"          // the random-Message builder (generator only) is reused
#undef main
#include "cdialects.h"
#include <signal.h>

using namespace cd;

extern "C" int __sanitizer_install_malloc_and_free_hooks(void (*malloc_hook)(const volatile void *, size_t), void (*free_hook)(const volatile void *));
extern "C" size_t __sanitizer_get_allocated_size(const volatile void * p);

static volatile bool     g_tallyOn = false;
static volatile uint64_t g_req = 0, g_live = 0, g_peak = 0, g_nalloc = 0;
static void mallocHook(const volatile void *, size_t n) {if (g_tallyOn) {g_req += n; g_nalloc++; g_live += n; if (g_live > g_peak) g_peak = g_live;}}
static void freeHook(const volatile void * p) {if ((g_tallyOn)&&(p)) {const uint64_t n = __sanitizer_get_allocated_size(p); g_live = (g_live > n) ? (g_live-n) : 0;}}
struct Tally {Tally() {g_req = g_live = g_peak = g_nalloc = 0; g_tallyOn = true;} ~Tally() {g_tallyOn = false;}};

static const uint64_t ALLOC_K = 96, ALLOC_C = 256*1024;

// symbolising a sanitizer report of this binary can itself take seconds on a loaded machine: a report is not a hang
extern "C" void __asan_on_error() {alarm(0);}
static void onAlarm(int) {vh::oracleFail("hang: the parser did not return within the watchdog time"); fflush(NULL); _exit(96);}

struct ParseEngine : public Engine
{
   MsgEngine me;          // generator only
   PyDriver py;
   bool inGen, hooked;
   std::vector<uint8_t> good; std::string goodCpp, goodMini, goodMicro;
   double worst[4]; uint64_t worstN[4], worstReq[4], count[4];
   std::vector<std::string> pending; uint32_t caseNo, shard, nshards;

   ParseEngine() : inGen(false), hooked(false), caseNo(0), shard(0), nshards(1) {for (int i=0; i<4; i++) {worst[i] = 0; worstN[i] = worstReq[i] = count[i] = 0;}}
   virtual ~ParseEngine()
   {
      static const char * nm[] = {"cpp", "mini", "micro", "py"};
      if (!inGen) for (int i=0; i<4; i++) if (count[i]) fprintf(stderr, "parse: %s: %llu inputs; largest request total %llu bytes (input of %llu bytes); worst requested/N over inputs of >= 512 bytes = %.2f (bound: %llu*N + %llu)\n", nm[i], (unsigned long long)count[i], (unsigned long long)worstReq[i], (unsigned long long)worstN[i], worst[i], (unsigned long long)ALLOC_K, (unsigned long long)ALLOC_C);
   }

   // ------------------------------------------------------------------ generator
   static void put32(std::vector<uint8_t> & b, size_t pos, uint32_t v) {b[pos] = (uint8_t)v; b[pos+1] = (uint8_t)(v>>8); b[pos+2] = (uint8_t)(v>>16); b[pos+3] = (uint8_t)(v>>24);}
   static uint32_t get32(const std::vector<uint8_t> & b, size_t pos) {return (uint32_t)b[pos] | ((uint32_t)b[pos+1]<<8) | ((uint32_t)b[pos+2]<<16) | ((uint32_t)b[pos+3]<<24);}
   static void app32(std::vector<uint8_t> & b, uint32_t v) {b.push_back((uint8_t)v); b.push_back((uint8_t)(v>>8)); b.push_back((uint8_t)(v>>16)); b.push_back((uint8_t)(v>>24));}

   // offsets of every 32-bit word that has a structural role in the valid encoding b[off, end)
   static void collectWords(const std::vector<uint8_t> & b, size_t off, size_t end, std::vector<uint32_t> & out, int depth = 0)
   {
      if ((off+12 > end)||(depth > 64)) return;
      out.push_back((uint32_t)off); out.push_back((uint32_t)off+4); out.push_back((uint32_t)off+8);
      const uint32_t n = get32(b, off+8);
      size_t p = off+12;
      for (uint32_t i=0; (i<n)&&(p+4 <= end); i++)
      {
         out.push_back((uint32_t)p); const uint32_t nl = get32(b, p); p += 4+nl; if (p+8 > end) return;
         out.push_back((uint32_t)p); const uint32_t tc = get32(b, p); p += 4;
         out.push_back((uint32_t)p); const uint32_t pl = get32(b, p); p += 4;
         const size_t pe = p+pl; if (pe > end) return;
         switch(tc)
         {
            case B_BOOL_TYPE: case B_INT8_TYPE: case B_INT16_TYPE: case B_INT32_TYPE: case B_INT64_TYPE: case B_FLOAT_TYPE: case B_DOUBLE_TYPE: case B_POINT_TYPE: case B_RECT_TYPE: break;
            case B_MESSAGE_TYPE:
               for (size_t q=p; q+4<=pe; ) {out.push_back((uint32_t)q); const uint32_t l = get32(b, q); q += 4; if (q+l > pe) break; collectWords(b, q, q+l, out, depth+1); q += l;}
            break;
            default:
               if (p+4 <= pe)
               {
                  out.push_back((uint32_t)p); const uint32_t cnt = get32(b, p); size_t q = p+4;
                  for (uint32_t k=0; (k<cnt)&&(q+4<=pe); k++) {out.push_back((uint32_t)q); q += 4+get32(b, q);}
               }
            break;
         }
         p = pe;
      }
   }

   static const std::vector<uint32_t> & typeCodes()
   {
      static std::vector<uint32_t> v;
      if (v.empty()) {const uint32_t t[] = {B_BOOL_TYPE,B_DOUBLE_TYPE,B_FLOAT_TYPE,B_INT64_TYPE,B_INT32_TYPE,B_INT16_TYPE,B_INT8_TYPE,B_MESSAGE_TYPE,B_POINTER_TYPE,B_POINT_TYPE,B_RECT_TYPE,B_STRING_TYPE,B_RAW_TYPE,B_TAG_TYPE,B_ANY_TYPE,B_BITCHORD_TYPE,1330664530u/*OPTR*/}; v.assign(t, t+sizeof(t)/sizeof(t[0]));}
      return v;
   }
   // the boundary values a 32-bit word at (pos) is replaced by
   static std::vector<uint32_t> boundaryValues(const std::vector<uint8_t> & b, size_t pos)
   {
      const uint32_t len = (uint32_t)b.size(), rem = (uint32_t)(b.size()-pos-4), orig = get32(b, pos);
      const uint32_t v[] = {0, 1, 2, rem-1, rem, rem+1, len-1, len, len+1, orig-1, orig+1, rem/4, rem/2, 255, 256, 65535, 65536, 20000000u, 0x10000000u, 0x7FFFFFFFu, 0x80000000u,
                            0xFFFFFFF8u, 0xFFFFFFF9u, 0xFFFFFFFAu, 0xFFFFFFFBu, 0xFFFFFFFCu, 0xFFFFFFFDu, 0xFFFFFFFEu, 0xFFFFFFFFu};
      std::vector<uint32_t> r(v, v+sizeof(v)/sizeof(v[0]));
      r.insert(r.end(), typeCodes().begin(), typeCodes().end());
      return r;
   }

   enum {P_CPP = 1, P_MINI = 2, P_MICRO = 4, P_PY = 8};
   void flushCase(FILE * out)
   {
      if (pending.empty()) return;
      fprintf(out, "case %u\n", (caseNo++)*nshards + shard);
      for (size_t i=0; i<pending.size(); i++) {fputs(pending[i].c_str(), out); fputc('\n', out);}
      pending.clear();
   }
   void emitParse(FILE * out, int parsers, const std::vector<uint8_t> & b)
   {
      const std::string h = hexOf(b);
      if (parsers & P_CPP)   pending.push_back("parse cpp " + h);
      if (parsers & P_MINI)  pending.push_back("parse mini " + h);
      if (parsers & P_MICRO) pending.push_back("parse micro " + h);
      if (parsers & P_PY)    pending.push_back("parse py " + h);
      if ((pending.size() >= 8)||(b.size() > 4096)) flushCase(out);
   }

   // a random Message built through the public API (the op generator of msg.cpp), within maxBytes
   std::vector<uint8_t> sample(Rng & r, uint32_t nops, uint32_t maxBytes, bool commonRepertoire)
   {
      FILE * keep = g_oracle; g_oracle = MsgEngine::devnull();
      me.reset();
      std::vector<std::string> names; std::vector<int> types;
      for (int i=0; i<8; i++) {names.push_back(me.genName(r) + std::string(1, (char)('A'+i))); types.push_back((int)r.below(13));}   // distinct names; no pointer/tag: they are not on the wire
      for (uint32_t i=0; i<nops; i++)
      {
         const uint32_t reg = r.chance(1,2) ? 0 : r.below(3);
         const uint32_t k = r.below(8);
         int ty = types[k];
         if ((commonRepertoire)&&(ty == 11)) ty = 10;
         std::string v = me.genVal(r, ty);
         if ((ty == 9)||(ty == 10)) {std::string bytes = me.genBytes(r, ty == 9); if (bytes.size() > 40) bytes.resize(40); v = (ty == 9) ? ("str " + hexOf(bytes)) : ("raw " + u64s(B_RAW_TYPE) + " " + hexOf(bytes));}
         const std::string line = std::string(r.chance(1,6) ? "pre " : "add ") + u64s(reg) + " " + hexOf(names[k]) + " " + v;
         Message before = me.regs[reg];
         (void) me.step(split(line));
         if (me.regs[reg].FlattenedSize() > maxBytes) me.regs[reg] = before;
      }
      g_oracle = keep;
      const Message & m = me.regs[0];
      std::vector<uint8_t> enc(m.FlattenedSize()); m.FlattenToBytes(enc.data());
      return enc;
   }

   static std::vector<uint8_t> nested(uint32_t levels)
   {
      std::vector<uint8_t> cur; app32(cur, CURRENT_PROTOCOL_VERSION); app32(cur, levels); app32(cur, 0);
      for (uint32_t i=1; i<levels; i++)
      {
         std::vector<uint8_t> w; w.reserve(cur.size()+30);
         app32(w, CURRENT_PROTOCOL_VERSION); app32(w, levels-i); app32(w, 1);
         app32(w, 2); w.push_back('m'); w.push_back(0); app32(w, B_MESSAGE_TYPE); app32(w, (uint32_t)cur.size()+4); app32(w, (uint32_t)cur.size());
         w.insert(w.end(), cur.begin(), cur.end());
         cur.swap(w);
      }
      return cur;
   }

   void sweep(Rng & r, FILE * out, const std::vector<uint8_t> & enc, bool exhaustiveOffsets, uint32_t pyEvery)
   {
      // PARSE_GEN_MICRO_HOSTILE=1 (development only, never set by ./check): also hand the hostile inputs to the micro codec —
      // used to enumerate the call sites of finding F8 for corpus/C02/parse-known-micro-*.ops
      const int HOSTILE = P_CPP | P_MINI | (getenv("PARSE_GEN_MICRO_HOSTILE") ? P_MICRO : 0);
      uint32_t k = 0;
      #define PYBIT ((pyEvery)&&((k++ % pyEvery) == 0) ? P_PY : 0)
      emitParse(out, HOSTILE | P_MICRO | P_PY, enc);                                       // the valid encoding itself (micro: valid inputs only)
      for (size_t n=0; n<enc.size(); n++) {std::vector<uint8_t> t(enc.begin(), enc.begin()+n); emitParse(out, HOSTILE | PYBIT, t);}      // (i) every truncation
      std::vector<uint32_t> words; collectWords(enc, 0, enc.size(), words);
      for (size_t w=0; w<words.size(); w++)                                                 // (ii) every structural word := every boundary value / type code
      {
         if (words[w]+4 > enc.size()) continue;
         const std::vector<uint32_t> vals = boundaryValues(enc, words[w]);
         for (size_t i=0; i<vals.size(); i++) {if (vals[i] == get32(enc, words[w])) continue; std::vector<uint8_t> t = enc; put32(t, words[w], vals[i]); emitParse(out, HOSTILE | PYBIT, t);}
      }
      if (enc.size() >= 4) for (size_t pos=0; pos+4<=enc.size(); pos++)                     // (ii') every byte offset (sampled unless exhaustive)
      {
         const std::vector<uint32_t> vals = boundaryValues(enc, pos);
         if (exhaustiveOffsets) {for (size_t i=0; i<vals.size(); i++) {std::vector<uint8_t> t = enc; put32(t, pos, vals[i]); emitParse(out, HOSTILE | PYBIT, t);}}
         else if (r.chance(1,3)) for (int j=0; j<8; j++) {std::vector<uint8_t> t = enc; put32(t, pos, vals[r.below((uint32_t)vals.size())]); emitParse(out, HOSTILE | PYBIT, t);}
      }
      #undef PYBIT
   }

   virtual void gen(Rng & r, const Tier & tier, FILE * out)
   {
      inGen = true; shard = tier.shard; nshards = tier.nshards ? tier.nshards : 1; caseNo = 0;
      const uint32_t nsamples = tier.thorough ? 14 : 3;
      std::vector<std::vector<uint8_t> > encs;
      for (uint32_t s=0; s<nsamples; s++)
      {
         // a rich sample (word sweep at structural positions, byte offsets sampled in quick) and a small one (everything exhaustive)
         const std::vector<uint8_t> big = sample(r, r.range(10, 40), tier.thorough ? 900 : 500, r.chance(1,2));
         const std::vector<uint8_t> small = sample(r, r.range(1, 5), 90, r.chance(1,2));
         sweep(r, out, big, tier.thorough, 5);
         sweep(r, out, small, true, 9);
         encs.push_back(big); encs.push_back(small);
         // valid inputs for the micro accessors (and everybody else): more samples, unmodified
         for (int i=0; i<12; i++) {const std::vector<uint8_t> v = sample(r, r.range(1, 40), 3000, true); emitParse(out, P_CPP | P_MINI | P_MICRO | P_PY, v); if (i < 3) encs.push_back(v);}
      }
      // (iv) splices of two encodings, (v) random bytes behind a valid header, random byte flips
      const uint32_t nmix = tier.thorough ? 6000 : 500;
      for (uint32_t i=0; i<nmix; i++)
      {
         const std::vector<uint8_t> & a = encs[r.below((uint32_t)encs.size())]; const std::vector<uint8_t> & b = encs[r.below((uint32_t)encs.size())];
         std::vector<uint8_t> t;
         switch(r.below(4))
         {
            case 0: {std::vector<uint32_t> wa, wb; collectWords(a, 0, a.size(), wa); collectWords(b, 0, b.size(), wb);       // splice at structural positions
                     const uint32_t x = wa[r.below((uint32_t)wa.size())], y = wb[r.below((uint32_t)wb.size())];
                     t.assign(a.begin(), a.begin()+x); t.insert(t.end(), b.begin()+y, b.end());} break;
            case 1: {const uint32_t x = r.below((uint32_t)a.size()+1), y = r.below((uint32_t)b.size()+1); t.assign(a.begin(), a.begin()+x); t.insert(t.end(), b.begin()+y, b.end());} break;
            case 2: {app32(t, CURRENT_PROTOCOL_VERSION); app32(t, (uint32_t)r.next()); app32(t, r.chance(1,2) ? r.below(4) : (uint32_t)r.next());
                     const uint32_t n = r.below(120); for (uint32_t j=0; j<n; j++) t.push_back((uint8_t)(r.chance(1,3) ? 0 : r.below(256)));} break;
            default: {t = a; const uint32_t n = r.range(1,4); for (uint32_t j=0; (j<n)&&(!t.empty()); j++) t[r.below((uint32_t)t.size())] = (uint8_t)r.below(256);} break;
         }
         emitParse(out, P_CPP | P_MINI | ((i%4 == 0) ? P_PY : 0), t);
      }
      // deep nesting: around the limit on every parser but micro (shard 0); far beyond it for cpp and mini
      const uint32_t lim = MUSCLE_MAX_MESSAGE_NESTING_DEPTH;
      if (tier.shard == 0) for (uint32_t d = lim-2; d <= lim+2; d++) emitParse(out, P_CPP | P_MINI | P_PY, nested(d));
      if (tier.shard == 1 % nshards) {emitParse(out, P_CPP | P_MINI | P_PY, nested(300)); emitParse(out, P_CPP | P_MINI | P_MICRO | P_PY, nested(40));}
      if (tier.shard == 2 % nshards) emitParse(out, P_CPP | P_MINI, nested(5000));
      if (tier.shard == 3 % nshards) emitParse(out, P_CPP | P_MINI, nested(30000));
      // huge declared counts in tiny buffers (the F1 / F15 shapes), all count words, plausible and absurd values
      if (tier.shard == 4 % nshards)
      {
         const uint32_t counts[] = {2, 7, 8, 1000, 65536, 20000000u, 30000000u, 0x3FFFFFFFu, 0x40000000u, 0x7FFFFFFFu, 0xFFFFFFF8u, 0xFFFFFFFFu};
         const uint32_t tcs[] = {B_STRING_TYPE, B_RAW_TYPE, B_MESSAGE_TYPE, B_INT32_TYPE, B_BOOL_TYPE, 200};
         for (size_t c=0; c<sizeof(counts)/sizeof(counts[0]); c++) for (size_t t=0; t<sizeof(tcs)/sizeof(tcs[0]); t++)
         {
            std::vector<uint8_t> b; app32(b, CURRENT_PROTOCOL_VERSION); app32(b, 1); app32(b, 1); app32(b, 2); b.push_back('f'); b.push_back(0); app32(b, tcs[t]); app32(b, 8); app32(b, counts[c]); app32(b, 0);
            emitParse(out, P_CPP | P_MINI | P_PY, b);
            std::vector<uint8_t> h; app32(h, CURRENT_PROTOCOL_VERSION); app32(h, 1); app32(h, counts[c]); for (int j=0; j<18; j++) h.push_back(0);
            emitParse(out, P_CPP | P_MINI | P_PY, h);
         }
      }
      flushCase(out);
   }

   // ------------------------------------------------------------------ execution
   virtual void reset() {}

   void setup()
   {
      if (hooked) return;
      hooked = true;
      // warm the object pools with a Message that uses every array class, so that first-use slabs are not charged to a case
      {
         Message w(1);
         (void) w.AddBool("b", true); (void) w.AddBool("b", false); (void) w.AddInt8("i8", 1); (void) w.AddInt8("i8", 1); (void) w.AddInt16("i16", 1); (void) w.AddInt16("i16", 1);
         (void) w.AddInt32("i32", 1); (void) w.AddInt32("i32", 1); (void) w.AddInt64("i64", 1); (void) w.AddInt64("i64", 1); (void) w.AddFloat("f", 1); (void) w.AddFloat("f", 1);
         (void) w.AddDouble("d", 1); (void) w.AddDouble("d", 1); (void) w.AddPoint("p", Point(1,2)); (void) w.AddPoint("p", Point(1,2)); (void) w.AddRect("r", Rect(1,2,3,4)); (void) w.AddRect("r", Rect(1,2,3,4));
         (void) w.AddString("s", "x"); (void) w.AddString("s", "y"); (void) w.AddData("raw", B_RAW_TYPE, "ab", 2); (void) w.AddData("raw", B_RAW_TYPE, "ab", 2); (void) w.AddData("t", 200, "ab", 2); (void) w.AddData("t", 200, "ab", 2);
         Message sub(2); (void) sub.AddInt32("k", 5); (void) w.AddMessage("m", sub); (void) w.AddMessage("m", sub);
         std::vector<uint8_t> e(w.FlattenedSize()); w.FlattenToBytes(e.data());
         for (int i=0; i<3; i++) {Message back; (void) back.UnflattenFromBytes(e.data(), (uint32)e.size());}
      }
      Message g(77); (void) g.AddInt32("k", 5); (void) g.AddString("s", "v"); {Message sub(3); (void) sub.AddBool("b", true); (void) g.AddMessage("m", sub);}
      good.resize(g.FlattenedSize()); g.FlattenToBytes(good.data());
      goodCpp = dumpMsg(g);
      {MMessage * mm = MMAllocMessage(0); (void) MMUnflattenMessage(mm, good.data(), (uint32)good.size()); goodMini = dumpMini(mm); MMFreeMessage(mm);}
      {UMessage um; (void) UMInitializeWithExistingData(&um, good.data(), (uint32)good.size()); goodMicro = dumpMicro(&um, (uint32)good.size()+1);}
      if ((goodMini != goodCpp)||(goodMicro != goodCpp)) oracleFail("setup: the known-good encoding is not read alike by the three codecs");
      signal(SIGALRM, onAlarm);
      (void) __sanitizer_install_malloc_and_free_hooks(mallocHook, freeHook);
   }

   void account(int which, uint64_t n)
   {
      count[which]++;
      if (g_req > worstReq[which]) {worstReq[which] = g_req; worstN[which] = n;}
      const double ratio = (n >= 512) ? ((double)g_req)/(double)n : 0.0;    // (small inputs are dominated by C)
      if (ratio > worst[which]) worst[which] = ratio;
      if (g_req > ALLOC_K*n + ALLOC_C) oracleFail("allocation: the parser requested " + u64s(g_req) + " bytes (" + u64s(g_nalloc) + " requests, peak live " + u64s(g_peak) + ") for an input of " + u64s(n) + " bytes; bound " + u64s(ALLOC_K) + "*N + " + u64s(ALLOC_C));
   }

   // exact-size heap copy: any read at or past (p+n) is a heap-buffer-overflow for ASan (for n = 0 the pointer is the end of a block)
   struct Exact
   {
      uint8_t * base; uint8_t * p;
      Exact(const std::string & b) {if (b.empty()) {base = (uint8_t *)malloc(8); p = base+8;} else {base = (uint8_t *)malloc(b.size()); p = base; memcpy(p, b.data(), b.size());}}
      ~Exact() {free(base);}
   };

   virtual std::string step(const std::vector<std::string> & t)
   {
      if ((t.size() != 3)||(t[0] != "parse")) return "bad-op";
      const std::string & P = t[1];
      if ((P != "cpp")&&(P != "mini")&&(P != "micro")&&(P != "py")) return "bad-op";
      std::string bytes; if (!unhex(t[2], bytes)) return "bad-op";
      setup();
      const uint32 n = (uint32)bytes.size();
      std::string result;
      alarm((n < 65536) ? 2 : 30);
      if (P == "cpp")
      {
         Exact x(bytes);
         Message m;
         status_t r;
         {Tally tl; r = m.UnflattenFromBytes(x.p, n);}
         account(0, n);
         if (r.IsOK())
         {
            result = "ok " + dumpMsg(m);
            // a well-formed object: it can be serialised into a buffer of exactly its advertised size
            const uint32 fs = m.FlattenedSize(); uint8_t * o = (uint8_t *)malloc(fs ? fs : 1); m.FlattenToBytes(o); free(o);
         }
         else result = "err";
         if ((m.UnflattenFromBytes(good.data(), (uint32)good.size()).IsError())||(dumpMsg(m) != goodCpp)) oracleFail("cpp: the Message object is not reusable after this parse (status " + std::string(r.IsOK() ? "ok" : "error") + ")");
      }
      else if (P == "mini")
      {
         Exact x(bytes);
         MMessage * mm = MMAllocMessage(0);
         c_status_t r;
         {Tally tl; r = MMUnflattenMessage(mm, x.p, n);}
         account(1, n);
         if (r == CB_NO_ERROR)
         {
            result = "ok " + dumpMini(mm);
            // well-formedness of what was accepted: a string item is documented to be NUL-terminated (MBStrdupByteBuffer; MMPrint prints it with %s)
            if (result.find("!unterminated") != std::string::npos) oracleFail("mini: MMUnflattenMessage accepts a B_STRING_TYPE item that is not NUL-terminated inside its MByteBuffer (reading it as a C string, as MMPrint does, runs past the allocation)");
            const uint32 fs = MMGetFlattenedSize(mm); uint8_t * o = (uint8_t *)malloc(fs ? fs : 1); MMFlattenMessage(mm, o); free(o);
         }
         else {result = "err"; (void) dumpMini(mm);}   // "valid but only partially restored": still dumpable
         if ((MMUnflattenMessage(mm, good.data(), (uint32)good.size()) != CB_NO_ERROR)||(dumpMini(mm) != goodMini)) oracleFail("mini: the MMessage object is not reusable after this parse");
         MMFreeMessage(mm);
      }
      else if (P == "micro")
      {
         Exact x(bytes);
         UMessage um;
         c_status_t r; std::string d;
         {
            MuteStdout mute; MicroBounds mb(x.p, n);
            r = UMInitializeWithExistingData(&um, x.p, n); if (r == CB_NO_ERROR) d = dumpMicro(&um, n+1);
            if (!g_microViolation.empty()) oracleFail("micro: " + g_microViolation);
         }
         count[2]++;   // (the micro codec never allocates — nothing to bound)
         result = (r == CB_NO_ERROR) ? ("ok " + d) : "err";
         {
            MuteStdout mute;
            if ((UMInitializeWithExistingData(&um, good.data(), (uint32)good.size()) != CB_NO_ERROR)||(dumpMicro(&um, (uint32)good.size()+1) != goodMicro)) oracleFail("micro: the UMessage object is not reusable after this parse");
         }
      }
      else
      {
         const std::string rep = py.request("msg " + t[2]);
         count[3]++;
         if (rep.empty()) {oracleFail("py: the interpreter running message.py died or is not available"); result = "err";}
         else if (rep.compare(0, 3, "ok ") == 0)
         {
            size_t p = 3; for (int k=0; k<2; k++) {const size_t q = rep.find(' ', p); if (q == std::string::npos) {p = rep.size(); break;} p = q+1;}
            result = "ok " + rep.substr(p);
         }
         else
         {
            result = "err";
            // an exception of the codec is its error status; MemoryError / RecursionError are resource failures
            if ((rep.find("MemoryError") != std::string::npos)) oracleFail("py: " + rep);
         }
      }
      alarm(0);
      return result;
   }
};

int main(int argc, char ** argv) {ParseEngine e; return harnessMain(argc, argv, e);}
