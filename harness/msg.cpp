// Engine `msg` (C01; also the C++ side of C08 and the Message-parser part of C02):
// a register file of Messages driven through the public API.
// Op `cksum <reg>` -> `ok <decimal>`: Message::CalculateChecksum(false) of the register (content checksum; compared with the
// model's `checksumMsg`, Wire/Checksum.lean).  The generator emits it after mutations, after every parsed buffer and at case end.
#include "libvh/vh.h"
#include "message/Message.h"
#include "util/ByteBuffer.h"
#include "util/String.h"
#include "support/Point.h"
#include "support/Rect.h"
#include "msgdump.h"

using namespace muscle;
using namespace vh;

static const int NREGS = 8;

class DummyTag : public RefCountable {public: DummyTag() {}};

struct MsgEngine : public Engine
{
   Message regs[NREGS];
   int dummy[16];

   // ------------------------------------------------------------------ generator
   std::string genName(Rng & r)
   {
      static const char * fixed[] = {"a", "b", "c", "name", "x y", "f\xc3\xa9", "", "aaaaaaaaaaaaaaaaaaaaaaaaaaaaaaaaaaaaaaaaaaaaaaaaaaaaaaaaaaaaaaaaaaa"};
      if (r.chance(7,8)) return fixed[r.below(5)];
      if (r.chance(1,2)) return fixed[r.below(8)];
      std::string s; const uint32_t n = r.range(1,6);
      for (uint32_t i=0; i<n; i++) s.push_back((char)r.range(1,255));
      return s;
   }
   std::string genBytes(Rng & r, bool nulFree)
   {
      static const uint32_t lens[] = {0,0,1,2,3,4,5,7,8,11,12,13,16,31,32,33,63,64,100,255,256,300};
      uint32_t n = lens[r.below(sizeof(lens)/sizeof(lens[0]))];
      if (r.chance(1,50)) n = r.range(1000, 5000);
      std::string s;
      const int mode = r.below(4);
      for (uint32_t i=0; i<n; i++)
      {
         uint8_t c = (mode==0) ? (uint8_t)r.below(256) : (mode==1) ? (uint8_t)('a'+r.below(26)) : (mode==2) ? (uint8_t)(r.chance(1,2)?0:r.below(256)) : (uint8_t)(0x80+r.below(128));
         if ((nulFree)&&(c == 0)) c = 1;
         s.push_back((char)c);
      }
      return s;
   }
   uint64_t genBits(Rng & r, int bits)
   {
      const uint64_t mask = (bits == 64) ? ~0ULL : ((1ULL<<bits)-1);
      switch(r.below(6))
      {
         case 0: return 0;
         case 1: return mask;
         case 2: return (1ULL<<(bits-1)) & mask;          // INT_MIN / -0.0
         case 3: return ((1ULL<<(bits-1))-1) & mask;      // INT_MAX
         case 4: return r.below(3);
         default: return r.next() & mask;
      }
   }
   uint64_t genF32(Rng & r)
   {
      static const uint32_t v[] = {0x00000000u,0x80000000u,0x7f800000u,0xff800000u,0x7fc00000u,0x7fa00001u,0xffc00123u,0x00000001u,0x007fffffu,0x3f800000u,0xbf800000u,0x7f7fffffu,0x00800000u};
      return r.chance(2,3) ? v[r.below(sizeof(v)/sizeof(v[0]))] : (uint32_t)r.next();
   }
   uint64_t genF64(Rng & r)
   {
      static const uint64_t v[] = {0ULL,0x8000000000000000ULL,0x7ff0000000000000ULL,0xfff0000000000000ULL,0x7ff8000000000000ULL,0x7ff4000000000001ULL,0xfff8000000000123ULL,1ULL,0x000fffffffffffffULL,0x3ff0000000000000ULL,0x7fefffffffffffffULL};
      return r.chance(2,3) ? v[r.below(sizeof(v)/sizeof(v[0]))] : r.next();
   }
   // returns "<type> <value>" for type index t
   std::string genVal(Rng & r, int t)
   {
      switch(t)
      {
         case 0:  return "bool " + u64s(r.below(2));
         case 1:  return "i8 "  + u64s(genBits(r,8));
         case 2:  return "i16 " + u64s(genBits(r,16));
         case 3:  return "i32 " + u64s(genBits(r,32));
         case 4:  return "i64 " + u64s(genBits(r,64));
         case 5:  return "f32 " + u64s(genF32(r));
         case 6:  return "f64 " + u64s(genF64(r));
         case 7:  return "pt "  + u64s(genF32(r)) + "," + u64s(genF32(r));
         case 8:  return "rc "  + u64s(genF32(r)) + "," + u64s(genF32(r)) + "," + u64s(genF32(r)) + "," + u64s(genF32(r));
         case 9:  return "str " + hexOf(genBytes(r, true));
         case 10: return "raw " + u64s(B_RAW_TYPE) + " " + hexOf(genBytes(r, false));
         case 11:
         {
            static const uint32_t tcs[] = {0, 1, 2, 200, B_RAW_TYPE+1, B_BOOL_TYPE+1, B_MESSAGE_TYPE-1, B_STRING_TYPE+1, 0xFFFFFFFFu, B_ANY_TYPE+1, 1380013909u, 1330664530u /*OPTR*/, 1296649541u /*MIME*/, B_BITCHORD_TYPE};
            std::string b = genBytes(r, false); if (b.empty()) b = "z";
            return "raw " + u64s(tcs[r.below(sizeof(tcs)/sizeof(tcs[0]))]) + " " + hexOf(b);
         }
         case 12:
         {
            // nesting a register into itself doubles its size: keep sub-Messages small
            for (int tries=0; tries<4; tries++) {const uint32_t j = r.below(NREGS); if (regs[j].FlattenedSize() <= 1500) return "msg " + u64s(j);}
            return "i32 7";
         }
         case 13: return "ptr 0";
         default: return "tag 0";
      }
   }

   // emit one op line and execute it, so that the generator knows the registers' contents
   void emit(FILE * out, const std::string & line)
   {
      fputs(line.c_str(), out); fputc('\n', out);
      FILE * keep = g_oracle; g_oracle = devnull();   // the generator's own executions are not oracle runs
      (void) step(split(line));
      g_oracle = keep;
   }
   static FILE * devnull() {static FILE * f = fopen("/dev/null", "w"); return f;}

   std::string mutate(Rng & r, const std::vector<uint8_t> & in)
   {
      std::vector<uint8_t> b = in;
      static const uint32_t kTypeCodes[] = {B_BOOL_TYPE,B_DOUBLE_TYPE,B_FLOAT_TYPE,B_INT64_TYPE,B_INT32_TYPE,B_INT16_TYPE,B_INT8_TYPE,B_MESSAGE_TYPE,B_POINTER_TYPE,B_POINT_TYPE,B_RECT_TYPE,B_STRING_TYPE,B_RAW_TYPE,B_TAG_TYPE,B_ANY_TYPE,B_BITCHORD_TYPE,0,200};
      const uint32_t nmut = r.chance(1,3) ? 0 : r.range(1,3);
      for (uint32_t k=0; k<nmut; k++)
      {
         const uint32_t len = (uint32_t)b.size();
         switch(r.below(7))
         {
            case 0: if (len) b.resize(r.below(len)); break;                                   // truncation
            case 1: case 2: case 3:                                                           // 32-bit word := boundary value
               if (len >= 4)
               {
                  const uint32_t pos = r.chance(3,4) ? 4*r.below(len/4) : r.below(len-3);
                  const uint32_t rem = len-pos-4;
                  uint32_t v;
                  switch(r.below(16))
                  {
                     case 0: v = 0; break;            case 1: v = 1; break;              case 2: v = 2; break;
                     case 3: v = rem; break;          case 4: v = rem+1; break;          case 5: v = rem ? rem-1 : 0; break;
                     case 6: v = 0x7FFFFFFFu; break;  case 7: v = 0x80000000u; break;    case 8: v = 0xFFFFFFF8u + r.below(8); break;
                     case 9: v = rem/4; break;        case 10: v = rem/2; break;         case 11: v = rem-(rem%4); break;
                     case 12: v = len; break;
                     default: v = kTypeCodes[r.below(sizeof(kTypeCodes)/sizeof(kTypeCodes[0]))]; break;
                  }
                  b[pos] = (uint8_t)v; b[pos+1] = (uint8_t)(v>>8); b[pos+2] = (uint8_t)(v>>16); b[pos+3] = (uint8_t)(v>>24);
               }
            break;
            case 4: if (len) b[r.below(len)] = (uint8_t)r.below(256); break;                  // random byte
            case 5: {const uint32_t n = r.range(1,12); for (uint32_t i=0; i<n; i++) b.push_back((uint8_t)r.below(256));} break;  // trailing bytes
            default: if (len > 1) {const uint32_t a = r.below(len), n = r.range(1, len-a); b.erase(b.begin()+a, b.begin()+a+n);} break;  // splice out
         }
      }
      return hexOf(b);
   }

   virtual void gen(Rng & r, const Tier & tier, FILE * out)
   {
      const uint32_t ncases = tier.thorough ? 12000 : 260;
      for (uint32_t c=0; c<ncases; c++)
      {
         fprintf(out, "case %u\n", c*tier.nshards + tier.shard);
         reset();
         const uint32_t nops = r.range(1, tier.thorough ? 120 : 60);
         // per-case: a small set of (name,type) pairs that are walked through count transitions
         std::vector<std::string> names; std::vector<int> types;
         const uint32_t nf = r.range(1, r.chance(1,10) ? 12 : 5);
         for (uint32_t i=0; i<nf; i++) {names.push_back(genName(r)); types.push_back((int)r.below(15));}
         for (uint32_t i=0; i<nops; i++)
         {
            const uint32_t reg = r.below(r.chance(3,4) ? 2 : NREGS);
            const uint32_t k = r.below(nf);
            const std::string nm = hexOf(r.chance(19,20) ? names[k] : genName(r));
            const int ty = r.chance(19,20) ? types[k] : (int)r.below(15);
            const uint32_t what = r.below(100);
            const std::string R = u64s(reg);
            switch(what)
            {
               case 0: case 1: emit(out, "new " + R + " " + u64s(genBits(r,32))); break;
               case 2: case 3: case 4: emit(out, "copy " + R + " " + u64s(r.below(NREGS))); break;
               case 5: case 6: case 7: case 8: case 9: emit(out, "flat " + R); break;
               case 10: case 11: case 12: emit(out, "cksum " + R); break;
               case 13: case 14: case 15: case 16: emit(out, "dump " + R); break;
               case 17: case 18: case 19: case 20: emit(out, "eq " + R + " " + u64s(r.below(NREGS))); break;
               case 21: case 22: case 23: case 24: case 25: case 26: case 27: case 28: case 29: case 30:
               case 31: case 32: case 33: case 34:
                  emit(out, "rem " + R + " " + nm + " " + u64s(r.chance(3,4) ? r.below(3) : r.below(6))); break;
               case 35: case 36: emit(out, "rmn " + R + " " + nm); break;
               case 37: case 38: case 39: emit(out, "ren " + R + " " + nm + " " + hexOf(names[r.below(nf)])); break;
               case 40: case 41: case 42: case 43: case 44: case 45: case 46: case 47:
                  emit(out, "rep " + R + " " + u64s(r.below(2)) + " " + nm + " " + u64s(r.below(4)) + " " + genVal(r, ty)); break;
               case 48: case 49: case 50: case 51: case 52: case 53: case 54: case 55: case 56: case 57:
                  emit(out, "pre " + R + " " + nm + " " + genVal(r, ty)); break;
               case 58: case 59: case 60: emit(out, "tripreg " + R + " " + u64s(r.below(NREGS))); break;
               case 61: case 62: case 63: case 64: case 65: case 66:
               {
                  // parse (a mutation of) the encoding of some register into this register
                  const Message & src = regs[r.below(NREGS)];
                  std::vector<uint8_t> enc(src.FlattenedSize()); src.FlattenToBytes(enc.data());
                  emit(out, "unflat " + R + " " + mutate(r, enc));
                  emit(out, "dump " + R);
                  emit(out, "cksum " + R);
               }
               break;
               default: emit(out, "add " + R + " " + nm + " " + genVal(r, ty)); if (r.chance(1,6)) emit(out, "cksum " + R); break;
            }
         }
         for (uint32_t reg=0; reg<2; reg++) {emit(out, "flat " + u64s(reg)); emit(out, "dump " + u64s(reg)); emit(out, "cksum " + u64s(reg));}
      }
   }

   // ------------------------------------------------------------------ execution
   virtual void reset() {for (int i=0; i<NREGS; i++) regs[i] = Message();}

   static String nameOf(const std::string & tok, bool & ok) {std::string b; ok = unhex(tok, b); return String(b.data(), (uint32)b.size());}

   // applies an add(0) / prepend(1) / replace(2) of the value described by toks[at..]
   status_t applyVal(Message & m, int mode, bool okToAdd, const String & fn, uint32 idx, const std::vector<std::string> & toks, size_t at, bool & bad)
   {
      bad = false;
      if (at+1 >= toks.size()) {bad = true; return B_ERROR;}
      const std::string & ty = toks[at];
      uint64_t v = 0;
      #define NUMCASE(TOK, CT, FN)                                                        \
         if (ty == TOK) {                                                                 \
            if (!toU64(toks[at+1], v)) {bad = true; return B_ERROR;}                      \
            CT x; {uint64_t vv = v; memcpy(&x, &vv, sizeof(x));}                          \
            return (mode==0) ? m.Add##FN(fn, x) : (mode==1) ? m.Prepend##FN(fn, x) : m.Replace##FN(okToAdd, fn, idx, x); \
         }
      if (ty == "bool") {if (!toU64(toks[at+1], v)) {bad = true; return B_ERROR;} const bool x = (v != 0); return (mode==0) ? m.AddBool(fn, x) : (mode==1) ? m.PrependBool(fn, x) : m.ReplaceBool(okToAdd, fn, idx, x);}
      NUMCASE("i8",  int8,   Int8)
      NUMCASE("i16", int16,  Int16)
      NUMCASE("i32", int32,  Int32)
      NUMCASE("i64", int64,  Int64)
      NUMCASE("f32", float,  Float)
      NUMCASE("f64", double, Double)
      if ((ty == "pt")||(ty == "rc"))
      {
         std::vector<std::string> parts = split(toks[at+1], ',');
         const size_t want = (ty == "pt") ? 2 : 4;
         if (parts.size() != want) {bad = true; return B_ERROR;}
         float f[4];
         for (size_t i=0; i<want; i++) {if (!toU64(parts[i], v)) {bad = true; return B_ERROR;} uint32_t w = (uint32_t)v; memcpy(&f[i], &w, 4);}
         if (ty == "pt") {Point p(f[0], f[1]); return (mode==0) ? m.AddPoint(fn, p) : (mode==1) ? m.PrependPoint(fn, p) : m.ReplacePoint(okToAdd, fn, idx, p);}
         else            {Rect q(f[0], f[1], f[2], f[3]); return (mode==0) ? m.AddRect(fn, q) : (mode==1) ? m.PrependRect(fn, q) : m.ReplaceRect(okToAdd, fn, idx, q);}
      }
      if (ty == "str")
      {
         std::string b; if (!unhex(toks[at+1], b)) {bad = true; return B_ERROR;}
         const String s(b.data(), (uint32)b.size());
         return (mode==0) ? m.AddString(fn, s) : (mode==1) ? m.PrependString(fn, s) : m.ReplaceString(okToAdd, fn, idx, s);
      }
      if (ty == "raw")
      {
         if (at+2 >= toks.size()) {bad = true; return B_ERROR;}
         std::string b; if ((!toU64(toks[at+1], v))||(!unhex(toks[at+2], b))) {bad = true; return B_ERROR;}
         const uint32 tc = (uint32)v;
         if (tc == B_RAW_TYPE)
         {
            ByteBufferRef bb = GetByteBufferFromPool((uint32)b.size(), (const uint8 *)b.data());
            return (mode==0) ? m.AddFlat(fn, bb) : (mode==1) ? m.PrependFlat(fn, bb) : m.ReplaceFlat(okToAdd, fn, idx, bb);
         }
         if (b.empty()) {bad = true; return B_ERROR;}
         return (mode==0) ? m.AddData(fn, tc, b.data(), (uint32)b.size()) : (mode==1) ? m.PrependData(fn, tc, b.data(), (uint32)b.size()) : m.ReplaceData(okToAdd, fn, tc, idx, b.data(), (uint32)b.size());
      }
      if (ty == "msg")
      {
         if ((!toU64(toks[at+1], v))||(v >= (uint64_t)NREGS)) {bad = true; return B_ERROR;}
         MessageRef sub = GetMessageFromPool(regs[v]);  // a private copy: Messages are values in the model
         return (mode==0) ? m.AddMessage(fn, sub) : (mode==1) ? m.PrependMessage(fn, sub) : m.ReplaceMessage(okToAdd, fn, idx, sub);
      }
      if (ty == "ptr") {void * p = &dummy[idx&15]; return (mode==0) ? m.AddPointer(fn, p) : (mode==1) ? m.PrependPointer(fn, p) : m.ReplacePointer(okToAdd, fn, idx, p);}
      if (ty == "tag") {RefCountableRef t(new DummyTag); return (mode==0) ? m.AddTag(fn, t) : (mode==1) ? m.PrependTag(fn, t) : m.ReplaceTag(okToAdd, fn, idx, t);}
      bad = true; return B_ERROR;
   }

   static bool hasOpaque(const Message & m)
   {
      for (MessageFieldNameIterator it = m.GetFieldNameIterator(); it.HasData(); it++)
      {
         uint32 tc, cnt; if (m.GetInfo(it.GetFieldName(), &tc, &cnt).IsError()) continue;
         if ((tc == B_POINTER_TYPE)||(tc == B_TAG_TYPE)) return true;
         if (tc == B_MESSAGE_TYPE) for (uint32 i=0; i<cnt; i++) {ConstMessageRef sub; if ((m.FindMessage(it.GetFieldName(), i, sub).IsOK())&&(sub())&&(hasOpaque(*sub()))) return true;}
      }
      return false;
   }

   // a copy of (m) without its non-flattenable fields, at every nesting level
   static Message flatPart(const Message & m)
   {
      Message r(m.what);
      for (MessageFieldNameIterator it = m.GetFieldNameIterator(); it.HasData(); it++)
      {
         const String & fn = it.GetFieldName();
         uint32 tc, cnt; if (m.GetInfo(fn, &tc, &cnt).IsError()) continue;
         if ((tc == B_POINTER_TYPE)||(tc == B_TAG_TYPE)) continue;
         if ((tc == B_MESSAGE_TYPE)&&(cnt > 0))
         {
            for (uint32 i=0; i<cnt; i++) {ConstMessageRef sub; if ((m.FindMessage(fn, i, sub).IsOK())&&(sub())) (void) r.AddMessage(fn, GetMessageFromPool(flatPart(*sub())));}
         }
         else (void) m.CopyName(fn, r);
      }
      return r;
   }

   // the direct oracle of C01, evaluated on the implementation alone
   void tripOracle(const Message & m, const Message * other)
   {
      const uint32 fs = m.FlattenedSize();
      ByteBufferRef buf = GetByteBufferFromPool(fs + 16);
      if (buf() == NULL) {oracleFail("alloc"); return;}
      memset(buf()->GetBuffer(), 0xEE, fs+16);
      m.FlattenToBytes(buf()->GetBuffer());
      // size exact: the 16 guard bytes untouched and byte fs-1 written (checked through re-flatten equality below)
      for (uint32 i=0; i<16; i++) if (buf()->GetBuffer()[fs+i] != 0xEE) {oracleFail("Flatten wrote past FlattenedSize()"); return;}
      Message back;
      if (back.UnflattenFromBytes(buf()->GetBuffer(), fs).IsError()) {oracleFail("Unflatten(Flatten(m)) failed"); return;}
      const Message fp = flatPart(m);
      const std::string d0 = dumpMsg(fp), d1 = dumpMsg(back);
      if (d0 != d1) {oracleFail("round trip changed content: " + d0 + " -> " + d1); return;}
      const uint32 fs2 = back.FlattenedSize();
      if (fs2 != fs) {oracleFail("FlattenedSize differs after trip"); return;}
      ByteBufferRef buf2 = GetByteBufferFromPool(fs2);
      back.FlattenToBytes(buf2()->GetBuffer());
      if (memcmp(buf2()->GetBuffer(), buf()->GetBuffer(), fs) != 0) {oracleFail("re-flatten not byte-identical"); return;}
      if (back.CalculateChecksum(false) != m.CalculateChecksum(false)) {oracleFail("checksum changed by trip"); return;}
      const Message fp2 = flatPart(m);  // a second, separately built copy: operator== short-cuts on object identity
      if ((back == fp) != (fp2 == fp)) {oracleFail("operator==(trip, flatPart) differs from operator==(flatPart', flatPart)"); return;}
      if ((fp == back) != (fp == fp2)) {oracleFail("operator==(flatPart, trip) differs from operator==(flatPart, flatPart')"); return;}
      if (other)
      {
         if ((back == *other) != (fp == *other)) {oracleFail("operator== against a third Message changed by trip"); return;}
         if ((*other == back) != (*other == fp)) {oracleFail("operator== (reversed) against a third Message changed by trip"); return;}
      }
   }

   virtual std::string step(const std::vector<std::string> & t)
   {
      uint64_t a = 0, b = 0; bool ok = true, bad = false;
      const std::string & op = t[0];
      if ((t.size() >= 2)&&((!toU64(t[1], a))||(a >= (uint64_t)NREGS))) return "bad-op";
      Message & m = regs[a];
      if ((op == "new")&&(t.size() == 3)&&(toU64(t[2], b))) {m = Message((uint32)b); return "ok";}
      if (((op == "add")||(op == "pre"))&&(t.size() >= 5))
      {
         const String fn = nameOf(t[2], ok); if (!ok) return "bad-op";
         const status_t r = applyVal(m, (op == "add") ? 0 : 1, false, fn, 0, t, 3, bad);
         return bad ? "bad-op" : (r.IsOK() ? "ok" : "err");
      }
      if ((op == "rep")&&(t.size() >= 7))
      {
         uint64_t okToAdd, idx;
         if ((!toU64(t[2], okToAdd))||(!toU64(t[4], idx))) return "bad-op";
         const String fn = nameOf(t[3], ok); if (!ok) return "bad-op";
         const status_t r = applyVal(m, 2, okToAdd != 0, fn, (uint32)idx, t, 5, bad);
         return bad ? "bad-op" : (r.IsOK() ? "ok" : "err");
      }
      if ((op == "rem")&&(t.size() == 4)&&(toU64(t[3], b))) {const String fn = nameOf(t[2], ok); if (!ok) return "bad-op"; return m.RemoveData(fn, (uint32)b).IsOK() ? "ok" : "err";}
      if ((op == "rmn")&&(t.size() == 3)) {const String fn = nameOf(t[2], ok); if (!ok) return "bad-op"; return m.RemoveName(fn).IsOK() ? "ok" : "err";}
      if ((op == "ren")&&(t.size() == 4))
      {
         const String o = nameOf(t[2], ok); if (!ok) return "bad-op";
         const String n = nameOf(t[3], ok); if (!ok) return "bad-op";
         return m.Rename(o, n).IsOK() ? "ok" : "err";
      }
      if ((op == "copy")&&(t.size() == 3)&&(toU64(t[2], b))&&(b < (uint64_t)NREGS)) {regs[b] = m; return "ok";}
      if ((op == "flat")&&(t.size() == 2))
      {
         const uint32 fs = m.FlattenedSize();
         std::vector<uint8_t> buf(fs);
         m.FlattenToBytes(buf.data());
         tripOracle(m, NULL);
         return "ok " + u64s(fs) + " " + hexOf(buf);
      }
      if ((op == "cksum")&&(t.size() == 2)) return "ok " + u64s(m.CalculateChecksum(false));
      if ((op == "tripreg")&&(t.size() == 3)&&(toU64(t[2], b))&&(b < (uint64_t)NREGS)) {tripOracle(m, &regs[b]); return "ok";}
      if ((op == "unflat")&&(t.size() == 3))
      {
         std::string bytes; if (!unhex(t[2], bytes)) return "bad-op";
         // exact-size heap copy so that ASan sees any overrun
         uint8_t * copy = (uint8_t *)malloc(bytes.size() ? bytes.size() : 1); memcpy(copy, bytes.data(), bytes.size());
         const status_t r = m.UnflattenFromBytes(copy, (uint32)bytes.size());
         free(copy);
         if (r.IsOK()) return "ok";
         // C02: a parser that fails leaves its object destructible and reusable.  How much of the
         // input a failed parse leaves behind is unspecified, so it is not compared: check reuse, then reset.
         {
            Message good(77); (void) good.AddInt32("k", 5); (void) good.AddString("s", "v");
            std::vector<uint8_t> enc(good.FlattenedSize()); good.FlattenToBytes(enc.data());
            if ((m.UnflattenFromBytes(enc.data(), (uint32)enc.size()).IsError())||(dumpMsg(m) != dumpMsg(good))) oracleFail("object not reusable after a failed Unflatten");
         }
         m = Message(0);
         return "err";
      }
      if ((op == "dump")&&(t.size() == 2)) return dumpMsg(m);
      if ((op == "eq")&&(t.size() == 3)&&(toU64(t[2], b))&&(b < (uint64_t)NREGS))
      {
         if ((hasOpaque(m))||(hasOpaque(regs[b]))) return "?";
         return (m == regs[b]) ? "true" : "false";
      }
      return "bad-op";
   }
};

int main(int argc, char ** argv) {MsgEngine e; return harnessMain(argc, argv, e);}
