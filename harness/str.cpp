// Engine `str` (C17): a register file of muscle::String objects driven through the public API.
//
// Three register files are kept in step:
//   regs[]  the Strings under test; operands alias them exactly as the op line says (`r<j>` = the String
//           object itself, `p<j>+<off>` = the pointer regs[j]()+off)
//   twin[]  the same ops on Strings that are forced into the OPPOSITE storage mode before every op
//           (inline <-> heap) and always get separate copies as operands
//   sh[]    std::string shadows on which a reference implementation of the op runs
// Direct oracle (needs no model): regs == twin (mode irrelevance + alias = copy), regs == sh (ideal byte
// string), NUL terminator / length / capacity invariants, flatten = bytes + NUL, unflatten round trip,
// unterminated input must be rejected.
//
// Operand tokens:  R = register index; S-operand (`const String &`) = x<hex> | r<j>;
//                  P-operand (`const char *`) = x<hex> | p<j>+<off>; chars are decimal 1..255;
//                  4294967295 is MUSCLE_NO_LIMIT.  Byte strings of operands are NUL-free (else bad-op).
#include "libvh/vh.h"
#include "util/String.h"
#include "util/ByteBuffer.h"
#include "message/Message.h"
#include "support/DataFlattener.h"
#include "support/DataUnflattener.h"
#include <string>
#include <algorithm>

using namespace muscle;
using namespace vh;

static const int NREGS = 6;
static const uint32 NOLIM = MUSCLE_NO_LIMIT;
static const uint32 SMALL = String::GetMaxShortStringLength();

static std::string i64s(long long v) {char b[32]; snprintf(b, sizeof(b), "%lld", v); return b;}
static std::string bytesOf(const String & s) {return std::string(s(), s.Length());}
static const char * bs(bool b) {return b ? "true" : "false";}
static int sgn(int v) {return (v < 0) ? -1 : ((v > 0) ? 1 : 0);}

struct SArg   // a `const String &` operand
{
   String tmp; const String * p; std::string val;
   SArg() : p(NULL) {}
   const String & get() const {return *p;}
private:
   SArg(const SArg &); SArg & operator=(const SArg &);
};
struct PArg   // a `const char *` operand
{
   char * heap; const char * p; std::string val;
   PArg() : heap(NULL), p(NULL) {}
   ~PArg() {free(heap);}
   void own(const std::string & b) {free(heap); heap = (char *) malloc(b.size()+1); memcpy(heap, b.data(), b.size()); heap[b.size()] = '\0'; p = heap;}  // exact size: ASan sees over-reads
private:
   PArg(const PArg &); PArg & operator=(const PArg &);
};

static bool parseS(const std::string & tok, String * F, bool dealias, SArg & out)
{
   if ((tok.size() >= 2)&&(tok[0] == 'r'))
   {
      uint64_t j; if ((!toU64(tok.substr(1), j))||(j >= (uint64_t)NREGS)) return false;
      out.val = bytesOf(F[j]);
      if (dealias) {out.tmp = String(out.val.data(), (uint32)out.val.size()); out.p = &out.tmp;} else out.p = &F[j];
      return true;
   }
   std::string b; if ((!unhex(tok, b))||(b.find('\0') != std::string::npos)) return false;
   out.val = b; out.tmp = String(b.data(), (uint32)b.size()); out.p = &out.tmp;
   return true;
}
static bool parseP(const std::string & tok, String * F, bool dealias, PArg & out)
{
   if ((tok.size() >= 4)&&(tok[0] == 'p'))
   {
      const size_t plus = tok.find('+'); if (plus == std::string::npos) return false;
      uint64_t j, off; if ((!toU64(tok.substr(1, plus-1), j))||(j >= (uint64_t)NREGS)||(!toU64(tok.substr(plus+1), off))||(off > F[j].Length())) return false;
      out.val = std::string(F[j]()+off, F[j].Length()-(uint32)off);
      if (dealias) out.own(out.val); else out.p = F[j]()+off;
      return true;
   }
   std::string b; if ((!unhex(tok, b))||(b.find('\0') != std::string::npos)) return false;
   out.val = b; out.own(b);
   return true;
}
static bool parseC(const std::string & tok, char & c) {uint64_t v; if ((!toU64(tok, v))||(v < 1)||(v > 255)) return false; c = (char)(uint8_t)v; return true;}
static bool parseU(const std::string & tok, uint32 & v) {uint64_t x; if ((!toU64(tok, x))||(x > 0xFFFFFFFFULL)) return false; v = (uint32)x; return true;}
static bool parseR(const std::string & tok, uint32 & v) {return (parseU(tok, v))&&(v < (uint32)NREGS);}

// ---------------------------------------------------------------------------------- std::string reference
static std::string lowerS(std::string s) {for (size_t i=0; i<s.size(); i++) if ((s[i] >= 'A')&&(s[i] <= 'Z')) s[i] = (char)(s[i]+32); return s;}
static std::string upperS(std::string s) {for (size_t i=0; i<s.size(); i++) if ((s[i] >= 'a')&&(s[i] <= 'z')) s[i] = (char)(s[i]-32); return s;}
static long long refIdx(const std::string & s, const std::string & t, uint32 from) {if (from >= s.size()) return -1; const size_t p = s.find(t, from); return (p == std::string::npos) ? -1 : (long long)p;}
static long long refLidx2(const std::string & s, const std::string & t, uint32 from)
{
   if (t.empty()) return ((long long)s.size())-1;
   if (from >= s.size()) return -1;
   const size_t p = s.rfind(t, from); return (p == std::string::npos) ? -1 : (long long)p;
}
static long long refLidx(const std::string & s, const std::string & t) {return (t.size() <= s.size()) ? refLidx2(s, t, (uint32)(s.size()-t.size())) : -1;}
static uint32 refCount(const std::string & s, const std::string & t, uint32 from)
{
   uint32 n = 0; if (t.empty()) return 0;
   uint32 last = from; long long i;
   while((i = refIdx(s, t, last)) >= 0) {n++; last = (uint32)(i+t.size());}
   return n;
}
static std::string refSubstr(const std::string & s, uint32 first, uint32 after)
{
   const uint32 e = std::min<uint32>(after, (uint32)s.size());
   return (e > first) ? s.substr(first, e-first) : std::string();
}
static long long refReplace(std::string & s, const std::string & rm, const std::string & wm, uint32 max, uint32 from)
{
   if ((max == 0)||(from >= s.size())||(rm.empty())) return 0;
   if (rm == wm) return std::min<uint32>(max, refCount(s, rm, from));
   std::string out = s.substr(0, from); size_t pos = from; long long n = 0;
   while(max > 0)
   {
      const size_t p = s.find(rm, pos); if (p == std::string::npos) break;
      out += s.substr(pos, p-pos); out += wm; pos = p+rm.size(); n++; max--;
   }
   out += s.substr(pos); s = out; return n;
}
static uint64_t refAtoull(const std::string & d) {uint64_t v = 0; for (size_t i=0; i<d.size(); i++) v = v*10 + (uint64_t)(d[i]-'0'); return v;}
static std::string refArgAux(const std::string & s, const std::string & buf)
{
   long long lowest = -1; size_t i = 0;
   while(i < s.size())
   {
      if (s[i] == '%')
      {
         i++;
         if ((i < s.size())&&(s[i] >= '0')&&(s[i] <= '9'))
         {
            size_t j = i; while((j < s.size())&&(s[j] >= '0')&&(s[j] <= '9')) j++;
            const int32_t val = (int32_t)(uint32_t) refAtoull(s.substr(i, j-i));
            lowest = (lowest < 0) ? val : std::min<long long>(val, lowest);
            i = j;
         }
      }
      else i++;
   }
   if (lowest < 0) return s;
   std::string r = s; (void) refReplace(r, "%"+i64s(lowest), buf, NOLIM, 0); return r;
}
static bool isSp(char c) {return (c == ' ')||(c == '\t')||(c == '\r')||(c == '\n');}

struct StrEngine : public Engine
{
   String regs[NREGS], twin[NREGS];
   std::string sh[NREGS];
   bool touched[NREGS];

   // ------------------------------------------------------------------ generator
   std::string genContent(Rng & r, uint32 n, int alpha)
   {
      static const char * utf[] = {"\xc3\xa9", "\xe2\x82\xac", "\xf0\x9f\x98\x80", "\xc3\x9f", "\xce\xbb"};
      std::string s;
      while(s.size() < n)
      {
         switch(alpha)
         {
            case 0: s.push_back((char)('a'+r.below(2))); break;                                   // tiny alphabet: searches hit
            case 1: {static const char m[] = "abAB01 9-%1%2 xX\t.z"; s.push_back(m[r.below(sizeof(m)-1)]);} break;
            case 2: if (r.chance(1,2)) s += utf[r.below(5)]; else s.push_back((char)('a'+r.below(3))); break;
            case 3: s.push_back((char)r.range(1,255)); break;
            case 4: s.push_back((char)('0'+r.below(10))); break;
            default: {static const char m[] = "a b\nA\r\t"; s.push_back(m[r.below(sizeof(m)-1)]);} break;
         }
      }
      if ((s.size() > n)&&(alpha != 2)) s.resize(n);
      return s;
   }
   uint32 genLen(Rng & r)
   {
      const uint32 S = SMALL;
      const uint32 lens[] = {0, 1, 2, 3, S-2, S-1, S, S+1, S+2, 2*S, 2*S+1, 31, 32, 33, 5, 7};
      return r.chance(1,40) ? r.range(40, 130) : lens[r.below(sizeof(lens)/sizeof(lens[0]))];
   }
   std::string genBytes(Rng & r, int alpha) {return genContent(r, genLen(r), alpha);}
   // a piece of an existing register (so that searches / removals / replacements succeed)
   std::string genPiece(Rng & r, uint32 j)
   {
      const std::string & s = sh[j]; if (s.empty()) return "";
      const uint32 a = r.below((uint32)s.size()); const uint32 n = r.chance(1,2) ? r.range(1,3) : r.range(1, (uint32)s.size()-a);
      return s.substr(a, n);
   }
   std::string genS(Rng & r, uint32 R, int alpha)    // S-operand
   {
      switch(r.below(10))
      {
         case 0: case 1: return "r" + u64s(R);                  // the String itself
         case 2: return "r" + u64s(r.below(NREGS));
         case 3: case 4: return hexOf(genPiece(r, R));          // a substring of it (as a separate copy)
         default: return hexOf(genBytes(r, alpha));
      }
   }
   // S-operand that is likely to occur in register R (for searches, removals, replacements)
   std::string genNeedle(Rng & r, uint32 R, int alpha) {return r.chance(1,2) ? hexOf(genPiece(r, R)) : genS(r, R, alpha);}
   std::string genP(Rng & r, uint32 R, int alpha)    // P-operand
   {
      switch(r.below(10))
      {
         case 0: case 1: case 2: {const uint32 l = (uint32)sh[R].size(); const uint32 off = r.chance(1,3) ? 0 : (r.chance(1,4) ? l : r.below(l+1)); return "p" + u64s(R) + "+" + u64s(off);}
         case 3: {const uint32 j = r.below(NREGS); return "p" + u64s(j) + "+" + u64s(r.below((uint32)sh[j].size()+1));}
         case 4: return hexOf(genPiece(r, R));
         default: return hexOf(genBytes(r, alpha));
      }
   }
   std::string genIdx(Rng & r, uint32 R)
   {
      const uint32 l = (uint32)sh[R].size();
      switch(r.below(8))
      {
         case 0: return "0";
         case 1: return u64s(l);
         case 2: return u64s(l+1);
         case 3: return u64s(NOLIM);
         case 4: return u64s(l ? l-1 : 0);
         default: return u64s(r.below(l+2));
      }
   }
   std::string genMax(Rng & r) {return r.chance(1,2) ? u64s(NOLIM) : u64s(r.below(r.chance(1,2) ? 4 : 40));}
   std::string genChar(Rng & r, uint32 R, int alpha)
   {
      if ((!sh[R].empty())&&(r.chance(2,3))) return u64s((uint8_t)sh[R][r.below((uint32)sh[R].size())]);
      const std::string c = genContent(r, 1, alpha); return u64s((uint8_t)c[0]);
   }

   void emit(FILE * out, const std::string & line)
   {
      fputs(line.c_str(), out); fputc('\n', out);
      FILE * keep = g_oracle; g_oracle = devnull();
      (void) step(split(line));
      g_oracle = keep;
   }
   static FILE * devnull() {static FILE * f = fopen("/dev/null", "w"); return f;}

   virtual void gen(Rng & r, const Tier & tier, FILE * out)
   {
      const uint32 ncases = tier.thorough ? 12000 : 600;
      for (uint32 c=0; c<ncases; c++)
      {
         fprintf(out, "case %u\n", c*tier.nshards + tier.shard);
         reset();
         const int alpha = (int) r.below(6);
         const uint32 nops = r.range(10, tier.thorough ? 80 : 50);
         for (uint32 i=0; i<nops; i++)
         {
            const uint32 Rn = r.below(r.chance(3,4) ? 2 : NREGS);
            const uint32 Dn = r.chance(1,2) ? Rn : r.below(NREGS);
            const std::string R = u64s(Rn), D = u64s(Dn);
            const int al = r.chance(9,10) ? alpha : (int)r.below(6);
            // keep sizes bounded: self-append / self-insert / replace-with-self double the length
            for (uint32 k=0; k<(uint32)NREGS; k++) if (sh[k].size() > 600) emit(out, "trunct " + u64s(k) + " " + u64s(r.range(SMALL-2, 2*SMALL)));
            // every so often put the register right at the boundary first
            if (r.chance(1,6)) emit(out, "set " + R + " " + hexOf(genContent(r, SMALL-2+r.below(5), al)) + " " + u64s(NOLIM));
            switch(r.below(94))
            {
               case 0: case 1:   emit(out, "set " + R + " " + genP(r, Rn, al) + " " + genMax(r)); break;
               case 2: case 3:   emit(out, "setfrom " + R + " " + genS(r, Rn, al) + " " + genIdx(r, Rn) + " " + genIdx(r, Rn)); break;
               case 4: case 5: case 6: emit(out, "app " + R + " " + genS(r, Rn, al)); break;
               case 7: case 8: case 9: emit(out, "appc " + R + " " + genP(r, Rn, al)); break;
               case 10: case 11: emit(out, "appch " + R + " " + genChar(r, Rn, al)); break;
               case 12: case 13: case 14: case 15: emit(out, "ins " + R + " " + genIdx(r, Rn) + " " + genP(r, Rn, al) + " " + genMax(r)); break;
               case 16: emit(out, "rmch " + R + " " + genChar(r, Rn, al)); break;
               case 17: case 18: emit(out, "rm " + R + " " + genNeedle(r, Rn, al)); break;
               case 19: case 20: emit(out, "rmc " + R + " " + genP(r, Rn, al)); break;
               case 21: case 22: emit(out, "repch " + R + " " + genChar(r, Rn, al) + " " + genChar(r, Rn, al) + " " + genMax(r) + " " + genIdx(r, Rn)); break;
               case 23: case 24: case 25: case 26: emit(out, "rep " + R + " " + genNeedle(r, Rn, al) + " " + genS(r, Rn, al) + " " + genMax(r) + " " + (r.chance(2,3) ? std::string("0") : genIdx(r, Rn))); break;
               case 27: emit(out, "rev " + R); break;
               case 28: emit(out, (r.chance(1,2) ? "clear " : "flush ") + R); break;
               case 29: case 30:
               {
                  const uint32 e = r.chance(2,3) ? 0 : r.below(2*SMALL);
                  emit(out, "shrink " + R + " " + u64s(e));
               }
               break;
               case 31: emit(out, "prealloc " + R + " " + u64s(r.chance(1,2) ? SMALL-1+r.below(4) : r.below(80))); break;
               case 32: emit(out, "truncc " + R + " " + genIdx(r, Rn)); break;
               case 33: emit(out, "trunct " + R + " " + (r.chance(1,2) ? u64s(SMALL-1+r.below(3)) : genIdx(r, Rn))); break;
               case 34: emit(out, "swap " + R + " " + u64s(r.below(NREGS))); break;
               case 35: case 36: emit(out, "sub " + D + " " + R + " " + genIdx(r, Rn) + " " + genIdx(r, Rn)); break;
               case 37: emit(out, "subaft " + D + " " + R + " " + genNeedle(r, Rn, al)); break;
               case 38: emit(out, "subaftc " + D + " " + R + " " + genP(r, Rn, al)); break;
               case 39: emit(out, "subto " + D + " " + R + " " + genIdx(r, Rn) + " " + genNeedle(r, Rn, al)); break;
               case 40: case 41: emit(out, "wins " + D + " " + R + " " + genIdx(r, Rn) + " " + genS(r, Rn, al) + " " + genMax(r)); break;
               case 42: emit(out, "winsc " + D + " " + R + " " + genIdx(r, Rn) + " " + genP(r, Rn, al) + " " + genMax(r)); break;
               case 43: emit(out, "winsch " + D + " " + R + " " + genIdx(r, Rn) + " " + genChar(r, Rn, al) + " " + u64s(r.below(2*SMALL))); break;
               case 44: case 45: emit(out, "pad " + D + " " + R + " " + u64s(r.chance(1,2) ? SMALL-2+r.below(5) : r.below(40)) + " " + u64s(r.below(2)) + " " + genChar(r, Rn, al)); break;
               case 46: emit(out, "lower " + D + " " + R); break;
               case 47: emit(out, "upper " + D + " " + R); break;
               case 48: emit(out, "mixed " + D + " " + R); break;
               case 49: emit(out, "trim " + D + " " + R); break;
               case 50: emit(out, "wrepch " + D + " " + R + " " + genChar(r, Rn, al) + " " + genChar(r, Rn, al) + " " + genMax(r) + " " + genIdx(r, Rn)); break;
               case 51: case 52: emit(out, "wrep " + D + " " + R + " " + genNeedle(r, Rn, al) + " " + genS(r, Rn, al) + " " + genMax(r) + " " + (r.chance(2,3) ? std::string("0") : genIdx(r, Rn))); break;
               case 53: emit(out, "wonum " + D + " " + R); break;
               case 54: case 55: emit(out, "arg " + D + " " + R + " " + genS(r, Rn, al)); break;
               case 56:
               {
                  static const char * kinds[] = {"i32", "u32", "i64", "u64"};
                  const uint32 k = r.below(4); const int bits = (k < 2) ? 32 : 64;
                  uint64_t v; switch(r.below(5)) {case 0: v = 0; break; case 1: v = ~0ULL; break; case 2: v = 1ULL<<(bits-1); break; case 3: v = r.below(1000); break; default: v = r.next(); break;}
                  if (bits == 32) v &= 0xFFFFFFFFULL;
                  emit(out, std::string("argi ") + D + " " + R + " " + kinds[k] + " " + u64s(v));
               }
               break;
               case 57:
               {
                  static const uint64_t dv[] = {0ULL, 0x3ff0000000000000ULL, 0xbff8000000000000ULL, 0x40091eb851eb851fULL, 0x4197d78400000000ULL, 0x3fb999999999999aULL, 0x7ff0000000000000ULL, 0x7ff8000000000000ULL};
                  emit(out, "argf " + R + " " + u64s(r.chance(3,4) ? dv[r.below(8)] : r.next()));
               }
               break;
               case 58: emit(out, "plus " + D + " " + genS(r, Rn, al) + " " + genS(r, Rn, al)); break;
               case 59: emit(out, "len " + R); break;
               case 60: emit(out, std::string(r.chance(1,2) ? "idxch " : "lidxch ") + R + " " + genChar(r, Rn, al) + " " + genIdx(r, Rn)); break;
               case 61:
               {
                  std::string from = genIdx(r, Rn); if (r.chance(1,12)) from = u64s(0x80000000u + r.below(3));   // (int32) boundary of fixed finding C17-lidxich
                  emit(out, std::string(r.chance(1,2) ? "idxich " : "lidxich ") + R + " " + genChar(r, Rn, al) + " " + from);
               }
               break;
               case 62: emit(out, "idx " + R + " " + genNeedle(r, Rn, al) + " " + genIdx(r, Rn)); break;
               case 63: emit(out, "idxc " + R + " " + genP(r, Rn, al) + " " + genIdx(r, Rn)); break;
               case 64: emit(out, "lidx " + R + " " + genNeedle(r, Rn, al)); break;
               case 65: emit(out, "lidx2 " + R + " " + genNeedle(r, Rn, al) + " " + genIdx(r, Rn)); break;
               case 66: emit(out, std::string(r.chance(1,2) ? "idxi " : "lidxi ") + R + " " + genNeedle(r, Rn, al) + " " + genIdx(r, Rn)); break;
               case 67: {static const char * q[] = {"sw", "ew", "swi", "ewi", "eq", "eqi"}; emit(out, std::string(q[r.below(6)]) + " " + R + " " + genS(r, Rn, al));} break;
               case 68: {static const char * q[] = {"swc", "ewc"}; emit(out, std::string(q[r.below(2)]) + " " + R + " " + genP(r, Rn, al));} break;
               case 69: emit(out, std::string(r.chance(1,2) ? "swch " : "ewch ") + R + " " + genChar(r, Rn, al)); break;
               case 70: case 71: {static const char * q[] = {"cmp", "cmpi", "ncmp", "ncmpi"}; emit(out, std::string(q[r.below(4)]) + " " + R + " " + genS(r, Rn, al));} break;
               case 72: emit(out, "cnt " + R + " " + genNeedle(r, Rn, al) + " " + genIdx(r, Rn)); break;
               case 73: emit(out, "cntch " + R + " " + genChar(r, Rn, al) + " " + genIdx(r, Rn)); break;
               case 74: emit(out, "pnum " + R + " " + u64s(r.below(3))); emit(out, "swnum " + R + " " + u64s(r.below(2))); break;
               case 75: emit(out, "flat " + R); break;
               case 76:
               {
                  // mostly terminated input (an existing register's flattened form or fresh bytes) + optional trailing
                  // bytes; one in four is unterminated (no NUL at all, incl. the empty view) and must be rejected
                  static const char * apis[] = {"bytes", "flat", "lp", "msg"};
                  std::string b = r.chance(1,2) ? sh[r.below(NREGS)] : genBytes(r, al);
                  if (r.chance(3,4))
                  {
                     b.push_back('\0');
                     if (r.chance(1,3)) {const uint32 n = r.range(1,5); for (uint32 k=0; k<n; k++) b.push_back((char)r.below(256));}
                  }
                  else if (r.chance(1,4)) b.clear();
                  emit(out, "unflat " + R + " " + apis[r.below(4)] + " " + hexOf(b));
               }
               break;
               case 77: emit(out, "at " + R + " " + u64s(r.below((uint32)sh[Rn].size()+1))); break;
               case 78: case 79:
               {
                  static const char * seps[] = {"x20", "x", "x2c20", "x61", "x2020"};
                  const std::string sep = r.chance(3,4) ? std::string(seps[r.below(5)]) : genP(r, Rn, al);
                  emit(out, "wword " + D + " " + R + " " + genIdx(r, Rn) + " " + genS(r, Rn, al) + " " + sep);
               }
               break;
               case 80: emit(out, "indent " + D + " " + R + " " + u64s(r.chance(1,4) ? 0 : r.range(1, SMALL+2)) + " " + (r.chance(1,2) ? std::string("32") : genChar(r, Rn, al))); break;
               case 81: case 82:
               {
                  std::string set; const uint32 k = r.below(4); for (uint32 q=0; q<k; q++) {if ((!sh[Rn].empty())&&(r.chance(2,3))) set.push_back(sh[Rn][r.below((uint32)sh[Rn].size())]); else set.push_back((char)r.range(1,255));}
                  emit(out, "wesc " + D + " " + R + " " + (r.chance(5,6) ? hexOf(set) : genP(r, Rn, al)) + " " + (r.chance(1,2) ? std::string("92") : genChar(r, Rn, al)));
               }
               break;
               case 83: emit(out, std::string(r.chance(1,2) ? "wsuf " : "wpre ") + D + " " + R + " " + genNeedle(r, Rn, al)); break;
               case 84: emit(out, std::string(r.chance(1,2) ? "wsufch " : "wprech ") + D + " " + R + " " + genChar(r, Rn, al)); break;
               case 85: case 86:
               {
                  // a real suffix / prefix of the register (possibly in another case), so that something is removed
                  const std::string & v = sh[Rn]; const bool suf = r.chance(1,2);
                  std::string piece;
                  if ((!v.empty())&&(r.chance(2,3))) {const uint32 k = r.range(1, std::min<uint32>(3, (uint32)v.size())); piece = suf ? v.substr(v.size()-k) : v.substr(0, k); if (r.chance(1,3)) piece = upperS(piece);}
                  else piece = genBytes(r, al);
                  emit(out, std::string(suf ? "wosuf " : "wopre ") + D + " " + R + " " + (r.chance(1,8) ? "r" + R : hexOf(piece)) + " " + genMax(r) + " " + u64s(r.below(2)));
               }
               break;
               case 87:
               {
                  const std::string & v = sh[Rn]; const bool suf = r.chance(1,2);
                  std::string c = genChar(r, Rn, al); if ((!v.empty())&&(r.chance(2,3))) c = u64s((uint8_t)(suf ? v[v.size()-1] : v[0]));
                  emit(out, std::string(suf ? "wosufch " : "woprech ") + D + " " + R + " " + c + " " + genMax(r) + " " + u64s(r.below(2)));
               }
               break;
               case 88: case 89:
               {
                  std::string line = "trep " + R + " " + genMax(r);
                  const uint32 np = r.below(5);
                  for (uint32 q=0; q<np; q++)
                  {
                     std::string key = r.chance(3,4) ? genPiece(r, Rn) : genContent(r, r.below(4), al);
                     if (key.size() > 4) key.resize(r.range(1,4));
                     line += " " + hexOf(key) + " " + (r.chance(1,6) ? "r" + R : hexOf(genContent(r, r.chance(1,5) ? SMALL+r.below(3) : r.below(5), al)));
                  }
                  emit(out, line);
               }
               break;
               case 90: case 91: emit(out, "dist " + R + " " + genS(r, Rn, al) + " " + (r.chance(1,2) ? u64s(NOLIM) : u64s(r.below(2*SMALL)))); break;
               default: if (!sh[Rn].empty()) emit(out, "setch " + R + " " + u64s(r.below((uint32)sh[Rn].size())) + " " + genChar(r, Rn, al)); break;
            }
         }
         for (int j=0; j<2; j++) {emit(out, "flat " + u64s(j)); emit(out, "dump " + u64s(j));}
      }
   }

   // ------------------------------------------------------------------ execution
   virtual void reset() {for (int i=0; i<NREGS; i++) {regs[i] = String(); regs[i].ClearAndFlush(); twin[i] = String(); twin[i].ClearAndFlush(); sh[i].clear();}}

   // puts (t) into the storage mode opposite to that of (primary) without changing its value
   static void flipMode(String & t, const String & primary)
   {
      const bool primaryInline = (primary.GetNumAllocatedBytes() == SMALL+1);
      if (primaryInline) (void) t.Prealloc(std::max<uint32>(2*SMALL+2, t.Length()+SMALL+2));
      else (void) t.ShrinkToFit();
   }

   // Executes the op on register file F.  Returns false for an unparseable op (nothing was changed then).
   bool exec(const std::vector<std::string> & t, String * F, bool isTwin, std::string & ret)
   {
      const std::string & op = t[0];
      const size_t n = t.size();
      uint32 R, D, a, b; char c1, c2;
      #define TARGET(reg) String & s = F[reg]; if (isTwin) flipMode(s, regs[reg]); touched[reg] = true
      #define MUT(retval) ret = std::string(retval) + " " + hexOf(bytesOf(s)); return true
      // ---- in-place mutators
      if ((op == "set")&&(n == 4))     {PArg p; if ((!parseR(t[1], R))||(!parseP(t[2], F, isTwin, p))||(!parseU(t[3], a))) return false; TARGET(R); const status_t r = s.SetCstr(p.p, a); MUT(r.IsOK()?"ok":"err");}
      if ((op == "setfrom")&&(n == 5)) {SArg x; if ((!parseR(t[1], R))||(!parseS(t[2], F, isTwin, x))||(!parseU(t[3], a))||(!parseU(t[4], b))) return false; TARGET(R); const status_t r = s.SetFromString(x.get(), a, b); MUT(r.IsOK()?"ok":"err");}
      if ((op == "app")&&(n == 3))     {SArg x; if ((!parseR(t[1], R))||(!parseS(t[2], F, isTwin, x))) return false; TARGET(R); s += x.get(); MUT("ok");}
      if ((op == "appc")&&(n == 3))    {PArg p; if ((!parseR(t[1], R))||(!parseP(t[2], F, isTwin, p))) return false; TARGET(R); s += p.p; MUT("ok");}
      if ((op == "appch")&&(n == 3))   {if ((!parseR(t[1], R))||(!parseC(t[2], c1))) return false; TARGET(R); s += c1; MUT("ok");}
      if ((op == "ins")&&(n == 5))     {PArg p; if ((!parseR(t[1], R))||(!parseU(t[2], a))||(!parseP(t[3], F, isTwin, p))||(!parseU(t[4], b))) return false; TARGET(R); const status_t r = s.InsertChars(a, p.p, b); MUT(r.IsOK()?"ok":"err");}
      if ((op == "rmch")&&(n == 3))    {if ((!parseR(t[1], R))||(!parseC(t[2], c1))) return false; TARGET(R); s -= c1; MUT("ok");}
      if ((op == "rm")&&(n == 3))      {SArg x; if ((!parseR(t[1], R))||(!parseS(t[2], F, isTwin, x))) return false; TARGET(R); s -= x.get(); MUT("ok");}
      if ((op == "rmc")&&(n == 3))     {PArg p; if ((!parseR(t[1], R))||(!parseP(t[2], F, isTwin, p))) return false; TARGET(R); s -= p.p; MUT("ok");}
      if ((op == "repch")&&(n == 6))   {if ((!parseR(t[1], R))||(!parseC(t[2], c1))||(!parseC(t[3], c2))||(!parseU(t[4], a))||(!parseU(t[5], b))) return false; TARGET(R); const uint32 k = s.Replace(c1, c2, a, b); MUT(u64s(k));}
      if ((op == "rep")&&(n == 6))     {SArg x, y; if ((!parseR(t[1], R))||(!parseS(t[2], F, isTwin, x))||(!parseS(t[3], F, isTwin, y))||(!parseU(t[4], a))||(!parseU(t[5], b))) return false; TARGET(R); const int32 k = s.Replace(x.get(), y.get(), a, b); MUT(i64s(k));}
      if ((op == "rev")&&(n == 2))     {if (!parseR(t[1], R)) return false; TARGET(R); s.Reverse(); MUT("ok");}
      if ((op == "clear")&&(n == 2))   {if (!parseR(t[1], R)) return false; TARGET(R); s.Clear(); MUT("ok");}
      if ((op == "flush")&&(n == 2))   {if (!parseR(t[1], R)) return false; TARGET(R); s.ClearAndFlush(); MUT("ok");}
      if ((op == "shrink")&&(n == 3))  {if ((!parseR(t[1], R))||(!parseU(t[2], a))||(a > 100000)) return false; TARGET(R); const status_t r = s.ShrinkToFit(a); MUT(r.IsOK()?"ok":"err");}
      if ((op == "prealloc")&&(n == 3)){if ((!parseR(t[1], R))||(!parseU(t[2], a))||(a > 100000)) return false; TARGET(R); const status_t r = s.Prealloc(a); MUT(r.IsOK()?"ok":"err");}
      if ((op == "truncc")&&(n == 3))  {if ((!parseR(t[1], R))||(!parseU(t[2], a))) return false; TARGET(R); s.TruncateChars(a); MUT("ok");}
      if ((op == "trunct")&&(n == 3))  {if ((!parseR(t[1], R))||(!parseU(t[2], a))) return false; TARGET(R); s.TruncateToLength(a); MUT("ok");}
      if ((op == "setch")&&(n == 4))   {if ((!parseR(t[1], R))||(!parseU(t[2], a))||(a >= F[R].Length())||(!parseC(t[3], c1))) return false; TARGET(R); s[a] = c1; MUT("ok");}
      if ((op == "swap")&&(n == 3))    {if ((!parseR(t[1], R))||(!parseR(t[2], D))) return false; TARGET(R); touched[D] = true; s.SwapContents(F[D]); MUT("ok");}
      // ---- value-returning const methods: F[D] = F[R].f(...)
      #define VAL(expr) {TARGET(R); touched[D] = true; F[D] = (expr); ret = hexOf(bytesOf(F[D])); return true;}
      if ((op == "sub")&&(n == 5))     {if ((!parseR(t[1], D))||(!parseR(t[2], R))||(!parseU(t[3], a))||(!parseU(t[4], b))) return false; VAL(s.Substring(a, b));}
      if ((op == "subaft")&&(n == 4))  {SArg x; if ((!parseR(t[1], D))||(!parseR(t[2], R))||(!parseS(t[3], F, isTwin, x))) return false; VAL(s.Substring(x.get()));}
      if ((op == "subaftc")&&(n == 4)) {PArg p; if ((!parseR(t[1], D))||(!parseR(t[2], R))||(!parseP(t[3], F, isTwin, p))) return false; VAL(s.Substring(p.p));}
      if ((op == "subto")&&(n == 5))   {SArg x; if ((!parseR(t[1], D))||(!parseR(t[2], R))||(!parseU(t[3], a))||(!parseS(t[4], F, isTwin, x))) return false; VAL(s.Substring(a, x.get()));}
      if ((op == "wins")&&(n == 6))    {SArg x; if ((!parseR(t[1], D))||(!parseR(t[2], R))||(!parseU(t[3], a))||(!parseS(t[4], F, isTwin, x))||(!parseU(t[5], b))) return false; VAL(s.WithInsert(a, x.get(), b));}
      if ((op == "winsc")&&(n == 6))   {PArg p; if ((!parseR(t[1], D))||(!parseR(t[2], R))||(!parseU(t[3], a))||(!parseP(t[4], F, isTwin, p))||(!parseU(t[5], b))) return false; VAL(s.WithInsert(a, p.p, b));}
      if ((op == "winsch")&&(n == 6))  {if ((!parseR(t[1], D))||(!parseR(t[2], R))||(!parseU(t[3], a))||(!parseC(t[4], c1))||(!parseU(t[5], b))||(b > 100000)) return false; VAL(s.WithInsert(a, c1, b));}
      if ((op == "pad")&&(n == 6))     {if ((!parseR(t[1], D))||(!parseR(t[2], R))||(!parseU(t[3], a))||(a > 100000)||(!parseU(t[4], b))||(b > 1)||(!parseC(t[5], c1))) return false; VAL(s.PaddedBy(a, b != 0, c1));}
      if ((op == "lower")&&(n == 3))   {if ((!parseR(t[1], D))||(!parseR(t[2], R))) return false; VAL(s.ToLowerCase());}
      if ((op == "upper")&&(n == 3))   {if ((!parseR(t[1], D))||(!parseR(t[2], R))) return false; VAL(s.ToUpperCase());}
      if ((op == "mixed")&&(n == 3))   {if ((!parseR(t[1], D))||(!parseR(t[2], R))) return false; VAL(s.ToMixedCase());}
      if ((op == "trim")&&(n == 3))    {if ((!parseR(t[1], D))||(!parseR(t[2], R))) return false; VAL(s.Trimmed());}
      if ((op == "wrepch")&&(n == 7))  {if ((!parseR(t[1], D))||(!parseR(t[2], R))||(!parseC(t[3], c1))||(!parseC(t[4], c2))||(!parseU(t[5], a))||(!parseU(t[6], b))) return false; VAL(s.WithReplacements(c1, c2, a, b));}
      if ((op == "wrep")&&(n == 7))    {SArg x, y; if ((!parseR(t[1], D))||(!parseR(t[2], R))||(!parseS(t[3], F, isTwin, x))||(!parseS(t[4], F, isTwin, y))||(!parseU(t[5], a))||(!parseU(t[6], b))) return false; VAL(s.WithReplacements(x.get(), y.get(), a, b));}
      if ((op == "wonum")&&(n == 3))   {if ((!parseR(t[1], D))||(!parseR(t[2], R))) return false; TARGET(R); touched[D] = true; uint32 v = 12345; F[D] = s.WithoutNumericSuffix(&v); ret = hexOf(bytesOf(F[D])) + " " + u64s(v); return true;}
      if ((op == "arg")&&(n == 4))     {SArg x; if ((!parseR(t[1], D))||(!parseR(t[2], R))||(!parseS(t[3], F, isTwin, x))) return false; VAL(s.Arg(x.get()));}
      if ((op == "argi")&&(n == 5))
      {
         uint64_t v; if ((!parseR(t[1], D))||(!parseR(t[2], R))||(!toU64(t[4], v))) return false;
         const std::string & k = t[3];
         if (((k == "i32")||(k == "u32"))&&(v > 0xFFFFFFFFULL)) return false;
         if (k == "i32") VAL(s.Arg((int)(int32_t)(uint32_t)v));
         if (k == "u32") VAL(s.Arg((unsigned int)v));
         if (k == "i64") VAL(s.Arg((long long)v));
         if (k == "u64") VAL(s.Arg((unsigned long long)v));
         return false;
      }
      if ((op == "wword")&&(n == 6))   {SArg x; PArg p; if ((!parseR(t[1], D))||(!parseR(t[2], R))||(!parseU(t[3], a))||(!parseS(t[4], F, isTwin, x))||(!parseP(t[5], F, isTwin, p))) return false; VAL(s.WithInsertedWord(a, x.get(), p.p));}
      if ((op == "indent")&&(n == 5))  {if ((!parseR(t[1], D))||(!parseR(t[2], R))||(!parseU(t[3], a))||(a > 1000)||(!parseC(t[4], c1))) return false; VAL(s.IndentedBy(a, c1));}
      if ((op == "wesc")&&(n == 5))    {PArg p; if ((!parseR(t[1], D))||(!parseR(t[2], R))||(!parseP(t[3], F, isTwin, p))||(!parseC(t[4], c1))) return false; VAL(s.WithCharsEscaped(p.p, c1));}
      if ((op == "wsuf")&&(n == 4))    {SArg x; if ((!parseR(t[1], D))||(!parseR(t[2], R))||(!parseS(t[3], F, isTwin, x))) return false; VAL(s.WithSuffix(x.get()));}
      if ((op == "wpre")&&(n == 4))    {SArg x; if ((!parseR(t[1], D))||(!parseR(t[2], R))||(!parseS(t[3], F, isTwin, x))) return false; VAL(s.WithPrefix(x.get()));}
      if ((op == "wsufch")&&(n == 4))  {if ((!parseR(t[1], D))||(!parseR(t[2], R))||(!parseC(t[3], c1))) return false; VAL(s.WithSuffix(c1));}
      if ((op == "wprech")&&(n == 4))  {if ((!parseR(t[1], D))||(!parseR(t[2], R))||(!parseC(t[3], c1))) return false; VAL(s.WithPrefix(c1));}
      if ((op == "wosuf")&&(n == 6))   {SArg x; if ((!parseR(t[1], D))||(!parseR(t[2], R))||(!parseS(t[3], F, isTwin, x))||(!parseU(t[4], a))||(!parseU(t[5], b))||(b > 1)) return false; VAL(b ? s.WithoutSuffixIgnoreCase(x.get(), a) : s.WithoutSuffix(x.get(), a));}
      if ((op == "wopre")&&(n == 6))   {SArg x; if ((!parseR(t[1], D))||(!parseR(t[2], R))||(!parseS(t[3], F, isTwin, x))||(!parseU(t[4], a))||(!parseU(t[5], b))||(b > 1)) return false; VAL(b ? s.WithoutPrefixIgnoreCase(x.get(), a) : s.WithoutPrefix(x.get(), a));}
      if ((op == "wosufch")&&(n == 6)) {if ((!parseR(t[1], D))||(!parseR(t[2], R))||(!parseC(t[3], c1))||(!parseU(t[4], a))||(!parseU(t[5], b))||(b > 1)) return false; VAL(b ? s.WithoutSuffixIgnoreCase(c1, a) : s.WithoutSuffix(c1, a));}
      if ((op == "woprech")&&(n == 6)) {if ((!parseR(t[1], D))||(!parseR(t[2], R))||(!parseC(t[3], c1))||(!parseU(t[4], a))||(!parseU(t[5], b))||(b > 1)) return false; VAL(b ? s.WithoutPrefixIgnoreCase(c1, a) : s.WithoutPrefix(c1, a));}
      if ((op == "trep")&&(n >= 3)&&(((n-3)%2) == 0)&&(n <= 11))
      {
         if ((!parseR(t[1], R))||(!parseU(t[2], a))) return false;
         Hashtable<String, String> table;
         for (size_t k=3; k+1<n; k+=2)
         {
            SArg x, y; if ((!parseS(t[k], F, true, x))||(!parseS(t[k+1], F, true, y))) return false;   // the table owns copies of its keys and values
            (void) table.Put(x.get(), y.get());
         }
         TARGET(R); const int32 k = s.Replace(table, a); MUT(i64s(k));
      }
      if ((op == "dist")&&(n == 4))    {SArg x; if ((!parseR(t[1], R))||(!parseS(t[2], F, isTwin, x))||(!parseU(t[3], a))) return false; TARGET(R); ret = u64s(s.GetDistanceTo(x.get(), a)); return true;}
      if ((op == "plus")&&(n == 4))    {SArg x, y; if ((!parseR(t[1], D))||(!parseS(t[2], F, isTwin, x))||(!parseS(t[3], F, isTwin, y))) return false; touched[D] = true; F[D] = x.get() + y.get(); ret = hexOf(bytesOf(F[D])); return true;}
      // ---- queries
      #define QRY(expr) {TARGET(R); ret = (expr); return true;}
      if ((op == "len")&&(n == 2))     {if (!parseR(t[1], R)) return false; QRY(u64s(s.Length()));}
      if ((op == "dump")&&(n == 2))    {if (!parseR(t[1], R)) return false; QRY(hexOf(bytesOf(s)));}
      if ((op == "at")&&(n == 3))      {if ((!parseR(t[1], R))||(!parseU(t[2], a))||(a >= F[R].Length())) return false; QRY(u64s((uint8_t)s.CharAt(a)));}
      if ((op == "idxch")&&(n == 4))   {if ((!parseR(t[1], R))||(!parseC(t[2], c1))||(!parseU(t[3], a))) return false; QRY(i64s(s.IndexOf(c1, a)));}
      if ((op == "lidxch")&&(n == 4))  {if ((!parseR(t[1], R))||(!parseC(t[2], c1))||(!parseU(t[3], a))) return false; QRY(i64s(s.LastIndexOf(c1, a)));}
      if ((op == "idxich")&&(n == 4))  {if ((!parseR(t[1], R))||(!parseC(t[2], c1))||(!parseU(t[3], a))) return false; QRY(i64s(s.IndexOfIgnoreCase(c1, a)));}
      if ((op == "lidxich")&&(n == 4)) {if ((!parseR(t[1], R))||(!parseC(t[2], c1))||(!parseU(t[3], a))) return false; QRY(i64s(s.LastIndexOfIgnoreCase(c1, a)));}
      if ((op == "idx")&&(n == 4))     {SArg x; if ((!parseR(t[1], R))||(!parseS(t[2], F, isTwin, x))||(!parseU(t[3], a))) return false; QRY(i64s(s.IndexOf(x.get(), a)));}
      if ((op == "idxc")&&(n == 4))    {PArg p; if ((!parseR(t[1], R))||(!parseP(t[2], F, isTwin, p))||(!parseU(t[3], a))) return false; QRY(i64s(s.IndexOf(p.p, a)));}
      if ((op == "lidx")&&(n == 3))    {SArg x; if ((!parseR(t[1], R))||(!parseS(t[2], F, isTwin, x))) return false; QRY(i64s(s.LastIndexOf(x.get())));}
      if ((op == "lidx2")&&(n == 4))   {SArg x; if ((!parseR(t[1], R))||(!parseS(t[2], F, isTwin, x))||(!parseU(t[3], a))) return false; QRY(i64s(s.LastIndexOf(x.get(), a)));}
      if ((op == "idxi")&&(n == 4))    {SArg x; if ((!parseR(t[1], R))||(!parseS(t[2], F, isTwin, x))||(!parseU(t[3], a))) return false; QRY(i64s(s.IndexOfIgnoreCase(x.get(), a)));}
      if ((op == "lidxi")&&(n == 4))   {SArg x; if ((!parseR(t[1], R))||(!parseS(t[2], F, isTwin, x))||(!parseU(t[3], a))) return false; QRY(i64s(s.LastIndexOfIgnoreCase(x.get(), a)));}
      if (n == 3)
      {
         if ((op == "sw")||(op == "ew")||(op == "swi")||(op == "ewi")||(op == "eq")||(op == "eqi")||(op == "cmp")||(op == "cmpi")||(op == "ncmp")||(op == "ncmpi"))
         {
            SArg x; if ((!parseR(t[1], R))||(!parseS(t[2], F, isTwin, x))) return false;
            TARGET(R);
            if (op == "sw")    ret = bs(s.StartsWith(x.get()));
            if (op == "ew")    ret = bs(s.EndsWith(x.get()));
            if (op == "swi")   ret = bs(s.StartsWithIgnoreCase(x.get()));
            if (op == "ewi")   ret = bs(s.EndsWithIgnoreCase(x.get()));
            if (op == "eq")    ret = bs(s == x.get());
            if (op == "eqi")   ret = bs(s.EqualsIgnoreCase(x.get()));
            if (op == "cmp")   ret = i64s(sgn(s.CompareTo(x.get())));
            if (op == "cmpi")  ret = i64s(sgn(s.CompareToIgnoreCase(x.get())));
            if (op == "ncmp")  ret = i64s(sgn(s.NumericAwareCompareTo(x.get())));
            if (op == "ncmpi") ret = i64s(sgn(s.NumericAwareCompareToIgnoreCase(x.get())));
            return true;
         }
         if ((op == "swc")||(op == "ewc")) {PArg p; if ((!parseR(t[1], R))||(!parseP(t[2], F, isTwin, p))) return false; QRY(bs((op == "swc") ? s.StartsWith(p.p) : s.EndsWith(p.p)));}
         if ((op == "swch")||(op == "ewch")) {if ((!parseR(t[1], R))||(!parseC(t[2], c1))) return false; QRY(bs((op == "swch") ? s.StartsWith(c1) : s.EndsWith(c1)));}
         if (op == "pnum")  {if ((!parseR(t[1], R))||(!parseU(t[2], a))) return false; QRY(u64s(s.ParseNumericSuffix(a)));}
         if (op == "swnum") {if ((!parseR(t[1], R))||(!parseU(t[2], a))||(a > 1)) return false; QRY(bs(s.StartsWithNumber(a != 0)));}
      }
      if ((op == "cnt")&&(n == 4))     {SArg x; if ((!parseR(t[1], R))||(!parseS(t[2], F, isTwin, x))||(!parseU(t[3], a))) return false; QRY(u64s(s.GetNumInstancesOf(x.get(), a)));}
      if ((op == "cntch")&&(n == 4))   {if ((!parseR(t[1], R))||(!parseC(t[2], c1))||(!parseU(t[3], a))) return false; QRY(u64s(s.GetNumInstancesOf(c1, a)));}
      if ((op == "argf")&&(n == 3))    {uint64_t v; if ((!parseR(t[1], R))||(!toU64(t[2], v))) return false; QRY("ok");}   // compared with snprintf in refStep only
      if ((op == "flat")&&(n == 2))
      {
         if (!parseR(t[1], R)) return false;
         TARGET(R);
         const uint32 fs = s.FlattenedSize();
         std::vector<uint8_t> buf(fs+8, 0xEE);
         s.FlattenToBytes(buf.data());
         if (!isTwin)
         {
            for (uint32 i=0; i<8; i++) if (buf[fs+i] != 0xEE) {oracleFail("Flatten wrote past FlattenedSize()"); break;}
            if ((fs != s.Length()+1)||(memcmp(buf.data(), s(), s.Length()) != 0)||(buf[fs-1] != 0)) oracleFail("Flatten is not the bytes plus one NUL");
            // round trip, with and without trailing bytes, through every public entry point
            String back; uint8_t * exact = (uint8_t *) malloc(fs); memcpy(exact, buf.data(), fs);
            if ((back.UnflattenFromBytes(exact, fs).IsError())||(back != s)) oracleFail("UnflattenFromBytes(Flatten(s)) != s");
            free(exact);
            DataUnflattener u(buf.data(), fs+8); String b2;
            if ((u.ReadFlat(b2).IsError())||(b2 != s)||(u.GetNumBytesRead() != fs)) oracleFail("ReadFlat(Flatten(s)++rest) != (s, rest)");
         }
         buf.resize(fs);
         ret = "ok " + u64s(fs) + " " + hexOf(buf); return true;
      }
      if ((op == "unflat")&&(n == 4))
      {
         std::string in; if ((!parseR(t[1], R))||(!unhex(t[3], in))) return false;
         const std::string & api = t[2];
         if ((api != "bytes")&&(api != "flat")&&(api != "lp")&&(api != "msg")) return false;
         TARGET(R);
         uint8_t * exact = (uint8_t *) malloc(in.size() ? in.size() : 1); memcpy(exact, in.data(), in.size());   // exact-size heap copy: ASan sees over-reads
         status_t st; uint32 used = 0;
         if (api == "bytes") {st = s.UnflattenFromBytes(exact, (uint32)in.size()); used = st.IsOK() ? s.FlattenedSize() : 0;}
         else if (api == "flat") {DataUnflattener u(exact, (uint32)in.size()); st = u.ReadFlat(s); if (st.IsOK()) st = u.GetStatus(); used = u.GetNumBytesRead();}
         else if (api == "lp")
         {
            std::vector<uint8_t> w(4+in.size()); const uint32 l = (uint32)in.size(); w[0] = (uint8_t)l; w[1] = (uint8_t)(l>>8); w[2] = (uint8_t)(l>>16); w[3] = (uint8_t)(l>>24);
            memcpy(w.data()+4, in.data(), in.size());
            uint8_t * ex2 = (uint8_t *) malloc(w.size()); memcpy(ex2, w.data(), w.size());
            DataUnflattener u(ex2, (uint32)w.size()); st = u.ReadFlatWithLengthPrefix(s); if (st.IsOK()) st = u.GetStatus(); used = u.GetNumBytesRead();
            free(ex2);
         }
         else
         {
            // a one-item string field inside a Message: take a valid Message and splice our payload in as the item
            Message m(7); (void) m.AddString("f", "");
            std::vector<uint8_t> enc(m.FlattenedSize()); m.FlattenToBytes(enc.data());
            // layout of the tail: field-data-length(4)=9, item-count(4)=1, item-length(4)=1, "\0"
            std::vector<uint8_t> w(enc.begin(), enc.end()-13);
            const uint32 l = (uint32)in.size();
            const uint32 words[3] = {8+l, 1, l};
            for (int k=0; k<3; k++) {w.push_back((uint8_t)words[k]); w.push_back((uint8_t)(words[k]>>8)); w.push_back((uint8_t)(words[k]>>16)); w.push_back((uint8_t)(words[k]>>24));}
            w.insert(w.end(), in.begin(), in.end());
            uint8_t * ex2 = (uint8_t *) malloc(w.size()); memcpy(ex2, w.data(), w.size());
            Message back; st = back.UnflattenFromBytes(ex2, (uint32)w.size());
            free(ex2);
            if (st.IsOK()) {const String * ps = NULL; st = back.FindString("f", &ps); if ((st.IsOK())&&(ps)) s = *ps;}
            used = st.IsOK() ? s.FlattenedSize() : 0;
         }
         free(exact);
         if ((!isTwin)&&(st.IsOK())&&(in.find('\0') == std::string::npos)) oracleFail("unterminated input accepted by String::Unflatten via " + api + " (result ok, String = " + hexOf(bytesOf(s)) + ")");
         if (st.IsError()) {s.Clear(); ret = "err"; return true;}   // what a failed parse leaves behind is unspecified: reset
         ret = "ok " + u64s(used) + " " + hexOf(bytesOf(s)); return true;
      }
      return false;
   }

   void checkInvariants(const String & s, const char * which, int i)
   {
      const uint32 len = s.Length(), cap = s.GetNumAllocatedBytes();
      if (strlen(s()) != len) oracleFail(std::string(which) + u64s(i) + ": strlen(Cstr()) != Length()");
      if (len >= cap) oracleFail(std::string(which) + u64s(i) + ": Length() >= GetNumAllocatedBytes()");
      if (cap < SMALL+1) oracleFail(std::string(which) + u64s(i) + ": capacity below the inline capacity");
   }

   virtual std::string step(const std::vector<std::string> & t)
   {
      for (int i=0; i<NREGS; i++) touched[i] = false;
      // operand values and pre-state for the reference, taken before anything runs
      std::string pre[NREGS]; for (int i=0; i<NREGS; i++) pre[i] = sh[i];
      std::string r1, r2;
      // twin first: it must see the primary's storage mode as it is BEFORE the op
      const bool ok2 = exec(t, twin, true, r2);
      bool keep[NREGS]; for (int i=0; i<NREGS; i++) keep[i] = touched[i];
      const bool ok1 = exec(t, regs, false, r1);
      if (ok1 != ok2) {oracleFail("op accepted on one register file only: " + t[0]); return ok1 ? r1 : "bad-op";}
      if (!ok1) return "bad-op";
      if (r1 != r2) oracleFail("result depends on storage mode or on aliasing: " + r1.substr(0,200) + " vs twin " + r2.substr(0,200));
      for (int i=0; i<NREGS; i++)
      {
         if (bytesOf(regs[i]) != bytesOf(twin[i])) oracleFail("register " + u64s(i) + " differs from its opposite-mode, copy-operand twin: " + hexOf(bytesOf(regs[i])) + " vs " + hexOf(bytesOf(twin[i])));
         if ((touched[i])||(keep[i])) {checkInvariants(regs[i], "reg", i); checkInvariants(twin[i], "twin", i);}
      }
      refStep(t, pre, r1);
      for (int i=0; i<NREGS; i++) sh[i] = bytesOf(regs[i]);   // the shadow follows the implementation (a difference was reported above)
      return r1;
   }

   // the ideal byte string: the same op on std::string, compared with what the implementation did
   void refStep(const std::vector<std::string> & t, const std::string * pre, const std::string & implRet)
   {
      const std::string & op = t[0];
      const size_t n = t.size();
      // operand values as seen BEFORE the op
      struct V
      {
         static bool S(const std::string & tok, const std::string * pre, std::string & out)
         {
            if ((tok.size() >= 2)&&(tok[0] == 'r')) {uint64_t j; if ((!toU64(tok.substr(1), j))||(j >= (uint64_t)NREGS)) return false; out = pre[j]; return true;}
            return unhex(tok, out);
         }
         static bool P(const std::string & tok, const std::string * pre, std::string & out)
         {
            if ((tok.size() >= 4)&&(tok[0] == 'p'))
            {
               const size_t plus = tok.find('+'); uint64_t j, off;
               if ((plus == std::string::npos)||(!toU64(tok.substr(1, plus-1), j))||(j >= (uint64_t)NREGS)||(!toU64(tok.substr(plus+1), off))||(off > pre[j].size())) return false;
               out = pre[j].substr(off); return true;
            }
            return unhex(tok, out);
         }
      };
      uint32 R = 0, D = 0, a = 0, b = 0; char c1 = 0, c2 = 0; std::string x, y;
      std::string exp; bool have = false;        // expected content of the destination register
      std::string expRet; bool haveRet = false;  // expected return token
      uint32 dest = 0;
      #define RS(i) (parseR(t[i], R))
      if ((op == "set")&&(n == 4)&&RS(1)&&V::P(t[2], pre, x)&&parseU(t[3], a)) {exp = x.substr(0, a); have = true; dest = R;}
      else if ((op == "setfrom")&&(n == 5)&&RS(1)&&V::S(t[2], pre, x)&&parseU(t[3], a)&&parseU(t[4], b)) {exp = refSubstr(x, a, b); have = true; dest = R;}
      else if ((op == "app")&&(n == 3)&&RS(1)&&V::S(t[2], pre, x)) {exp = pre[R]+x; have = true; dest = R;}
      else if ((op == "appc")&&(n == 3)&&RS(1)&&V::P(t[2], pre, x)) {exp = pre[R]+x; have = true; dest = R;}
      else if ((op == "appch")&&(n == 3)&&RS(1)&&parseC(t[2], c1)) {exp = pre[R]; exp.push_back(c1); have = true; dest = R;}
      else if ((op == "ins")&&(n == 5)&&RS(1)&&parseU(t[2], a)&&V::P(t[3], pre, x)&&parseU(t[4], b)) {exp = pre[R]; exp.insert(std::min<size_t>(a, exp.size()), x.substr(0, b)); have = true; dest = R;}
      else if ((op == "rmch")&&(n == 3)&&RS(1)&&parseC(t[2], c1)) {exp = pre[R]; const size_t p = exp.rfind(c1); if (p != std::string::npos) exp.erase(p, 1); have = true; dest = R;}
      else if (((op == "rm")&&(n == 3)&&RS(1)&&V::S(t[2], pre, x))||((op == "rmc")&&(n == 3)&&RS(1)&&V::P(t[2], pre, x)))
      {
         exp = pre[R];
         if (!x.empty()) {const size_t p = exp.rfind(x); if (p != std::string::npos) exp.erase(p, x.size());}
         have = true; dest = R;
      }
      else if ((op == "repch")&&(n == 6)&&RS(1)&&parseC(t[2], c1)&&parseC(t[3], c2)&&parseU(t[4], a)&&parseU(t[5], b))
      {
         exp = pre[R]; uint32 k = 0;
         if (c1 != c2) for (size_t i=b; (i<exp.size())&&(a>0); i++) if (exp[i] == c1) {exp[i] = c2; a--; k++;}
         have = true; dest = R; expRet = u64s(k); haveRet = true;
      }
      else if ((op == "rep")&&(n == 6)&&RS(1)&&V::S(t[2], pre, x)&&V::S(t[3], pre, y)&&parseU(t[4], a)&&parseU(t[5], b)) {exp = pre[R]; expRet = i64s(refReplace(exp, x, y, a, b)); haveRet = true; have = true; dest = R;}
      else if ((op == "setch")&&(n == 4)&&RS(1)&&parseU(t[2], a)&&parseC(t[3], c1)&&(a < pre[R].size())) {exp = pre[R]; exp[a] = c1; have = true; dest = R;}
      else if ((op == "rev")&&(n == 2)&&RS(1)) {exp = pre[R]; std::reverse(exp.begin(), exp.end()); have = true; dest = R;}
      else if (((op == "clear")||(op == "flush"))&&(n == 2)&&RS(1)) {exp = ""; have = true; dest = R;}
      else if (((op == "shrink")||(op == "prealloc"))&&(n == 3)&&RS(1)) {exp = pre[R]; have = true; dest = R;}
      else if ((op == "truncc")&&(n == 3)&&RS(1)&&parseU(t[2], a)) {exp = pre[R]; exp.resize(exp.size()-std::min<size_t>(exp.size(), a)); have = true; dest = R;}
      else if ((op == "trunct")&&(n == 3)&&RS(1)&&parseU(t[2], a)) {exp = pre[R]; exp.resize(std::min<size_t>(exp.size(), a)); have = true; dest = R;}
      else if ((op == "swap")&&(n == 3)&&RS(1)&&parseR(t[2], D)) {exp = pre[D]; have = true; dest = R; if (bytesOf(regs[D]) != pre[R]) oracleFail("ideal string: SwapContents lost the other value");}
      else if ((op == "sub")&&(n == 5)&&parseR(t[1], D)&&RS(2)&&parseU(t[3], a)&&parseU(t[4], b)) {exp = refSubstr(pre[R], a, b); have = true; dest = D;}
      else if (((op == "subaft")&&(n == 4)&&parseR(t[1], D)&&RS(2)&&V::S(t[3], pre, x))||((op == "subaftc")&&(n == 4)&&parseR(t[1], D)&&RS(2)&&V::P(t[3], pre, x)))
      {
         const long long i = refLidx(pre[R], x);
         exp = (i >= 0) ? refSubstr(pre[R], (uint32)(i+x.size()), NOLIM) : pre[R]; have = true; dest = D;
      }
      else if ((op == "subto")&&(n == 5)&&parseR(t[1], D)&&RS(2)&&parseU(t[3], a)&&V::S(t[4], pre, x)) {exp = refSubstr(pre[R], a, (uint32)refIdx(pre[R], x, a)); have = true; dest = D;}
      else if (((op == "wins")&&(n == 6)&&parseR(t[1], D)&&RS(2)&&parseU(t[3], a)&&V::S(t[4], pre, x)&&parseU(t[5], b))||((op == "winsc")&&(n == 6)&&parseR(t[1], D)&&RS(2)&&parseU(t[3], a)&&V::P(t[4], pre, x)&&parseU(t[5], b)))
         {exp = pre[R]; exp.insert(std::min<size_t>(a, exp.size()), x.substr(0, b)); have = true; dest = D;}
      else if ((op == "winsch")&&(n == 6)&&parseR(t[1], D)&&RS(2)&&parseU(t[3], a)&&parseC(t[4], c1)&&parseU(t[5], b)) {exp = pre[R]; exp.insert(std::min<size_t>(a, exp.size()), (size_t)b, c1); have = true; dest = D;}
      else if ((op == "pad")&&(n == 6)&&parseR(t[1], D)&&RS(2)&&parseU(t[3], a)&&parseU(t[4], b)&&parseC(t[5], c1))
      {
         exp = pre[R]; if (exp.size() < a) {const std::string padding(a-exp.size(), c1); exp = b ? (exp+padding) : (padding+exp);}
         have = true; dest = D;
      }
      else if ((op == "lower")&&(n == 3)&&parseR(t[1], D)&&RS(2)) {exp = lowerS(pre[R]); have = true; dest = D;}
      else if ((op == "upper")&&(n == 3)&&parseR(t[1], D)&&RS(2)) {exp = upperS(pre[R]); have = true; dest = D;}
      else if ((op == "trim")&&(n == 3)&&parseR(t[1], D)&&RS(2))
      {
         size_t i = 0, j = pre[R].size(); while((i < j)&&(isSp(pre[R][i]))) i++; while((j > i)&&(isSp(pre[R][j-1]))) j--;
         exp = pre[R].substr(i, j-i); have = true; dest = D;
      }
      else if ((op == "wrepch")&&(n == 7)&&parseR(t[1], D)&&RS(2)&&parseC(t[3], c1)&&parseC(t[4], c2)&&parseU(t[5], a)&&parseU(t[6], b))
      {
         exp = pre[R]; if (c1 != c2) for (size_t i=b; (i<exp.size())&&(a>0); i++) if (exp[i] == c1) {exp[i] = c2; a--;}
         have = true; dest = D;
      }
      else if ((op == "wrep")&&(n == 7)&&parseR(t[1], D)&&RS(2)&&V::S(t[3], pre, x)&&V::S(t[4], pre, y)&&parseU(t[5], a)&&parseU(t[6], b)) {exp = pre[R]; (void) refReplace(exp, x, y, a, b); have = true; dest = D;}
      else if ((op == "wonum")&&(n == 3)&&parseR(t[1], D)&&RS(2))
      {
         exp = pre[R]; size_t j = exp.size(); while((j > 0)&&(exp[j-1] >= '0')&&(exp[j-1] <= '9')) j--;
         const uint32 v = (uint32) refAtoull(exp.substr(j)); exp.resize(j);
         have = true; dest = D; expRet = hexOf(exp) + " " + u64s(v); haveRet = true;
      }
      else if ((op == "arg")&&(n == 4)&&parseR(t[1], D)&&RS(2)&&V::S(t[3], pre, x)) {exp = refArgAux(pre[R], x); have = true; dest = D;}
      else if ((op == "argi")&&(n == 5)&&parseR(t[1], D)&&RS(2))
      {
         uint64_t v = 0; (void) toU64(t[4], v); char buf[64];
         if (t[3] == "i32") snprintf(buf, sizeof(buf), "%d", (int)(int32_t)(uint32_t)v); else if (t[3] == "u32") snprintf(buf, sizeof(buf), "%u", (unsigned)v);
         else if (t[3] == "i64") snprintf(buf, sizeof(buf), "%lld", (long long)v); else snprintf(buf, sizeof(buf), "%llu", (unsigned long long)v);
         exp = refArgAux(pre[R], buf); have = true; dest = D;
      }
      else if ((op == "plus")&&(n == 4)&&parseR(t[1], D)&&V::S(t[2], pre, x)&&V::S(t[3], pre, y)) {exp = x+y; have = true; dest = D;}
      else if ((op == "wsuf")&&(n == 4)&&parseR(t[1], D)&&RS(2)&&V::S(t[3], pre, x)) {const std::string & v = pre[R]; exp = ((v.size() >= x.size())&&(v.compare(v.size()-x.size(), x.size(), x) == 0)) ? v : v+x; have = true; dest = D;}
      else if ((op == "wpre")&&(n == 4)&&parseR(t[1], D)&&RS(2)&&V::S(t[3], pre, x)) {const std::string & v = pre[R]; exp = ((v.size() >= x.size())&&(v.compare(0, x.size(), x) == 0)) ? v : x+v; have = true; dest = D;}
      else if (((op == "wosuf")||(op == "wopre"))&&(n == 6)&&parseR(t[1], D)&&RS(2)&&V::S(t[3], pre, x)&&parseU(t[4], a)&&parseU(t[5], b))
      {
         exp = pre[R]; const bool suf = (op == "wosuf"); const std::string lx = b ? lowerS(x) : x;
         while((!x.empty())&&(a > 0)&&(exp.size() >= x.size()))
         {
            const std::string part = suf ? exp.substr(exp.size()-x.size()) : exp.substr(0, x.size());
            if ((b ? lowerS(part) : part) != lx) break;
            if (suf) exp.resize(exp.size()-x.size()); else exp.erase(0, x.size());
            a--;
         }
         have = true; dest = D;
      }
      else if ((op == "indent")&&(n == 5)&&parseR(t[1], D)&&RS(2)&&parseU(t[3], a)&&parseC(t[4], c1))
      {
         // documentation: the beginning of each line gets (a) x (c1) prepended
         const std::string & v = pre[R]; const std::string padding(a, c1); bool seen = false;
         if ((a > 0)&&(!v.empty())&&((v[0] == '\r')||(v[0] == '\n'))) exp = padding;
         for (size_t i=0; i<v.size(); i++) {if ((v[i] == '\n')||(v[i] == '\r')) seen = false; else if (!seen) {exp += padding; seen = true;} exp.push_back(v[i]);}
         have = true; dest = D;
      }
      else if ((op == "len")&&(n == 2)&&RS(1)) {expRet = u64s(pre[R].size()); haveRet = true;}
      else if ((op == "dump")&&(n == 2)&&RS(1)) {expRet = hexOf(pre[R]); haveRet = true;}
      else if ((op == "at")&&(n == 3)&&RS(1)&&parseU(t[2], a)&&(a < pre[R].size())) {expRet = u64s((uint8_t)pre[R][a]); haveRet = true;}
      else if ((op == "idxch")&&(n == 4)&&RS(1)&&parseC(t[2], c1)&&parseU(t[3], a)) {expRet = i64s(refIdx(pre[R], std::string(1, c1), a)); haveRet = true;}
      else if ((op == "lidxch")&&(n == 4)&&RS(1)&&parseC(t[2], c1)&&parseU(t[3], a)) {const size_t p = pre[R].rfind(c1); expRet = i64s(((a < pre[R].size())&&(p != std::string::npos)&&(p >= a)) ? (long long)p : -1); haveRet = true;}
      else if ((op == "idxich")&&(n == 4)&&RS(1)&&parseC(t[2], c1)&&parseU(t[3], a)) {expRet = i64s(refIdx(lowerS(pre[R]), lowerS(std::string(1, c1)), a)); haveRet = true;}
      else if ((op == "lidxich")&&(n == 4)&&RS(1)&&parseC(t[2], c1)&&parseU(t[3], a))
      {
         const std::string l = lowerS(pre[R]); const size_t p = l.rfind(lowerS(std::string(1, c1)));
         const bool inRange = (a < l.size())&&(p >= a);
         expRet = i64s(((p != std::string::npos)&&(inRange)) ? (long long)p : -1); haveRet = true;
      }
      else if (((op == "idx")&&(n == 4)&&RS(1)&&V::S(t[2], pre, x)&&parseU(t[3], a))||((op == "idxc")&&(n == 4)&&RS(1)&&V::P(t[2], pre, x)&&parseU(t[3], a))) {expRet = i64s(refIdx(pre[R], x, a)); haveRet = true;}
      else if ((op == "lidx")&&(n == 3)&&RS(1)&&V::S(t[2], pre, x)) {expRet = i64s(refLidx(pre[R], x)); haveRet = true;}
      else if ((op == "lidx2")&&(n == 4)&&RS(1)&&V::S(t[2], pre, x)&&parseU(t[3], a)) {expRet = i64s(refLidx2(pre[R], x, a)); haveRet = true;}
      else if ((op == "idxi")&&(n == 4)&&RS(1)&&V::S(t[2], pre, x)&&parseU(t[3], a)) {expRet = i64s(x.empty() ? -1 : refIdx(lowerS(pre[R]), lowerS(x), a)); haveRet = true;}
      else if ((op == "lidxi")&&(n == 4)&&RS(1)&&V::S(t[2], pre, x)&&parseU(t[3], a))
      {
         const std::string l = lowerS(pre[R]); const size_t p = l.rfind(lowerS(x));
         expRet = i64s(((!x.empty())&&(a < l.size())&&(p != std::string::npos)&&(p >= a)) ? (long long)p : -1); haveRet = true;
      }
      else if ((n == 3)&&((op == "sw")||(op == "ew")||(op == "swi")||(op == "ewi")||(op == "eq")||(op == "eqi")||(op == "cmp")||(op == "cmpi"))&&RS(1)&&V::S(t[2], pre, x))
      {
         const std::string & s = pre[R]; const std::string ls = lowerS(s), lx = lowerS(x);
         if (op == "sw")   expRet = bs((s.size() >= x.size())&&(s.compare(0, x.size(), x) == 0));
         if (op == "ew")   expRet = bs((s.size() >= x.size())&&(s.compare(s.size()-x.size(), x.size(), x) == 0));
         if (op == "swi")  expRet = bs((ls.size() >= lx.size())&&(ls.compare(0, lx.size(), lx) == 0));
         if (op == "ewi")  expRet = bs((ls.size() >= lx.size())&&(ls.compare(ls.size()-lx.size(), lx.size(), lx) == 0));
         if (op == "eq")   expRet = bs(s == x);
         if (op == "eqi")  expRet = bs(ls == lx);
         if (op == "cmp")  expRet = i64s(sgn(s.compare(x)));
         if (op == "cmpi") expRet = i64s(sgn(ls.compare(lx)));
         haveRet = true;
      }
      else if ((n == 3)&&((op == "swc")||(op == "ewc"))&&RS(1)&&V::P(t[2], pre, x))
      {
         const std::string & s = pre[R];
         expRet = (op == "swc") ? bs((s.size() >= x.size())&&(s.compare(0, x.size(), x) == 0)) : bs((s.size() >= x.size())&&(s.compare(s.size()-x.size(), x.size(), x) == 0));
         haveRet = true;
      }
      else if ((n == 3)&&(op == "swch")&&RS(1)&&parseC(t[2], c1)) {expRet = bs((!pre[R].empty())&&(pre[R][0] == c1)); haveRet = true;}
      else if ((n == 3)&&(op == "ewch")&&RS(1)&&parseC(t[2], c1)) {expRet = bs((!pre[R].empty())&&(pre[R][pre[R].size()-1] == c1)); haveRet = true;}
      else if ((op == "cnt")&&(n == 4)&&RS(1)&&V::S(t[2], pre, x)&&parseU(t[3], a)) {expRet = u64s(refCount(pre[R], x, a)); haveRet = true;}
      else if ((op == "cntch")&&(n == 4)&&RS(1)&&parseC(t[2], c1)&&parseU(t[3], a)) {uint32 k = 0; for (size_t i=a; i<pre[R].size(); i++) if (pre[R][i] == c1) k++; expRet = u64s(k); haveRet = true;}
      else if ((op == "pnum")&&(n == 3)&&RS(1)&&parseU(t[2], a))
      {
         const std::string & s = pre[R]; size_t j = s.size(); while((j > 0)&&(s[j-1] >= '0')&&(s[j-1] <= '9')) j--;
         expRet = u64s((j < s.size()) ? (uint32) refAtoull(s.substr(j)) : a); haveRet = true;
      }
      else if ((op == "flat")&&(n == 2)&&RS(1)) {std::string f = pre[R]; f.push_back('\0'); expRet = "ok " + u64s(f.size()) + " " + hexOf(f); haveRet = true;}
      else if ((op == "unflat")&&(n == 4)&&RS(1)&&unhex(t[3], x))
      {
         // the property: bytes up to the first NUL; unterminated input is rejected
         const size_t z = x.find('\0');
         if (z != std::string::npos) {exp = x.substr(0, z); have = true; dest = R; expRet = "ok " + u64s(((t[2] == "lp") ? 4+x.size() : z+1)) + " " + hexOf(exp); haveRet = true;}
         else {expRet = "err"; haveRet = true;}
      }
      else if ((op == "argf")&&(n == 3)&&RS(1))
      {
         uint64_t v = 0; (void) toU64(t[2], v); double d; memcpy(&d, &v, 8);
         char buf[256]; snprintf(buf, sizeof(buf), "%f", d);   // Arg(double) formats into a 256-byte buffer (truncating)
         std::string f = buf;
         if (f.find('.') != std::string::npos) while((!f.empty())&&(f[f.size()-1] == '0')) f.resize(f.size()-1);
         if ((!f.empty())&&(f[f.size()-1] == '.')) f.resize(f.size()-1);
         const std::string want = refArgAux(pre[R], f);
         const std::string got = bytesOf(regs[R].Arg(d));
         if (got != want) oracleFail("Arg(double) differs from snprintf reference: " + hexOf(got) + " vs " + hexOf(want));
      }
      if ((have)&&(bytesOf(regs[dest]) != exp)) oracleFail("ideal byte string disagrees after `" + op + "`: String = " + hexOf(bytesOf(regs[dest])) + ", std::string = " + hexOf(exp));
      const bool firstTokOnly = (op == "repch")||(op == "rep");
      if ((haveRet)&&((firstTokOnly ? implRet.substr(0, implRet.find(' ')) : implRet) != expRet)) oracleFail("ideal byte string disagrees on the result of `" + op + "`: " + implRet.substr(0,200) + " vs " + expRet.substr(0,200));
   }
};

int main(int argc, char ** argv) {StrEngine e; return harnessMain(argc, argv, e);}
