// Engine `tun` (C12): two kinds of real gateway objects (PacketTunnelIOGateway, MiniPacketTunnelIOGateway),
// up to three senders and one receiver, connected through an in-memory packet transport the op stream
// controls.  Every packet a sender writes goes into a log; the fault script is the sequence of
// `rx <log index> <source address>` ops (never delivered = lost, twice = duplicated, any order = reordered
// or delayed).  Payloads are real Messages; a delivery is reported as the flattened received Message.
//
// ops                                                           result
//   rxcfg <kind> <mtu> <magic> <sex> <maxIn> <misc>             ok          (new receiver; kind 0 tunnel, 1 mini)
//   rxreset                                                     ok          (new receiver, same configuration)
//   snd <s> <kind> <mtu> <magic> <sex> <startId> <level>        ok          (new sender s in 0..2)
//   send <s> x<flat Message>...                                 ok x<packet>...   (queue all, DoOutput until drained)
//   inject x<bytes>                                             ok <log index>    (a forged packet; taints the case)
//   rx <i> <a>                                                  ok <a>:x<flat Message>...
//   perfect                                                     ok <a>:x<flat>... (whole log, in order, true sources)
//   sendw <s> <g1,g2,..|-> x<flat Message>...                   ok x<packet>...   (as send; g_i = what the i-th Write() returns: 0 would block, small = short write)
//   taint                                                       ok          (hypotheses of the property do not hold here: oracle off)
#include "libvh/vh.h"
#include "tun_access.h"
#include "message/Message.h"
#include "syslog/SysLog.h"
#include "zlib/ZLibCodec.h"
#include <set>
#include <map>
#include <algorithm>

using namespace muscle;
using namespace vh;

static const uint32 ADDR_BASE = 0x0A000000u;
static IPAddressAndPort iapOf(uint32 a) {return IPAddressAndPort(IPAddress((uint64)(ADDR_BASE+a)), (uint16)(5000+(a%3)));}

struct Delivery {uint32 a; std::string flat;};

class Collector : public AbstractGatewayMessageReceiver
{
public:
   std::vector<Delivery> got;
   virtual void MessageReceivedFromGateway(const MessageRef & msg, void * userData)
   {
      Delivery d; d.a = 0xFFFFFFFFu;
      if (userData) {const IPAddressAndPort * iap = (const IPAddressAndPort *) userData; d.a = (uint32)(iap->GetIPAddress().GetLowBits()-ADDR_BASE);}
      if (msg()) {d.flat.resize(msg()->FlattenedSize()); msg()->FlattenToBytes((uint8 *)&d.flat[0]);}
      got.push_back(d);
   }
};

struct SenderObj
{
   bool present; uint32 kind, mtu, magic, sex, level;
   AbstractMessageIOGatewayRef gw; ScriptedPacketIO io;
   SenderObj() : present(false), kind(0), mtu(0), magic(0), sex(0), level(0) {}
};

struct LogEntry {uint32 sender; std::string bytes;};

struct TunEngine : public Engine
{
   // receiver
   bool haveRx, rxFresh; uint32 kind, rxMtu, rxMagic, rxSex, rxMaxIn, rxMisc;
   AbstractMessageIOGatewayRef rxGw; ScriptedPacketIO * rxIO;
   SenderObj * snd[3];
   std::vector<LogEntry> log;
   // oracle bookkeeping
   bool tainted, backpressure, shortWrite;
   std::vector<std::string> sentBy[3];                 // flattened Messages handed to sender s
   std::vector<std::pair<uint32,std::string> > sendOrder;
   std::map<uint32, std::set<uint32> > presented;      // address -> senders whose packets were presented as coming from it
   uint32 hdrSize, miniHdr;

   TunEngine() : rxIO(NULL) {for (int i=0; i<3; i++) snd[i] = NULL; hdrSize = 0; miniHdr = 0; reset();}

   // ------------------------------------------------------------------ execution
   virtual void reset()
   {
      haveRx = false; rxFresh = false; kind = 0; rxMtu = rxMagic = rxSex = rxMisc = 0; rxMaxIn = MUSCLE_NO_LIMIT;
      rxGw.Reset(); delete rxIO; rxIO = NULL;
      for (int i=0; i<3; i++) {delete snd[i]; snd[i] = NULL; sentBy[i].clear();}
      log.clear(); tainted = false; backpressure = false; shortWrite = false; sendOrder.clear(); presented.clear();
   }

   void makeReceiver()
   {
      rxGw.Reset(); delete rxIO; rxIO = new ScriptedPacketIO;
      if (kind == 0)
      {
         PacketTunnelIOGateway * g = new PacketTunnelIOGateway(AbstractMessageIOGatewayRef(), rxMtu, rxMagic);
         g->SetSourceExclusionID(rxSex); g->SetMaxIncomingMessageSize(rxMaxIn); g->SetAllowMiscIncomingData(rxMisc != 0);
         rxGw.SetRef(g);
      }
      else
      {
         MiniPacketTunnelIOGateway * g = new MiniPacketTunnelIOGateway(AbstractMessageIOGatewayRef(), rxMtu, rxMagic);
         g->SetSourceExclusionID(rxSex); g->SetAllowMiscIncomingData(rxMisc != 0);
         rxGw.SetRef(g);
      }
      rxGw()->SetDataIO(DummyDataIORef(*rxIO));
      haveRx = true; rxFresh = true;
   }

   static bool u32(const std::string & s, uint64_t & v) {return (toU64(s, v))&&(s.size() <= 12)&&(v < 4294967296ULL);}

   // a mini-tunnel packet whose chunk area was deflated, in its inflated form with level 0 (see Engines/Tunnel.lean)
   static std::string canonical(uint32 k, const std::string & p)
   {
      if ((k != 1)||(p.size() < 12)||(((uint8)p[11]) == 0)) return p;
      ZLibCodec codec(3);
      ByteBufferRef inf = codec.Inflate((const uint8 *)p.data()+12, (uint32)p.size()-12);
      if (inf() == NULL) return p;
      std::string r = p.substr(0, 12); r[11] = 0;
      r.append((const char *)inf()->GetBuffer(), inf()->GetNumBytes());
      return r;
   }

   void deliver(uint32 i, uint32 a, Collector & col)
   {
      rxFresh = false;
      if (log[i].sender < 3) presented[a].insert(log[i].sender);
      rxIO->SetNextPacket(log[i].bytes, iapOf(a));
      const size_t before = col.got.size();
      (void) rxGw()->DoInput(col);
      for (size_t k=before; k<col.got.size(); k++)
      {
         const Delivery & d = col.got[k];
         if (d.a != a) oracleFail("delivery tagged with source " + u64s(d.a) + " while the packet came from " + u64s(a));
         if (tainted) continue;
         bool found = false;
         const std::set<uint32> & ss = presented[a];
         for (std::set<uint32>::const_iterator it = ss.begin(); it != ss.end(); ++it)
            if (std::find(sentBy[*it].begin(), sentBy[*it].end(), d.flat) != sentBy[*it].end()) found = true;
         if (!found) oracleFail("delivered a Message that source " + u64s(a) + " never sent: " + hexOf(d.flat).substr(0, 200));
      }
   }

   static std::string show(const Collector & col)
   {
      std::string r = "ok";
      for (size_t k=0; k<col.got.size(); k++) {r += " "; r += u64s(col.got[k].a); r += ":"; r += hexOf(col.got[k].flat);}
      return r;
   }

   uint32 effMtu(uint32 k, uint32 mtu) const {const uint32 lo = (k == 0) ? 25 : 17; return (mtu < lo) ? lo : mtu;}

   virtual std::string step(const std::vector<std::string> & t)
   {
      const std::string & op = t[0];
      uint64_t v[8];
      if ((op == "rxcfg")&&(t.size() == 7))
      {
         if ((!toU64(t[1], v[0]))||(v[0] > 1)||(!u32(t[2], v[1]))||(!u32(t[3], v[2]))||(!u32(t[4], v[3]))||(!u32(t[5], v[4]))||(!toU64(t[6], v[5]))||(v[5] > 1)) return "bad-op";
         kind = (uint32)v[0]; rxMtu = (uint32)v[1]; rxMagic = (uint32)v[2]; rxSex = (uint32)v[3]; rxMaxIn = (uint32)v[4]; rxMisc = (uint32)v[5];
         makeReceiver();
         return "ok";
      }
      if ((op == "rxreset")&&(t.size() == 1)) {if (!haveRx) return "bad-op"; makeReceiver(); return "ok";}
      if ((op == "snd")&&(t.size() == 8))
      {
         if ((!toU64(t[1], v[0]))||(v[0] > 2)||(!toU64(t[2], v[1]))||(v[1] > 1)||(!u32(t[3], v[2]))||(!u32(t[4], v[3]))||(!u32(t[5], v[4]))||(!u32(t[6], v[5]))||(!toU64(t[7], v[6]))||(v[6] > 9)) return "bad-op";
         if ((v[1] == 1)&&(v[5] >= (1u<<24))) return "bad-op";
         if ((v[1] == 0)&&(v[6] != 0)) return "bad-op";
         const int s = (int)v[0];
         delete snd[s]; snd[s] = new SenderObj; SenderObj & so = *snd[s];
         so.present = true; so.kind = (uint32)v[1]; so.mtu = (uint32)v[2]; so.magic = (uint32)v[3]; so.sex = (uint32)v[4]; so.level = (uint32)v[6];
         if (so.kind == 0)
         {
            PacketTunnelIOGateway * g = new PacketTunnelIOGateway(AbstractMessageIOGatewayRef(), so.mtu, so.magic);
            g->SetSourceExclusionID(so.sex); tunnelSendID(*g) = (uint32)v[5];
            so.gw.SetRef(g);
         }
         else
         {
            MiniPacketTunnelIOGateway * g = new MiniPacketTunnelIOGateway(AbstractMessageIOGatewayRef(), so.mtu, so.magic);
            g->SetSourceExclusionID(so.sex); g->SetZLibCompressionLevel((uint8)so.level); miniSendID(*g) = (uint32)v[5];
            so.gw.SetRef(g);
         }
         so.gw()->SetDataIO(DummyDataIORef(so.io));
         return "ok";
      }
      if (((op == "send")&&(t.size() >= 2))||((op == "sendw")&&(t.size() >= 3)))
      {
         if ((!toU64(t[1], v[0]))||(v[0] > 2)||(snd[v[0]] == NULL)) return "bad-op";
         SenderObj & so = *snd[v[0]];
         std::vector<uint32> grants; size_t first = 2;
         if (op == "sendw")
         {
            first = 3;
            if (t[2] != "-")
            {
               std::vector<std::string> parts = split(t[2], ',');
               if (parts.empty()) return "bad-op";
               for (size_t i=0; i<parts.size(); i++) {uint64_t g; if (!u32(parts[i], g)) return "bad-op"; grants.push_back((uint32)g);}
            }
         }
         for (size_t i=0; i<grants.size(); i++) {if (grants[i] == 0) backpressure = true; else if (grants[i] < 70000) {backpressure = true; shortWrite = true;}}
         std::vector<MessageRef> msgs; std::vector<std::string> flats;
         for (size_t i=first; i<t.size(); i++)
         {
            std::string b; if (!unhex(t[i], b)) return "bad-op";
            MessageRef m = GetMessageFromPool();
            if ((m() == NULL)||(m()->UnflattenFromBytes((const uint8 *)b.data(), (uint32)b.size()).IsError())) return "bad-op";
            std::string back(m()->FlattenedSize(), 0); m()->FlattenToBytes((uint8 *)&back[0]);
            if (back != b) return "bad-op";
            msgs.push_back(m); flats.push_back(b);
         }
         for (size_t i=0; i<msgs.size(); i++) {(void) so.gw()->AddOutgoingMessage(msgs[i]); sentBy[v[0]].push_back(flats[i]); sendOrder.push_back(std::make_pair((uint32)v[0], flats[i]));}
         so.io.Written().clear();
         so.io.SetWriteScript(grants);
         for (int guard=0; (guard<1000000)&&(so.gw()->HasBytesToOutput()); guard++) if (so.gw()->DoOutput().GetByteCount() <= 0) break;
         so.io.SetWriteScript(std::vector<uint32>());
         if ((!backpressure)&&(so.gw()->HasBytesToOutput())) oracleFail("sender did not drain its queue");
         std::string r = "ok";
         const uint32 em = effMtu(so.kind, so.mtu);
         for (size_t i=0; i<so.io.Written().size(); i++)
         {
            const std::string & p = so.io.Written()[i];
            if (p.size() > em) oracleFail("packet of " + u64s(p.size()) + " bytes exceeds the MTU " + u64s(em));
            LogEntry e; e.sender = (uint32)v[0]; e.bytes = p; log.push_back(e);
            r += " "; r += hexOf(canonical(so.kind, p));
         }
         return r;
      }
      if ((op == "inject")&&(t.size() == 2))
      {
         std::string b; if (!unhex(t[1], b)) return "bad-op";
         LogEntry e; e.sender = 99; e.bytes = b; log.push_back(e);
         tainted = true;
         return "ok " + u64s(log.size()-1);
      }
      if ((op == "rx")&&(t.size() == 3))
      {
         if ((!toU64(t[1], v[0]))||(!toU64(t[2], v[1]))||(t[1].size() > 9)||(t[2].size() > 9)) return "bad-op";
         if ((!haveRx)||(v[1] >= 100000)||(v[0] >= log.size())) return "bad-op";
         Collector col; deliver((uint32)v[0], (uint32)v[1], col);
         return show(col);
      }
      if ((op == "perfect")&&(t.size() == 1))
      {
         if (!haveRx) return "bad-op";
         const bool fresh = rxFresh;
         Collector col;
         for (size_t i=0; i<log.size(); i++) deliver((uint32)i, log[i].sender, col);
         // "when the transport delivers every packet once and in order, every sent Message that fits the
         //  gateway's limits is delivered exactly once, in order" -- for senders the receiver listens to
         bool applicable = fresh && !tainted && !backpressure;   // a transport that refused or cut packets is not the perfect one
         for (int s=0; s<3; s++) if (snd[s])
         {
            const SenderObj & so = *snd[s];
            if ((so.kind != kind)||(so.magic != rxMagic)||((rxSex != 0)&&(rxSex == so.sex))||(effMtu(kind, rxMtu) < effMtu(so.kind, so.mtu))) applicable = false;
         }
         // a transport that only made the sender wait (Write() returned 0, never a short count) delays Messages but must not
         // lose or damage any that were written: per sender, what arrives is a prefix of what it was given (and fits)
         bool listens = fresh && !tainted && backpressure && !shortWrite;
         for (int s=0; s<3; s++) if (snd[s])
         {
            const SenderObj & so = *snd[s];
            if ((so.kind != kind)||(so.magic != rxMagic)||((rxSex != 0)&&(rxSex == so.sex))||(effMtu(kind, rxMtu) < effMtu(so.kind, so.mtu))) listens = false;
         }
         if (listens)
         {
            for (uint32 s=0; s<3; s++) if (snd[s])
            {
               std::vector<std::string> want, got;
               for (size_t i=0; i<sendOrder.size(); i++) if (sendOrder[i].first == s)
               {
                  const size_t n = sendOrder[i].second.size();
                  if ((kind == 0) ? (n <= (size_t)rxMaxIn) : (n+16 <= (size_t)effMtu(1, snd[s]->mtu))) want.push_back(sendOrder[i].second);
               }
               for (size_t i=0; i<col.got.size(); i++) if (col.got[i].a == s) got.push_back(col.got[i].flat);
               bool prefix = (got.size() <= want.size());
               for (size_t i=0; (prefix)&&(i<got.size()); i++) prefix = (got[i] == want[i]);
               if (!prefix) oracleFail("transport that only blocked (no loss, no short write): the " + u64s(got.size()) + " deliveries of sender " + u64s(s) + " are not a prefix of its " + u64s(want.size()) + " Messages: a written Message was lost or damaged");
            }
         }
         if (applicable)
         {
            std::vector<std::pair<uint32,std::string> > want;
            for (size_t i=0; i<sendOrder.size(); i++)
            {
               const SenderObj & so = *snd[sendOrder[i].first];
               const size_t n = sendOrder[i].second.size();
               const bool fits = (kind == 0) ? (n <= (size_t)rxMaxIn) : (n+16 <= (size_t)effMtu(1, so.mtu));
               if (fits) want.push_back(sendOrder[i]);
            }
            bool same = (want.size() == col.got.size());
            for (size_t i=0; (same)&&(i<want.size()); i++) same = (want[i].first == col.got[i].a)&&(want[i].second == col.got[i].flat);
            if (!same) oracleFail("perfect transport: " + u64s(col.got.size()) + " deliveries differ from the " + u64s(want.size()) + " Messages sent that fit the limits (order, count or content) oversize-sent=" + u64s((want.size() != sendOrder.size()) ? 1 : 0));
         }
         return show(col);
      }
      if ((op == "taint")&&(t.size() == 1)) {tainted = true; return "ok";}
      return "bad-op";
   }

   // ------------------------------------------------------------------ generator
   static FILE * devnull() {static FILE * f = fopen("/dev/null", "w"); return f;}
   std::string emit(FILE * out, const std::string & line)
   {
      fputs(line.c_str(), out); fputc('\n', out);
      FILE * keep = g_oracle; g_oracle = devnull();   // the generator's own executions are not oracle runs
      const std::string r = step(split(line));
      g_oracle = keep;
      return r;
   }

   // a real Message whose flattened size is exactly (size) bytes when size is 12 or >= 27, else the nearest possible
   static std::string makeMsg(Rng & r, uint32 size)
   {
      Message m((uint32)r.next());
      if (size >= 27)
      {
         // one raw field named "d": 4 (name length) + 2 ("d\0") + 4 (type) + 4 (field bytes) + 4 (item length) = 18 bytes of framing after the 12-byte header... measured below
         Message probe(1); ByteBufferRef e = GetByteBufferFromPool(0); (void) probe.AddFlat("d", e);
         const uint32 base = probe.FlattenedSize();
         const uint32 n = (size > base) ? (size-base) : 0;
         ByteBufferRef b = GetByteBufferFromPool(n);
         const int mode = r.below(3);
         for (uint32 i=0; i<n; i++) b()->GetBuffer()[i] = (mode == 0) ? (uint8)r.below(256) : (mode == 1) ? (uint8)(i & 0xFF) : (uint8)('a'+(i/37)%3);
         (void) m.AddFlat("d", b);
      }
      std::string flat(m.FlattenedSize(), 0); m.FlattenToBytes((uint8 *)&flat[0]);
      return flat;
   }

   uint32 pickMtu(Rng & r, uint32 k)
   {
      static const uint32 tm[] = {25, 25, 26, 27, 30, 37, 48, 49, 50, 64, 73, 100, 255, 256, 1000, 1168, 1388, 0, 10, 24};
      static const uint32 mm[] = {17, 29, 30, 44, 45, 60, 64, 100, 128, 255, 256, 1000, 1168, 1388, 0, 16, 28};
      return (k == 0) ? tm[r.below(sizeof(tm)/sizeof(tm[0]))] : mm[r.below(sizeof(mm)/sizeof(mm[0]))];
   }

   uint32 pickSize(Rng & r, uint32 k, uint32 mtu)
   {
      const uint32 em = effMtu(k, mtu);
      if (k == 0)
      {
         const uint32 room = em-24;   // payload bytes of a packet holding one fragment
         switch(r.below(10))
         {
            case 0: return 12;
            case 1: return room;
            case 2: return room+1;
            case 3: return (room > 1) ? room-1 : 12;
            case 4: return 2*room + r.below(3) - 1;
            case 5: return 5*em;
            case 6: return r.range(27, 5*em);
            case 7: return (room > 24) ? (room-24)/2 : 12;      // two fit one packet
            default: return r.range(12, 3*em);
         }
      }
      else
      {
         switch(r.below(8))
         {
            case 0: return 12;
            case 1: return (em >= 16+27) ? em-16 : 12;           // exactly fits
            case 2: return em-15;                                 // one byte too large (dropped)
            case 3: return (em >= 2*(27+4)+12) ? (em-12)/2-4 : 12; // two fit exactly
            case 4: return 2*em;
            default: return r.range(12, em+8);
         }
      }
   }

   // all index sequences enumerated for a log of n packets (quick: bounded length; see the tier table in gen())
   static void enumSeqs(uint32 n, uint32 maxLen, bool permsOnly, std::vector<std::vector<uint32> > & out)
   {
      std::vector<uint32> cur;
      struct Rec {static void go(uint32 n, uint32 maxLen, bool permsOnly, std::vector<uint32> & cur, std::vector<std::vector<uint32> > & out)
      {
         if (!cur.empty()) out.push_back(cur);
         if (cur.size() >= maxLen) return;
         for (uint32 i=0; i<n; i++)
         {
            if ((permsOnly)&&(std::find(cur.begin(), cur.end(), i) != cur.end())) continue;
            cur.push_back(i); go(n, maxLen, permsOnly, cur, out); cur.pop_back();
         }
      }};
      Rec::go(n, maxLen, permsOnly, cur, out);
   }

   void genExhaustive(Rng & r, const Tier & tier, FILE * out, uint32 caseId, uint32 wantPackets)
   {
      fprintf(out, "case %u\n", caseId); reset();
      const uint32 k = r.chance(1,5) ? 1 : 0;
      const uint32 magic = (k == 0) ? DEFAULT_TUNNEL_IOGATEWAY_MAGIC : DEFAULT_MINI_TUNNEL_IOGATEWAY_MAGIC;
      // choose an MTU and Messages so that the log holds exactly wantPackets packets
      uint32 mtu;
      std::vector<std::string> sends;   // one `send` line each
      for (int tries=0; ; tries++)
      {
         reset();
         mtu = (k == 0) ? r.range(25, 60) : r.range(29, 80);
         const uint32 startId = (k == 0) ? (r.chance(1,3) ? (0xFFFFFFFFu - r.below(2)) : r.below(3)) : (r.chance(1,3) ? 0xFFFFFFu : 0);
         std::string cfg = "snd 0 " + u64s(k) + " " + u64s(mtu) + " " + u64s(magic) + " 0 " + u64s(startId) + " 0";
         (void) step(split(cfg));
         sends.clear(); sends.push_back(cfg);
         uint32 guard = 0;
         while((log.size() < wantPackets)&&(guard++ < 12))
         {
            const uint32 left = wantPackets-(uint32)log.size();
            std::string line = "send 0";
            const uint32 nm = r.range(1, 2);
            for (uint32 i=0; i<nm; i++)
            {
               uint32 sz = (k == 0) ? (r.chance(1,2) ? 12 : r.range(27, 27 + (mtu-24)*left)) : (r.chance(1,2) ? 12 : r.range(27, mtu-16 < 27 ? 27 : mtu-16));
               line += " " + hexOf(makeMsg(r, sz));
            }
            (void) step(split(line)); sends.push_back(line);
         }
         if ((log.size() == wantPackets)||(tries > 200)) break;
      }
      // replay the chosen prefix for real (the loop above ran it only to count packets)
      reset();
      emit(out, "rxcfg " + u64s(k) + " " + u64s(mtu) + " " + u64s(magic) + " 0 " + u64s(MUSCLE_NO_LIMIT) + " 0");
      for (size_t i=0; i<sends.size(); i++) emit(out, sends[i]);
      const uint32 n = ((uint32)log.size() > 6) ? 6 : (uint32)log.size();
      emit(out, "perfect");
      std::vector<std::vector<uint32> > seqs;
      if (n <= 4) enumSeqs(n, tier.thorough ? n+2 : n+1, false, seqs);
      else        {enumSeqs(n, n, true, seqs); if (tier.thorough) enumSeqs(n, 5, false, seqs);}
      // plus: the in-order sequence with one packet duplicated at every later position
      for (uint32 d=0; d<n; d++) for (uint32 at=0; at<=n; at++) {std::vector<uint32> s; for (uint32 i=0; i<n; i++) {if (i == at) s.push_back(d); s.push_back(i);} if (at == n) s.push_back(d); seqs.push_back(s);}
      for (size_t q=0; q<seqs.size(); q++)
      {
         emit(out, "rxreset");
         for (size_t j=0; j<seqs[q].size(); j++) emit(out, "rx " + u64s(seqs[q][j]) + " 0");
      }
   }

   // a random fault script over log indices [from, to): drop / dup / swap / delay applied to the in-order list
   static std::vector<uint32> faultScript(Rng & r, uint32 from, uint32 to)
   {
      std::vector<uint32> s; for (uint32 i=from; i<to; i++) s.push_back(i);
      if ((s.empty())||(r.chance(1,5))) return s;   // perfect
      const uint32 nf = r.range(1, 1+(uint32)s.size()/3);
      for (uint32 f=0; (f<nf)&&(!s.empty()); f++)
      {
         const uint32 i = r.below((uint32)s.size());
         switch(r.below(4))
         {
            case 0: s.erase(s.begin()+i); break;                                                        // drop i
            case 1: s.insert(s.begin()+r.range(i, (uint32)s.size()), s[i]); break;                      // dup i (now or later)
            case 2: {const uint32 j = r.below((uint32)s.size()); std::swap(s[i], s[j]);} break;         // swap i j
            default: {const uint32 v = s[i]; s.erase(s.begin()+i); s.insert(s.begin()+r.range(i, (uint32)s.size()), v);} break;  // delay i k
         }
      }
      return s;
   }

   void genRandom(Rng & r, const Tier & tier, FILE * out, uint32 caseId)
   {
      fprintf(out, "case %u\n", caseId); reset();
      const uint32 k = r.chance(1,4) ? 1 : 0;
      const uint32 dmagic = (k == 0) ? DEFAULT_TUNNEL_IOGATEWAY_MAGIC : DEFAULT_MINI_TUNNEL_IOGATEWAY_MAGIC;
      const uint32 magic = r.chance(1,6) ? (uint32)r.next() : dmagic;
      const uint32 nsrc = r.range(1, 3);
      const uint32 mtu = pickMtu(r, k);
      const bool compress = (k == 1)&&(r.chance(1,2));
      // receiver: mostly compatible with the senders
      uint32 rxMtuV = mtu;
      if ((!compress)&&(r.chance(1,8))) rxMtuV = (effMtu(k, mtu) > 30) ? r.range(20, effMtu(k, mtu)-1) : mtu;   // truncating receiver
      else if (r.chance(1,4)) rxMtuV = effMtu(k, mtu) + r.below(50);
      const uint32 rxSexV = r.chance(1,4) ? r.range(1, 3) : 0;
      uint32 maxIn = MUSCLE_NO_LIMIT;
      if ((k == 0)&&(r.chance(1,4))) maxIn = r.chance(1,2) ? (effMtu(k, mtu)-24) : r.range(12, 3*effMtu(k, mtu));
      const uint32 misc = r.chance(1,8) ? 1 : 0;
      emit(out, "rxcfg " + u64s(k) + " " + u64s(rxMtuV) + " " + u64s(r.chance(1,10) ? magic+1 : magic) + " " + u64s(rxSexV) + " " + u64s(maxIn) + " " + u64s(misc));
      for (uint32 s=0; s<nsrc; s++)
      {
         uint32 startId = 0;
         if (k == 0) {const uint32 c = r.below(4); startId = (c == 0) ? 0 : (c == 1) ? (0xFFFFFFFFu - r.below(4)) : (c == 2) ? r.below(5) : (uint32)r.next();}
         else        {const uint32 c = r.below(3); startId = (c == 0) ? 0 : (c == 1) ? (0xFFFFFFu - r.below(3)) : r.below(0x1000000u);}
         const uint32 smtu = ((!compress)&&(r.chance(1,6))) ? pickMtu(r, k) : mtu;
         emit(out, "snd " + u64s(s) + " " + u64s(k) + " " + u64s(smtu) + " " + u64s(magic) + " " + u64s(r.chance(1,3) ? r.range(1,3) : 0) + " " + u64s(startId) + " " + u64s(compress ? r.range(1,9) : 0));
      }
      // two senders presented under one address have colliding ids sooner or later: outside the property's hypothesis
      const bool pushback = r.chance(1,4);
      const bool shareAddr = (nsrc > 1)&&(r.chance(1,10));
      if (shareAddr) emit(out, "taint");
      const uint32 rounds = r.range(1, tier.thorough ? 6 : 4);
      uint32 delivered = 0;
      std::vector<uint32> held;     // packets delayed into a later round
      for (uint32 rd=0; rd<rounds; rd++)
      {
         const uint32 nsend = r.range(1, 3);
         for (uint32 q=0; q<nsend; q++)
         {
            const uint32 s = r.below(nsrc);
            std::string line = "send " + u64s(s);
            if (pushback && r.chance(2,3))
            {
               // a transport that pushes back: would-block (0), short writes, whole packets
               line = "sendw " + u64s(s) + " ";
               const uint32 ng = r.range(1, 4);
               for (uint32 i=0; i<ng; i++)
               {
                  const uint32 c = r.below(4);
                  // compressing senders are made to wait too (finding C12-mini-held-header, regression case
                  // corpus/C12/tun-regress-mini-held-header.ops); only short writes are left out for them, because a cut deflated packet
                  // cannot be printed in inflated canonical form
                  const uint32 g = (c <= 1) ? 0 : ((c == 2)||(compress)) ? 100000 : r.range(1, effMtu(k, mtu));
                  line += (i ? "," : "") + u64s(g);
               }
            }
            const uint32 nm = r.chance(1,3) ? 1 : r.range(1, 4);
            for (uint32 i=0; i<nm; i++)
            {
               uint32 sz = pickSize(r, snd[s]->kind, snd[s]->mtu);
               // Messages over the receiver's limit are part of the stream, in every queue position (finding C12-oversize,
               // fixed by 79d1d2b; regression case corpus/C12/tun-oversize-swallows-next.ops); some are cut to the limit itself
               if ((k == 0)&&(sz > maxIn)&&(r.chance(1,3))) sz = (maxIn >= 34) ? maxIn : 12;
               line += " " + hexOf(makeMsg(r, sz));
            }
            emit(out, line);
         }
         std::vector<uint32> fs = faultScript(r, delivered, (uint32)log.size());
         delivered = (uint32)log.size();
         if ((!held.empty())&&(r.chance(1,2))) {fs.insert(fs.begin()+r.below((uint32)fs.size()+1), held.begin(), held.end()); held.clear();}
         if ((fs.size() > 2)&&(r.chance(1,4))) {held.push_back(fs.back()); fs.pop_back();}
         for (size_t j=0; j<fs.size(); j++) emit(out, "rx " + u64s(fs[j]) + " " + u64s(shareAddr ? 7 : log[fs[j]].sender));
      }
      for (size_t j=0; j<held.size(); j++) emit(out, "rx " + u64s(held[j]) + " " + u64s(shareAddr ? 7 : log[held[j]].sender));
      emit(out, "rxreset");
      emit(out, "perfect");
   }

   // more distinct sources than the receiver keeps state for
   void genCap(Rng & r, const Tier &, FILE * out, uint32 caseId)
   {
      fprintf(out, "case %u\n", caseId); reset();
      const uint32 magic = DEFAULT_TUNNEL_IOGATEWAY_MAGIC;
      emit(out, "rxcfg 0 100 " + u64s(magic) + " 0 " + u64s(MUSCLE_NO_LIMIT) + " 0");
      emit(out, "snd 0 0 100 " + u64s(magic) + " 0 " + u64s(r.below(3)) + " 0");
      // Messages 0..: two packets each (first fragment fills packet 2j, the tail is packet 2j+1)
      const uint32 nmsg = 262 + r.below(6);
      for (uint32 j=0; j<nmsg; j++) emit(out, "send 0 " + hexOf(makeMsg(r, 77 + r.below(20))));
      if (log.size() != 2*nmsg) {emit(out, "taint"); return;}
      const uint32 first = r.below(3);
      for (uint32 j=0; j<nmsg; j++) emit(out, "rx " + u64s(2*j) + " " + u64s(1000+j));                 // heads, one source each
      if (r.chance(1,2)) emit(out, "rx " + u64s(2*first+1) + " " + u64s(1000+first));                   // an early source finishes (or was evicted)
      for (uint32 j=0; j<nmsg; j++) {const uint32 q = r.chance(1,2) ? j : (nmsg-1-j); emit(out, "rx " + u64s(2*q+1) + " " + u64s(1000+q));}
   }

   // forged and damaged packets (oracle off: the property speaks about sent packets only)
   void genMalformed(Rng & r, const Tier &, FILE * out, uint32 caseId)
   {
      fprintf(out, "case %u\n", caseId); reset();
      const uint32 k = r.chance(1,4) ? 1 : 0;
      const uint32 magic = (k == 0) ? DEFAULT_TUNNEL_IOGATEWAY_MAGIC : DEFAULT_MINI_TUNNEL_IOGATEWAY_MAGIC;
      const uint32 mtu = r.chance(1,2) ? r.range(25, 80) : pickMtu(r, k);
      const uint32 maxIn = r.chance(1,2) ? 100000 : r.range(12, 400);
      emit(out, "rxcfg " + u64s(k) + " " + u64s(mtu) + " " + u64s(magic) + " " + u64s(r.chance(1,4) ? 5 : 0) + " " + u64s(maxIn) + " " + u64s(r.chance(1,3) ? 1 : 0));
      emit(out, "snd 0 " + u64s(k) + " " + u64s(mtu) + " " + u64s(magic) + " " + u64s(r.chance(1,4) ? 5 : 0) + " " + u64s(r.below(3)) + " 0");
      std::string line = "send 0";
      const uint32 nm = r.range(1, 3);
      for (uint32 i=0; i<nm; i++) line += " " + hexOf(makeMsg(r, pickSize(r, k, mtu) % 600 + 12));
      emit(out, line);
      const uint32 n0 = (uint32)log.size();
      if (n0 == 0) return;
      const uint32 nmut = r.range(1, 6);
      std::vector<uint32> order; for (uint32 i=0; i<n0; i++) order.push_back(i);
      for (uint32 q=0; q<nmut; q++)
      {
         std::string p = log[r.below(n0)].bytes;
         const uint32 len = (uint32)p.size();
         switch(r.below(6))
         {
            case 0: p.resize(r.below(len+1)); break;                                  // truncated
            case 1: case 2: case 3:                                                   // a header word := boundary value
            {
               const uint32 nw = (k == 0) ? 6 : 4;
               const uint32 w = r.below(nw);
               if (len >= 4*(w+1))
               {
                  uint32 old = 0; for (int b=3; b>=0; b--) old = (old<<8)|(uint8)p[4*w+b];
                  uint32 nv;
                  switch(r.below(12))
                  {
                     case 0: nv = 0; break;             case 1: nv = 1; break;            case 2: nv = old+1; break;
                     case 3: nv = old-1; break;         case 4: nv = 0xFFFFFFFFu; break;  case 5: nv = 0x80000000u; break;
                     case 6: nv = maxIn; break;         case 7: nv = maxIn+1; break;      case 8: nv = len; break;
                     case 9: nv = 0xFFFFFFFFu-old+1; break;  case 10: nv = r.below(64); break;
                     default: nv = old ^ (1u<<r.below(32)); break;
                  }
                  if ((k == 0)&&(w == 5)&&(nv > 200000)&&(maxIn > 200000)) nv = 200000;   // keep forged total sizes allocatable
                  for (int b=0; b<4; b++) p[4*w+b] = (char)((nv>>(8*b))&0xFF);
               }
            }
            break;
            case 4: {const uint32 n = r.range(1, 30); for (uint32 i=0; i<n; i++) p.push_back((char)r.below(256));} break;   // trailing bytes
            default: if (len) p[r.below(len)] = (char)r.below(256); break;
         }
         const std::string res = emit(out, "inject " + hexOf(p));
         order.insert(order.begin()+r.below((uint32)order.size()+1), (uint32)log.size()-1);
      }
      for (size_t j=0; j<order.size(); j++) emit(out, "rx " + u64s(order[j]) + " " + u64s(r.chance(9,10) ? 0 : 1));
      emit(out, "perfect");
   }

   virtual void gen(Rng & r, const Tier & tier, FILE * out)
   {
      SetConsoleLogLevel(MUSCLE_LOG_NONE);
      uint32 c = 0;
      #define CASEID ((c++)*tier.nshards + tier.shard)
      // exhaustive fault scripts over short logs: quick = one log of 2..4 packets and one of 5..6 per shard
      const uint32 nEx = tier.thorough ? 6 : 1;
      for (uint32 i=0; i<nEx; i++)
      {
         genExhaustive(r, tier, out, CASEID, 1 + (tier.shard + i) % 4);
         genExhaustive(r, tier, out, CASEID, 5 + (tier.shard + i) % 2);
      }
      const uint32 nRandom = tier.thorough ? 2500 : 60;
      for (uint32 i=0; i<nRandom; i++) genRandom(r, tier, out, CASEID);
      const uint32 nMal = tier.thorough ? 1500 : 40;
      for (uint32 i=0; i<nMal; i++) genMalformed(r, tier, out, CASEID);
      if ((tier.thorough)||(tier.shard % 4 == 0)) genCap(r, tier, out, CASEID);
   }
};

int main(int argc, char ** argv)
{
   SetConsoleLogLevel(MUSCLE_LOG_NONE);
   TunEngine e; return harnessMain(argc, argv, e);
}
