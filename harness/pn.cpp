// Engine `pn` (C20): a pool of scripted PulseNode objects driven through the public PulseNode API and,
// for the two sweeps, through PulseNodeManager::CallGetPulseTimeAux / CallPulseAux under a simulated clock.
//
// ops      attach <c> <p> | detach <c> | destroy <c> | inval <c> <0|1> | setreq <c> <t>
//          sg <c> <act>* | sp <c> <act>*      (queue the re-entrant actions of c's next GetPulseTime / Pulse call)
//          gpt <root> <now> | pulse <root> <now> | dump
// acts     i<id>.<0|1> (InvalidatePulseTime) | r<id>.<t> (change the time <id> will request) | d<id> (detach) | a<c>.<p> (attach)
// results  ok | cycle | notroot | bad-op | `min <m>` + callback log | `ok` + callback log | dump line
#include "libvh/vh.h"
#include "util/PulseNode.h"
#include <deque>
#include <set>
#include <map>

using namespace muscle;
using namespace vh;

static const uint32_t NN = 16;
static const uint64_t NEVER = MUSCLE_TIME_NEVER;

struct Act {char kind; uint32_t a; uint64_t b;};

struct PnEngine;

class ScriptNode : public PulseNode
{
public:
   ScriptNode(PnEngine * e, uint32_t id) : _e(e), _id(id) {}
   virtual uint64 GetPulseTime(const PulseArgs & args);
   virtual void Pulse(const PulseArgs & args);
private:
   PnEngine * _e;
   uint32_t _id;
};

class Mgr : public PulseNodeManager
{
public:
   void gpt(PulseNode & p, uint64 now, uint64 & min) const {CallGetPulseTimeAux(p, now, min);}
   void pulse(PulseNode & p, uint64 now) const {CallPulseAux(p, now);}
};

static bool toTime(const std::string & s, uint64_t & v)
{
   if ((s.empty())||(s.size() > 20)) return false;
   v = 0;
   for (size_t i=0; i<s.size(); i++)
   {
      if ((s[i]<'0')||(s[i]>'9')) return false;
      const uint64_t dgt = (uint64_t)(s[i]-'0');
      if (v > (UINT64_MAX-dgt)/10) return false;
      v = v*10 + dgt;
   }
   return true;
}
static bool toId(const std::string & s, uint64_t & v) {return (s.size() <= 6)&&(toU64(s, v))&&(v < NN);}

struct PnEngine : public Engine
{
   ScriptNode * nodes[NN];
   uint64_t req[NN];
   std::deque<std::vector<Act> > gq[NN], pq[NN];
   std::string log;
   Mgr mgr;

   // ---- the harness's own mirror (direct oracle; never consulted for the result lines)
   uint64_t cur[NN];      // the time node i currently requests: its last GetPulseTime result, NEVER after a clearing invalidate
   bool vm[NN];           // node i has been asked since it was last fired / invalidated / (re)attached
   bool clean[NN];        // the tree rooted at i was settled by `gpt i` and nothing touched it since
   bool inSweep; int sweepKind; uint64_t sweepNow, sweepLower; bool disturbed, structural;
   std::set<uint32_t> sweepTree; std::vector<uint32_t> called;
   // A node whose standing request is taken away while its own GetPulseTimeAux is in progress (the asked node itself or one
   // of its ancestors: decided from the scripts and the public parent pointers alone) is asked once more in the same call;
   // if that happens again during the re-evaluation, the node keeps the invalidation for the next cycle: it reports time zero
   // and is asked after the next PulseAux visit.  pend[i] = node i may be in that state.
   std::vector<uint32_t> gStack; bool inG, ipInval; bool pend[NN];

   PnEngine() {for (uint32_t i=0; i<NN; i++) nodes[i] = NULL; reset();}
   ~PnEngine() {for (uint32_t i=0; i<NN; i++) delete nodes[i];}

   virtual void reset()
   {
      // children first is not required: the destructor unlinks in both directions
      for (uint32_t i=0; i<NN; i++) {delete nodes[i]; nodes[i] = NULL;}
      for (uint32_t i=0; i<NN; i++)
      {
         nodes[i] = new ScriptNode(this, i);
         req[i] = NEVER; gq[i].clear(); pq[i].clear(); cur[i] = NEVER; vm[i] = false; clean[i] = false; pend[i] = false;
      }
      inG = false; ipInval = false; gStack.clear();
      log.clear(); inSweep = false; disturbed = false; structural = false;
   }

   int idOf(const PulseNode * p) const {for (uint32_t i=0; i<NN; i++) if (nodes[i] == p) return (int)i; return -1;}
   int parentOf(uint32_t i) const {const PulseNode * p = nodes[i]->GetPulseParent(); return p ? idOf(p) : -1;}
   uint32_t rootOf(uint32_t i) const {int p; while((p = parentOf(i)) >= 0) i = (uint32_t)p; return i;}
   bool isAnc(uint32_t a, uint32_t n) const {for(;;) {if (a == n) return true; const int p = parentOf(n); if (p < 0) return false; n = (uint32_t)p;}}
   std::set<uint32_t> subtree(uint32_t r) const {std::set<uint32_t> s; for (uint32_t i=0; i<NN; i++) if (isAnc(r, i)) s.insert(i); return s;}
   uint32_t depthOf(uint32_t i) const {uint32_t d = 0; int p; while((p = parentOf(i)) >= 0) {i = (uint32_t)p; d++;} return d;}
   uint32_t heightOf(uint32_t i) const {uint32_t h = 0; for (uint32_t j=0; j<NN; j++) if ((j != i)&&(isAnc(i, j))) h = std::max(h, depthOf(j)-depthOf(i)); return h;}

   // ---- the public-API actions (top level and re-entrant)
   void doInval(uint32_t id, bool clear)
   {
      clean[rootOf(id)] = false; vm[id] = false; if (clear) cur[id] = NEVER;
      nodes[id]->InvalidatePulseTime(clear);
   }
   void doDetach(uint32_t c)
   {
      PulseNode * p = nodes[c]->GetPulseParent();
      if (p) {clean[rootOf(c)] = false; clean[c] = false; vm[c] = false; p->RemovePulseChild(nodes[c]);}
   }
   bool doAttach(uint32_t c, uint32_t p)   // false = refused (would close a cycle)
   {
      if (isAnc(c, p)) return false;
      clean[rootOf(c)] = false; clean[rootOf(p)] = false; clean[c] = false;
      if (nodes[c]->GetPulseParent()) vm[c] = false;
      pend[c] = false;   // a newly attached child waits in NEEDSRECALC
      nodes[p]->PutPulseChild(nodes[c]);
      return true;
   }
   void doDestroy(uint32_t n)
   {
      clean[rootOf(n)] = false; clean[n] = false;
      for (uint32_t i=0; i<NN; i++) if (parentOf(i) == (int)n) {vm[i] = false; clean[i] = false;}
      delete nodes[n];
      nodes[n] = new ScriptNode(this, n);
      req[n] = NEVER; gq[n].clear(); pq[n].clear(); cur[n] = NEVER; vm[n] = false; pend[n] = false;
   }
   void runActs(const std::vector<Act> & acts)
   {
      for (size_t i=0; i<acts.size(); i++)
      {
         const Act & a = acts[i];
         switch(a.kind)
         {
            case 'i': disturbed = true; doInval(a.a, a.b != 0); break;
            case 'r': req[a.a] = a.b; break;
            case 'd': disturbed = structural = true; doDetach(a.a); break;
            case 'a': disturbed = structural = true; (void) doAttach(a.a, (uint32_t)a.b); break;
         }
         if (inG) for (size_t k=0; k<gStack.size(); k++) if (!vm[gStack[k]]) {ipInval = true; pend[gStack[k]] = true;}
      }
   }

   // ---- callbacks
   uint64 onGetPulseTime(uint32_t id, uint64 now, uint64 prev)
   {
      if (!inSweep) oracleFail("GetPulseTime called outside a sweep: node " + u64s(id));
      else
      {
         if (sweepKind != 0) oracleFail("GetPulseTime called during a pulse sweep: node " + u64s(id));
         if (now != sweepNow) oracleFail("GetPulseTime: wrong callback time for node " + u64s(id));
      }
      if (prev != cur[id]) oracleFail("GetPulseTime: args.GetScheduledTime()=" + u64s(prev) + " is not the previous request " + u64s(cur[id]) + " of node " + u64s(id));
      if (vm[id]) oracleFail("GetPulseTime: node " + u64s(id) + " asked again although its request stands");
      called.push_back(id);
      vm[id] = true; pend[id] = false;
      std::vector<Act> acts; if (!gq[id].empty()) {acts = gq[id].front(); gq[id].pop_front();}
      gStack.clear(); {uint32_t x = id; for(;;) {gStack.push_back(x); const int p = parentOf(x); if (p < 0) break; x = (uint32_t)p;}}
      inG = true; runActs(acts); inG = false;
      const uint64 ret = req[id];
      cur[id] = ret; if (ret < sweepLower) sweepLower = ret;
      log += " G" + u64s(id) + ":" + u64s(now) + ":" + u64s(prev) + ":" + u64s(ret);
      return ret;
   }
   void onPulse(uint32_t id, uint64 now, uint64 st)
   {
      // C20: never before its time, with the time it asked for, only while its request stands, once per sweep
      if ((!inSweep)||(sweepKind != 1)) oracleFail("Pulse called outside a pulse sweep: node " + u64s(id));
      else
      {
         if (now != sweepNow) oracleFail("Pulse: wrong callback time for node " + u64s(id));
         if (sweepTree.count(id) == 0) oracleFail("Pulse: node " + u64s(id) + " was not in the pulsed tree");
      }
      if (!vm[id]) oracleFail("Pulse: node " + u64s(id) + " fired although it has no standing request");
      if (st != cur[id]) oracleFail("Pulse: node " + u64s(id) + " fired with scheduled time " + u64s(st) + ", it asked for " + u64s(cur[id]));
      if (st > now) oracleFail("Pulse: node " + u64s(id) + " fired EARLY: scheduled " + u64s(st) + " > now " + u64s(now));
      for (size_t i=0; i<called.size(); i++) if (called[i] == id) oracleFail("Pulse: node " + u64s(id) + " fired twice in one sweep");
      called.push_back(id);
      log += " P" + u64s(id) + ":" + u64s(now) + ":" + u64s(st);
      std::vector<Act> acts; if (!pq[id].empty()) {acts = pq[id].front(); pq[id].pop_front();}
      runActs(acts);
      vm[id] = false;
   }

   // ---- sweeps + their direct oracles
   std::string doGpt(uint32_t r, uint64 now)
   {
      const std::set<uint32_t> before = subtree(r);
      std::set<uint32_t> mustAsk; for (std::set<uint32_t>::const_iterator it = before.begin(); it != before.end(); ++it) if (!vm[*it]) mustAsk.insert(*it);
      std::set<uint32_t> pendStart; for (std::set<uint32_t>::const_iterator it = before.begin(); it != before.end(); ++it) if ((pend[*it])&&(*it != r)) pendStart.insert(*it);
      log.clear(); called.clear(); inSweep = true; sweepKind = 0; sweepNow = now; disturbed = false; ipInval = false; sweepTree = before;
      // every request that stood at the start of the sweep or is made during it (a re-entrant invalidate can
      // supersede an answer within one sweep; `min` is only ever lowered, so a superseded request may be reported: see F26 in the report)
      sweepLower = NEVER; for (std::set<uint32_t>::const_iterator it = before.begin(); it != before.end(); ++it) if (cur[*it] < sweepLower) sweepLower = cur[*it];
      uint64 mn = NEVER;
      mgr.gpt(*nodes[r], now, mn);
      inSweep = false;
      const std::set<uint32_t> after = subtree(r);
      bool allValid = true; uint64 lower = disturbed ? sweepLower : NEVER;
      for (std::set<uint32_t>::const_iterator it = after.begin(); it != after.end(); ++it)
      {
         const uint32_t n = *it;
         if (nodes[n]->GetScheduledPulseTime() != cur[n]) oracleFail("gpt: GetScheduledPulseTime() of node " + u64s(n) + " is not its last request");
         // never late: the wake-up time is at or before every standing request in the tree
         if (vm[n]) {if (mn > cur[n]) oracleFail("gpt: wake-up time " + u64s(mn) + " is LATER than the request " + u64s(cur[n]) + " of node " + u64s(n));}
         else allValid = false;
      }
      // never spuriously early: it is the request of some node that was in the tree during the sweep
      // (with an undisturbed sweep: before == after, all requests stand, so this is exactly "min of the requested times";
      //  with re-entrant invalidate/attach/detach: also the requests that stood at the start or were superseded during the sweep)
      std::set<uint32_t> both = before; both.insert(after.begin(), after.end());
      for (std::set<uint32_t>::const_iterator it = both.begin(); it != both.end(); ++it) if (cur[*it] < lower) lower = cur[*it];
      // a node invalidated again during its second evaluation asks to be visited at once (time zero) -- also one that has left the tree meanwhile
      for (std::set<uint32_t>::const_iterator it = both.begin(); it != both.end(); ++it) if (!vm[*it]) lower = 0;
      if (ipInval) lower = 0;
      if (mn < lower) oracleFail("gpt: wake-up time " + u64s(mn) + " is EARLIER than the minimum " + u64s(lower) + " of the requested times");
      if (!disturbed)
      {
         // every node without a standing request is asked, exactly once; nobody else is
         std::set<uint32_t> asked(called.begin(), called.end());
         if (asked.size() != called.size()) oracleFail("gpt: a node was asked twice");
         for (std::set<uint32_t>::const_iterator it = asked.begin(); it != asked.end(); ++it) if (mustAsk.count(*it) == 0) oracleFail("gpt: node " + u64s(*it) + " was asked although its request stands");
         for (std::set<uint32_t>::const_iterator it = mustAsk.begin(); it != mustAsk.end(); ++it) if ((asked.count(*it) == 0)&&(pendStart.count(*it) == 0)) oracleFail("gpt: node " + u64s(*it) + " has no standing request and was NOT asked");
         clean[r] = true;
      }
      else for (uint32_t i=0; i<NN; i++) clean[i] = false;
      // reasked: before the next wait every attached node has a standing request again -- or there is no wait:
      // a node that was invalidated once more during its re-evaluation keeps the invalidation for the next cycle,
      // and the reported wake-up time makes that cycle start at once
      if ((!allValid)&&(mn > now)) oracleFail("gpt: a node is left without a standing request, yet the wake-up time " + u64s(mn) + " lets the event loop wait");
      return "min " + u64s(mn) + log;
   }
   std::string doPulse(uint32_t r, uint64 now)
   {
      const std::set<uint32_t> before = subtree(r);
      std::set<uint32_t> due; for (std::set<uint32_t>::const_iterator it = before.begin(); it != before.end(); ++it) if ((vm[*it])&&(cur[*it] <= now)) due.insert(*it);
      const bool wasClean = clean[r];
      log.clear(); called.clear(); inSweep = true; sweepKind = 1; sweepNow = now; disturbed = false; sweepTree = before;
      mgr.pulse(*nodes[r], now);
      inSweep = false;
      std::set<uint32_t> fired(called.begin(), called.end());
      for (std::set<uint32_t>::const_iterator it = fired.begin(); it != fired.end(); ++it) if (due.count(*it) == 0) oracleFail("pulse: node " + u64s(*it) + " fired but was not due");
      if ((wasClean)&&(!disturbed)&&(now < NEVER)&&(fired != due))
      {
         std::string miss; for (std::set<uint32_t>::const_iterator it = due.begin(); it != due.end(); ++it) if (fired.count(*it) == 0) miss += " " + u64s(*it);
         oracleFail("pulse: due node(s) NOT fired at " + u64s(now) + ":" + miss);
      }
      if (disturbed) for (uint32_t i=0; i<NN; i++) clean[i] = false;
      clean[r] = false;
      return "ok" + log;
   }

   // ---- op interpreter
   static bool parseAct(const std::string & t, Act & a)
   {
      if (t.size() < 2) return false;
      a.kind = t[0]; a.a = 0; a.b = 0;
      const std::vector<std::string> parts = split(t.substr(1), '.');
      uint64_t x = 0, y = 0;
      switch(a.kind)
      {
         case 'i': if ((parts.size() != 2)||(!toId(parts[0], x))||(!toU64(parts[1], y))||(parts[1].size() > 6)||(y > 1)) return false; break;
         case 'r': if ((parts.size() != 2)||(!toId(parts[0], x))||(!toTime(parts[1], y))) return false; break;
         case 'd': if ((parts.size() != 1)||(!toId(parts[0], x))) return false; break;
         case 'a': if ((parts.size() != 2)||(!toId(parts[0], x))||(!toId(parts[1], y))) return false; break;
         default: return false;
      }
      a.a = (uint32_t)x; a.b = y;
      return true;
   }

   virtual std::string step(const std::vector<std::string> & t)
   {
      const std::string & op = t[0];
      uint64_t a = 0, b = 0;
      if ((op == "attach")&&(t.size() == 3)&&(toId(t[1], a))&&(toId(t[2], b))) return doAttach((uint32_t)a, (uint32_t)b) ? "ok" : "cycle";
      if ((op == "detach")&&(t.size() == 2)&&(toId(t[1], a))) {doDetach((uint32_t)a); return "ok";}
      if ((op == "destroy")&&(t.size() == 2)&&(toId(t[1], a))) {doDestroy((uint32_t)a); return "ok";}
      if ((op == "inval")&&(t.size() == 3)&&(toId(t[1], a))&&(t[2].size() <= 6)&&(toU64(t[2], b))&&(b <= 1)) {doInval((uint32_t)a, b != 0); return "ok";}
      if ((op == "setreq")&&(t.size() == 3)&&(toId(t[1], a))&&(toTime(t[2], b))) {req[a] = b; return "ok";}
      if (((op == "sg")||(op == "sp"))&&(t.size() >= 2)&&(toId(t[1], a)))
      {
         std::vector<Act> acts;
         for (size_t i=2; i<t.size(); i++) {Act x; if (!parseAct(t[i], x)) return "bad-op"; acts.push_back(x);}
         ((op == "sg") ? gq[a] : pq[a]).push_back(acts);
         return "ok";
      }
      if (((op == "gpt")||(op == "pulse"))&&(t.size() == 3)&&(toId(t[1], a))&&(toTime(t[2], b)))
      {
         if (nodes[a]->GetPulseParent()) return "notroot";
         return (op == "gpt") ? doGpt((uint32_t)a, b) : doPulse((uint32_t)a, b);
      }
      if ((op == "dump")&&(t.size() == 1))
      {
         std::string s;
         for (uint32_t i=0; i<NN; i++)
         {
            if (i) s += " ";
            const int p = parentOf(i);
            s += ((p >= 0) ? u64s((uint64_t)p) : std::string("-")) + ":" + u64s(nodes[i]->GetScheduledPulseTime());
         }
         return s;
      }
      return "bad-op";
   }

   // ------------------------------------------------------------------ generator
   std::string caseBuf;
   void emit(FILE *, const std::string & line)
   {
      caseBuf += line; caseBuf += '\n';
      FILE * keep = g_oracle; g_oracle = devnull();   // the generator's own executions are not oracle runs
      (void) step(split(line));
      g_oracle = keep;
   }
   static FILE * devnull() {static FILE * f = fopen("/dev/null", "w"); return f;}

   uint64_t genTime(Rng & r, uint64_t now)
   {
      switch(r.below(12))
      {
         case 0: return NEVER;
         case 1: return now;
         case 2: return 0;
         case 3: return (now > 3) ? now-1-r.below(3) : 0;            // past
         case 4: return NEVER-1;
         case 5: return now+1;
         default: return now+r.below(7);                              // near future, many ties
      }
   }
   std::string genAct(Rng & r, uint32_t self, uint32_t n, uint64_t now, bool structural, bool forG)
   {
      uint32_t other = r.chance(1,2) ? self : r.below(n);
      const uint32_t k = r.below(structural ? 10 : 7);
      if (k < 4) return "r" + u64s(r.chance(3,4) ? self : other) + "." + u64s(genTime(r, now));
      if (k < 7) return "i" + u64s(other) + "." + u64s(r.below(2));
      if (k < 8) return "d" + u64s(other);
      return "a" + u64s(other) + "." + u64s(r.below(n));
   }
   void genAttach(Rng & r, FILE * out, uint32_t n)
   {
      for (int tries=0; tries<6; tries++)
      {
         const uint32_t c = r.below(n), p = r.below(n);
         if (r.chance(1,25)) {emit(out, "attach " + u64s(c) + " " + u64s(p)); return;}   // anything, also cycles and self
         if ((!isAnc(c, p))&&(depthOf(p)+1+heightOf(c) <= 3)) {emit(out, "attach " + u64s(c) + " " + u64s(p)); return;}
      }
   }

   virtual void gen(Rng & r, const Tier & tier, FILE * out)
   {
      const uint32_t ncases = tier.thorough ? 9000 : 300;
      for (uint32_t cs=0; cs<ncases; cs++)
      {
         reset();
         caseBuf.clear();
         const uint32_t n = r.chance(1,8) ? r.range(1,3) : r.range(2,12);
         uint64_t now = r.chance(1,10) ? r.below(3) : 100+r.below(50);
         const bool scripts = r.chance(1,2);          // re-entrant actions in this case?
         const bool structural = scripts && r.chance(1,2);  // … including attach/detach from inside callbacks?
         // build a forest
         const uint32_t nat = r.range(0, 2*n);
         for (uint32_t i=0; i<nat; i++) genAttach(r, out, n);
         for (uint32_t i=0; i<n; i++) if (r.chance(4,5)) emit(out, "setreq " + u64s(i) + " " + u64s(genTime(r, now)));
         const uint32_t rounds = r.range(1, tier.thorough ? 10 : 7);
         for (uint32_t rd=0; rd<rounds; rd++)
         {
            // mutations between two event-loop cycles
            const uint32_t nm = r.chance(1,3) ? 0 : r.range(1,5);
            for (uint32_t i=0; i<nm; i++)
            {
               const uint32_t c = r.below(n);
               switch(r.below(12))
               {
                  case 0: case 1: genAttach(r, out, n); break;
                  case 2: emit(out, "detach " + u64s(c)); break;
                  case 3: if (r.chance(1,2)) emit(out, "destroy " + u64s(c)); else emit(out, "detach " + u64s(c)); break;
                  case 4: case 5: case 6: emit(out, "inval " + u64s(c) + " " + u64s(r.below(2))); break;
                  case 7: case 8: case 9: emit(out, "setreq " + u64s(c) + " " + u64s(genTime(r, now))); emit(out, "inval " + u64s(c) + " " + u64s(r.below(2))); break;
                  case 10: emit(out, "setreq " + u64s(c) + " " + u64s(genTime(r, now))); break;
                  default:
                     if (r.chance(1,6))
                     {
                        static const char * bad[] = {"attach 16 0", "attach 0", "inval 3 2", "setreq 1 18446744073709551616", "gpt 0", "pulse 99 5", "sg 1 q3", "sp 2 r1.", "sg 17", "frob 1", "gpt 1 184467440737095516150", "sp 0 i1.7", "sg 0 a1", "detach x"};
                        emit(out, bad[r.below(sizeof(bad)/sizeof(bad[0]))]);
                     }
                     else emit(out, "dump");
                  break;
               }
            }
            if (scripts)
            {
               const uint32_t ns = r.below(4);
               for (uint32_t i=0; i<ns; i++)
               {
                  const uint32_t c = r.below(n);
                  const bool forG = r.chance(1,2);
                  std::string l = std::string(forG ? "sg " : "sp ") + u64s(c);
                  const uint32_t na = r.range(1,3);
                  for (uint32_t k=0; k<na; k++) l += " " + genAct(r, c, n, now, structural, forG);
                  emit(out, l);
               }
            }
            else if (r.chance(1,2))
            {
               // the usual client: Pulse() decides the next time
               const uint32_t ns = r.below(4);
               for (uint32_t i=0; i<ns; i++) {const uint32_t c = r.below(n); emit(out, "sp " + u64s(c) + " r" + u64s(c) + "." + u64s(genTime(r, now+1)));}
            }
            // PrepareToWaitForEvents: every root is asked
            uint64_t wake = NEVER;
            for (uint32_t i=0; i<n; i++) if ((parentOf(i) < 0)&&(!r.chance(1,20)))
            {
               const std::string line = "gpt " + u64s(i) + " " + u64s(now);
               caseBuf += line; caseBuf += '\n';
               FILE * keep = g_oracle; g_oracle = devnull();
               const std::string res = step(split(line));
               g_oracle = keep;
               uint64_t m = NEVER; const std::vector<std::string> rt = split(res); if (rt.size() >= 2) (void) toTime(rt[1], m);
               if (m < wake) wake = m;
            }
            if (r.chance(1,6)) emit(out, "dump");
            // the wait: wake exactly on time, one tick early, late, not at all, or at the end of time
            switch(r.below(10))
            {
               case 0: if ((wake != NEVER)&&(wake > now)) now = wake-1; break;
               case 1: break;
               case 2: now += r.below(4); break;
               case 3: if (r.chance(1,8)) now = r.chance(1,2) ? NEVER : NEVER-1; else now += 1; break;
               case 4: if ((wake != NEVER)&&(wake >= now)) now = wake+r.below(3); else now += r.below(3); break;
               default: if ((wake != NEVER)&&(wake > now)) now = wake; break;
            }
            // HandleEvents: every root is pulsed
            for (uint32_t i=0; i<n; i++) if ((parentOf(i) < 0)&&(!r.chance(1,20))) emit(out, "pulse " + u64s(i) + " " + u64s(now));
            if (r.chance(1,10)) {const uint32_t c = r.below(n); emit(out, std::string(r.chance(1,2) ? "gpt " : "pulse ") + u64s(c) + " " + u64s(now));}   // any node, also non-roots
            if (now >= NEVER-1) now = 200;   // the clock of the next round (the scheduler has no memory of `now`)
         }
         emit(out, "dump");
         fprintf(out, "case %u\n%s", cs*tier.nshards + tier.shard, caseBuf.c_str());
      }
   }
};

uint64 ScriptNode :: GetPulseTime(const PulseArgs & args) {return _e->onGetPulseTime(_id, args.GetCallbackTime(), args.GetScheduledTime());}
void ScriptNode :: Pulse(const PulseArgs & args) {_e->onPulse(_id, args.GetCallbackTime(), args.GetScheduledTime());}

int main(int argc, char ** argv) {PnEngine e; return harnessMain(argc, argv, e);}
