// Engine `q` (C16): three muscle::Queue<ItemType> registers driven through the public API, for a
// trivially copyable item type (int32), an owning item type with move semantics and an owning
// copy-only item type.  Direct oracle: a std::deque per register on which every operation is the
// ideal sequence operation; after EVERY op the real queue must show exactly the deque's items
// (through operator[], both iterators, GetArrayPointer and the head/tail accessors), return the
// ideal result, and — for the owning types — the number of live non-default canaries must equal
// the number of non-default items visible in the three queues (a stale item kept alive in a
// vacated slot, a leak or a double destruction shows up here or in ASan).
#include "libvh/vh.h"
#include "util/Queue.h"
#include <deque>
#include <algorithm>

using namespace muscle;
using namespace vh;

static const int NREGS = 3;
static const int64_t UNSPEC = -1;              // oracle marker: value left unspecified by the API
static const uint64_t MAXVAL = 2147483648ULL;  // item values are below 2^31
static const uint64_t MAXSLOTS = 4096;         // larger pre-allocations are rejected (bad-op)
static const uint64_t U32LIM = 4294967296ULL;

static long g_live = 0;   // canaries alive that hold a non-default value

#define CANARY_BODY(NAME) \
   int32 v; int32 * p; \
   NAME() : v(0), p(NULL) {} \
   explicit NAME(int32 x) : v(x), p(NULL) {if (x) {p = new int32(x); g_live++;}} \
   NAME(const NAME & r) : v(r.v), p(NULL) {r.chk(); if (r.p) {p = new int32(*r.p); g_live++;}} \
   NAME & operator=(const NAME & r) {r.chk(); chk(); if (this != &r) {drop(); v = r.v; if (r.p) {p = new int32(*r.p); g_live++;}} return *this;} \
   ~NAME() {chk(); drop();} \
   void drop() {if (p) {delete p; p = NULL; g_live--;} v = 0;} \
   void chk() const {if (((p != NULL) != (v != 0))||((p)&&(*p != v))) oracleFail("canary corrupted (use of a destroyed or never constructed item)");} \
   bool operator==(const NAME & r) const {chk(); r.chk(); return v == r.v;} \
   bool operator!=(const NAME & r) const {return !(*this == r);} \
   bool operator<(const NAME & r) const {chk(); r.chk(); return v < r.v;}

struct CanaryC {CANARY_BODY(CanaryC)};   // copy-only: std::move copies
struct CanaryM {CANARY_BODY(CanaryM)
   CanaryM(CanaryM && r) : v(r.v), p(r.p) {r.v = 0; r.p = NULL;}
   CanaryM & operator=(CanaryM && r) {if (this != &r) {drop(); v = r.v; p = r.p; r.v = 0; r.p = NULL;} return *this;}
};

template<class T> struct Tr;
template<> struct Tr<int32>   {static int32 make(int64_t v) {return (int32)v;} static int64_t val(const int32 & x) {return x;} enum {TRIVIAL = 1};};
template<> struct Tr<CanaryC> {static CanaryC make(int64_t v) {return CanaryC((int32)v);} static int64_t val(const CanaryC & x) {x.chk(); return x.v;} enum {TRIVIAL = 0};};
template<> struct Tr<CanaryM> {static CanaryM make(int64_t v) {return CanaryM((int32)v);} static int64_t val(const CanaryM & x) {x.chk(); return x.v;} enum {TRIVIAL = 0};};

template<class T> struct KeyedCompare {int Compare(const T & a, const T & b, void *) const {const int64_t x = Tr<T>::val(a)/16, y = Tr<T>::val(b)/16; return (x<y) ? -1 : ((y<x) ? 1 : 0);}};
static bool keyedLess(int64_t a, int64_t b) {return (a/16) < (b/16);}

typedef std::deque<int64_t> Deq;
struct Ref {Deq d; bool unknown; Ref() : unknown(false) {}};

struct IBank
{
   virtual ~IBank() {}
   virtual void reset() = 0;
   virtual std::string step(const std::vector<std::string> & t) = 0;
   virtual uint32 sq() const = 0;
   virtual uint32 count(int r) const = 0;
   virtual uint32 cap(int r) const = 0;
   virtual bool isSmall(int r) const = 0;
   virtual uint32 headOff(int r) const = 0;   // physical slot of item 0 (generator only: boundary-directed cases)
   virtual const Ref & ref(int r) const = 0;
};

static bool hasUnspec(const Deq & d) {for (size_t i=0; i<d.size(); i++) if (d[i] == UNSPEC) return true; return false;}
static Deq slice(const Deq & d, uint64_t start, uint64_t num)
{
   Deq r; const uint64_t n = std::min<uint64_t>(num, (start < d.size()) ? (d.size()-start) : 0);
   for (uint64_t i=0; i<n; i++) r.push_back(d[start+i]);
   return r;
}
static std::string showVal(int64_t v) {return u64s((uint64_t)v);}

template<class T> struct Bank : public IBank
{
   Queue<T> * q[NREGS];   // separate heap objects: ASan red zones around each inline buffer
   Ref refs[NREGS];
   Bank() {for (int i=0; i<NREGS; i++) q[i] = NULL;}
   virtual ~Bank() {for (int i=0; i<NREGS; i++) delete q[i];}
   virtual void reset() {for (int i=0; i<NREGS; i++) {delete q[i]; q[i] = new Queue<T>; refs[i] = Ref();}}
   virtual uint32 sq() const {Queue<T> t; (void) t.EnsureSize(1); return t.GetNumAllocatedItemSlots();}
   virtual uint32 count(int r) const {return q[r]->GetNumItems();}
   virtual uint32 cap(int r) const {return q[r]->GetNumAllocatedItemSlots();}
   virtual bool isSmall(int r) const {const char * p = (const char *) q[r]->GetRawArrayPointer(); return ((p >= (const char *)q[r])&&(p < (const char *)(q[r]+1)));}
   virtual uint32 headOff(int r) const {return q[r]->HasItems() ? (uint32)(&(*q[r])[0] - q[r]->GetRawArrayPointer()) : 0;}
   virtual const Ref & ref(int r) const {return refs[r];}

   static bool parseVals(const std::string & s, std::vector<int64_t> & out)
   {
      out.clear();
      if (s == "-") return true;
      std::vector<std::string> p = split(s, ',');
      for (size_t i=0; i<p.size(); i++) {uint64_t v; if ((!toU64(p[i], v))||(v >= MAXVAL)) return false; out.push_back((int64_t)v);}
      return !out.empty();
   }

   // the whole observable state of register (r) against the ideal sequence
   void check(int r)
   {
      const Queue<T> & Q = *q[r];
      const Ref & R = refs[r];
      if (R.unknown) return;
      const Deq & d = R.d;
      if (Q.GetNumItems() != d.size()) {oracleFail("GetNumItems()=" + u64s(Q.GetNumItems()) + " ideal " + u64s(d.size())); return;}
      if (Q.IsEmpty() != d.empty()) oracleFail("IsEmpty");
      if (Q.GetNumItems() > Q.GetNumAllocatedItemSlots()) oracleFail("more items than slots");
      for (uint32 i=0; i<d.size(); i++) if ((d[i] != UNSPEC)&&(Tr<T>::val(Q[i]) != d[i])) {oracleFail("item " + u64s(i) + " is " + showVal(Tr<T>::val(Q[i])) + " ideal " + showVal(d[i])); return;}
      uint32 k = 0;
      for (ConstQueueIterator<T> it = Q.GetIterator(); it.HasData(); it++, k++) if ((k >= d.size())||((d[k] != UNSPEC)&&(Tr<T>::val(it.GetValue()) != d[k]))) {oracleFail("forward iterator differs at " + u64s(k)); return;}
      if (k != d.size()) oracleFail("forward iterator length");
      k = 0;
      for (ConstQueueIterator<T> it = Q.GetBackwardIterator(); it.HasData(); it++, k++) {const size_t j = d.size()-1-k; if ((k >= d.size())||((d[j] != UNSPEC)&&(Tr<T>::val(it.GetValue()) != d[j]))) {oracleFail("backward iterator differs at " + u64s(k)); return;}}
      if (k != d.size()) oracleFail("backward iterator length");
      k = 0;
      for (uint32 w=0; w<3; w++)
      {
         uint32 len = 0; const T * p = Q.GetArrayPointer(w, len);
         if (p == NULL) {if (len != 0) oracleFail("GetArrayPointer NULL with length"); continue;}
         for (uint32 j=0; j<len; j++, k++) if ((k >= d.size())||((d[k] != UNSPEC)&&(Tr<T>::val(p[j]) != d[k]))) {oracleFail("GetArrayPointer runs differ at " + u64s(k)); return;}
      }
      if (k != d.size()) oracleFail("GetArrayPointer runs cover " + u64s(k) + " items of " + u64s(d.size()));
      if (!d.empty())
      {
         if ((d.front() != UNSPEC)&&(Tr<T>::val(Q.Head()) != d.front())) oracleFail("Head()");
         if ((d.back()  != UNSPEC)&&(Tr<T>::val(Q.Tail()) != d.back()))  oracleFail("Tail()");
         if ((Q.HeadPointer() == NULL)||(Q.TailPointer() == NULL)) oracleFail("Head/TailPointer NULL");
      }
      else if ((Q.HeadPointer() != NULL)||(Q.TailPointer() != NULL)||(Tr<T>::val(Q.HeadWithDefault()) != 0)||(Tr<T>::val(Q.TailWithDefault()) != 0)) oracleFail("empty-queue accessors");
      if (Q.GetLastValidIndex() != ((int32)d.size())-1) oracleFail("GetLastValidIndex");
      if ((Q.IsIndexValid((uint32)d.size()))||((!d.empty())&&(!Q.IsIndexValid((uint32)d.size()-1)))) oracleFail("IsIndexValid");
   }
   void checkAll()
   {
      long want = 0; bool known = true;
      for (int r=0; r<NREGS; r++) {check(r); if (refs[r].unknown) known = false; for (size_t i=0; i<refs[r].d.size(); i++) if (refs[r].d[i] > 0) want++;}
      if ((!Tr<T>::TRIVIAL)&&(known)&&(g_live != want)) oracleFail("live non-default items: " + u64s((uint64_t)g_live) + ", visible in the queues: " + u64s((uint64_t)want) + " (stale item kept in a vacated slot, or an item lost)");
   }

   // result (res) of the real call against the ideal result (want); "?" in (want) = unspecified
   std::string fin(const std::string & res, const std::string & want)
   {
      if ((want != "?")&&(res != want)) oracleFail("result `" + res + "` ideal `" + want + "`");
      checkAll();
      return res;
   }
   static std::string okv(int64_t v) {return (v == UNSPEC) ? std::string("?") : ("ok " + showVal(v));}
   void depMut(Ref & R) {if (hasUnspec(R.d)) R.unknown = true;}   // a value-dependent mutation

   virtual std::string step(const std::vector<std::string> & t)
   {
      const std::string & op = t[0];
      uint64_t a = 0, b = 0, c = 0, e = 0, f = 0;
      if (t.size() < 2) return "bad-op";
      if ((!toU64(t[1], a))||(a >= (uint64_t)NREGS)) return "bad-op";
      const int r = (int)a;
      Queue<T> & Q = *q[r];
      Ref & R = refs[r];
      Deq & d = R.d;
      const size_t n = t.size();
      #define NUM(i, var, lim) ((toU64(t[i], var))&&(var < (lim)))

      if ((op == "addtail")&&(n == 3)&&(NUM(2, b, MAXVAL))) {const bool ok = Q.AddTail(Tr<T>::make(b)).IsOK(); d.push_back(b); return fin(ok?"ok":"err", "ok");}
      if ((op == "addhead")&&(n == 3)&&(NUM(2, b, MAXVAL))) {const bool ok = Q.AddHead(Tr<T>::make(b)).IsOK(); d.push_front(b); return fin(ok?"ok":"err", "ok");}
      if ((op == "addtaild")&&(n == 2)) {const bool ok = Q.AddTail().IsOK(); d.push_back(0); return fin(ok?"ok":"err", "ok");}
      if ((op == "addheadd")&&(n == 2)) {const bool ok = Q.AddHead().IsOK(); d.push_front(0); return fin(ok?"ok":"err", "ok");}
      if ((op == "addtailat")&&(n == 3)&&(NUM(2, b, U32LIM))) {if (b >= Q.GetNumItems()) return "bad-op"; const bool ok = Q.AddTail(Q[(uint32)b]).IsOK(); if (!R.unknown) d.push_back(d[b]); return fin(ok?"ok":"err", "ok");}
      if ((op == "addheadat")&&(n == 3)&&(NUM(2, b, U32LIM))) {if (b >= Q.GetNumItems()) return "bad-op"; const bool ok = Q.AddHead(Q[(uint32)b]).IsOK(); if (!R.unknown) d.push_front(d[b]); return fin(ok?"ok":"err", "ok");}
      if (((op == "tailget")||(op == "headget"))&&((n == 2)||((n == 3)&&(NUM(2, b, MAXVAL)))))
      {
         T * p = (op == "tailget") ? Q.AddTailAndGet() : Q.AddHeadAndGet();
         if ((p)&&(n == 3)) *p = Tr<T>::make(b);
         const int64_t v = (n == 3) ? (int64_t)b : (Tr<T>::TRIVIAL ? UNSPEC : 0);   // non-trivial types: "default-initialized item"
         if (op == "tailget") d.push_back(v); else d.push_front(v);
         return fin(p?"ok":"err", "ok");
      }
      if ((op == "remhead")&&(n == 2)) {std::string got; {T ret = T(); const bool ok = Q.RemoveHead(ret).IsOK(); got = ok ? ("ok " + showVal(Tr<T>::val(ret))) : "err";} std::string want = "err"; if (!d.empty()) {want = okv(d.front()); d.pop_front();} return fin(got, R.unknown ? "?" : want);}
      if ((op == "remtail")&&(n == 2)) {std::string got; {T ret = T(); const bool ok = Q.RemoveTail(ret).IsOK(); got = ok ? ("ok " + showVal(Tr<T>::val(ret))) : "err";} std::string want = "err"; if (!d.empty()) {want = okv(d.back()); d.pop_back();} return fin(got, R.unknown ? "?" : want);}
      if ((op == "remheadm")&&(n == 3)&&(NUM(2, b, U32LIM))) {const uint32 k = Q.RemoveHeadMulti((uint32)b); const uint64_t w = std::min<uint64_t>(b, d.size()); d.erase(d.begin(), d.begin()+w); return fin(u64s(k), R.unknown ? "?" : u64s(w));}
      if ((op == "remtailm")&&(n == 3)&&(NUM(2, b, U32LIM))) {const uint32 k = Q.RemoveTailMulti((uint32)b); const uint64_t w = std::min<uint64_t>(b, d.size()); d.erase(d.end()-w, d.end()); return fin(u64s(k), R.unknown ? "?" : u64s(w));}
      if ((op == "remat")&&(n == 3)&&(NUM(2, b, U32LIM))) {std::string got; {T ret = T(); const bool ok = Q.RemoveItemAt((uint32)b, ret).IsOK(); got = ok ? ("ok " + showVal(Tr<T>::val(ret))) : "err";} std::string want = "err"; if (b < d.size()) {want = okv(d[b]); d.erase(d.begin()+b);} return fin(got, R.unknown ? "?" : want);}
      if ((op == "get")&&(n == 3)&&(NUM(2, b, U32LIM))) {std::string got; {T ret = T(); const bool ok = Q.GetItemAt((uint32)b, ret).IsOK(); got = ok ? ("ok " + showVal(Tr<T>::val(ret))) : "err";} const std::string want = (b < d.size()) ? okv(d[b]) : "err"; return fin(got, R.unknown ? "?" : want);}
      if ((op == "set")&&(n == 4)&&(NUM(2, b, U32LIM))&&(NUM(3, c, MAXVAL))) {const bool ok = Q.ReplaceItemAt((uint32)b, Tr<T>::make(c)).IsOK(); std::string want = "err"; if (b < d.size()) {d[b] = c; want = "ok";} return fin(ok?"ok":"err", R.unknown ? "?" : want);}
      if ((op == "ins")&&(n == 4)&&(NUM(2, b, U32LIM))&&(NUM(3, c, MAXVAL))) {const bool ok = Q.InsertItemAt((uint32)b, Tr<T>::make(c)).IsOK(); if (b >= d.size()) d.push_back(c); else d.insert(d.begin()+b, (int64_t)c); return fin(ok?"ok":"err", "ok");}
      if ((op == "insat")&&(n == 4)&&(NUM(2, b, U32LIM))&&(NUM(3, c, U32LIM)))
      {
         if (c >= Q.GetNumItems()) return "bad-op";
         const bool ok = Q.InsertItemAt((uint32)b, Q[(uint32)c]).IsOK();
         if (!R.unknown) {const int64_t v = d[c]; if (b >= d.size()) d.push_back(v); else d.insert(d.begin()+b, v);}
         return fin(ok?"ok":"err", "ok");
      }
      if (((op == "insq")&&(n == 6)&&(NUM(2, b, U32LIM))&&(NUM(3, c, (uint64_t)NREGS))&&(NUM(4, e, U32LIM))&&(NUM(5, f, U32LIM)))||
          (((op == "addtailq")||(op == "addheadq"))&&(n == 5)&&(NUM(2, c, (uint64_t)NREGS))&&(NUM(3, e, U32LIM))&&(NUM(4, f, U32LIM))))
      {
         const Queue<T> & S = *q[c];
         const Deq xs = slice(refs[c].d, e, f);     // taken before the target changes (the target may be the source)
         bool ok;
         if (op == "insq") ok = Q.InsertItemsAt((uint32)b, S, (uint32)e, (uint32)f).IsOK();
         else if (op == "addtailq") ok = Q.AddTailMulti(S, (uint32)e, (uint32)f).IsOK();
         else ok = Q.AddHeadMulti(S, (uint32)e, (uint32)f).IsOK();
         if (refs[c].unknown) R.unknown = true;
         const size_t at = (op == "insq") ? std::min<size_t>((size_t)b, d.size()) : ((op == "addtailq") ? d.size() : 0);
         d.insert(d.begin()+at, xs.begin(), xs.end());
         return fin(ok?"ok":"err", "ok");
      }
      if ((((op == "insa")&&(n == 4)&&(NUM(2, b, U32LIM)))||(((op == "addtaila")||(op == "addheada"))&&(n == 3))))
      {
         std::vector<int64_t> vs; if (!parseVals(t[n-1], vs)) return "bad-op";
         bool ok;
         {
            std::vector<T> items; for (size_t i=0; i<vs.size(); i++) items.push_back(Tr<T>::make(vs[i]));
            T dummy = T();
            const T * p = items.empty() ? &dummy : &items[0];
            if (op == "insa") ok = Q.InsertItemsAt((uint32)b, p, (uint32)items.size()).IsOK();
            else if (op == "addtaila") ok = Q.AddTailMulti(p, (uint32)items.size()).IsOK();
            else ok = Q.AddHeadMulti(p, (uint32)items.size()).IsOK();
         }
         const size_t at = (op == "insa") ? std::min<size_t>((size_t)b, d.size()) : ((op == "addtaila") ? d.size() : 0);
         d.insert(d.begin()+at, vs.begin(), vs.end());
         return fin(ok?"ok":"err", "ok");
      }
      if ((op == "clear")&&(n == 3)&&(NUM(2, b, 2))) {Q.Clear(b != 0); d.clear(); R.unknown = false; return fin("ok", "ok");}
      if ((op == "ensure")&&(n == 6)&&(NUM(2, b, MAXSLOTS+1))&&(NUM(3, c, 2))&&(NUM(4, e, MAXSLOTS+1))&&(NUM(5, f, 2)))
      {
         const bool ok = Q.EnsureSize((uint32)b, c != 0, (uint32)e, f != 0).IsOK();
         if (c) d.resize((size_t)b, 0);   // "adding or removing items to (from) the tail": the added ones are default items
         return fin(ok?"ok":"err", "ok");
      }
      if ((op == "shrinkfit")&&(n == 3)&&(NUM(2, b, MAXSLOTS+1))) {const bool ok = Q.ShrinkToFit((uint32)b).IsOK(); return fin(ok?"ok":"err", "ok");}
      if (((op == "idx")||(op == "lidx"))&&(n == 5)&&(NUM(2, b, MAXVAL))&&(NUM(3, c, U32LIM))&&(NUM(4, e, U32LIM)))
      {
         int32 got;
         {
            const T item = Tr<T>::make(b);
            got = (op == "idx") ? Q.IndexOf(item, (uint32)c, (uint32)e) : Q.LastIndexOf(item, (uint32)c, (uint32)e);
            if ((op == "idx")&&(Q.Contains(item, (uint32)c, (uint32)e) != (got >= 0))) oracleFail("Contains disagrees with IndexOf");
         }
         int64_t want = -1;
         if (op == "idx") {if (c < d.size()) {const uint64_t end = std::min<uint64_t>(e, d.size()); for (uint64_t i=c; i<end; i++) if (d[i] == (int64_t)b) {want = (int64_t)i; break;}}}
         else if (e < d.size()) {const uint64_t s = std::min<uint64_t>(c, d.size()-1); for (int64_t i=(int64_t)s; i>=(int64_t)e; i--) if (d[i] == (int64_t)b) {want = i; break;}}
         char buf[32]; snprintf(buf, sizeof(buf), "%d", (int)got);
         char wb[32]; snprintf(wb, sizeof(wb), "%lld", (long long)want);
         return fin(buf, ((R.unknown)||(hasUnspec(d))) ? "?" : wb);
      }
      if ((op == "swap")&&(n == 4)&&(NUM(2, b, U32LIM))&&(NUM(3, c, U32LIM)))
      {
         if ((b >= Q.GetNumItems())||(c >= Q.GetNumItems())) return "bad-op";
         Q.Swap((uint32)b, (uint32)c);
         if (!R.unknown) std::swap(d[b], d[c]);
         return fin("ok", "ok");
      }
      if ((op == "rev")&&(n == 4)&&(NUM(2, b, U32LIM))&&(NUM(3, c, U32LIM)))
      {
         Q.ReverseItemOrdering((uint32)b, (uint32)c);
         if ((b < c)&&(!d.empty())) {const uint64_t last = std::min<uint64_t>(c-1, d.size()-1); if (b < last) std::reverse(d.begin()+b, d.begin()+last+1);}
         return fin("ok", "ok");
      }
      if ((op == "sort")&&(n == 5)&&(NUM(2, b, U32LIM))&&(NUM(3, c, U32LIM))&&(NUM(4, e, 2)))
      {
         if (e) Q.Sort(KeyedCompare<T>(), (uint32)b, (uint32)c); else Q.Sort((uint32)b, (uint32)c);
         depMut(R);
         const uint64_t end = std::min<uint64_t>(c, d.size());
         if (end > b) {if (e) std::stable_sort(d.begin()+b, d.begin()+end, keyedLess); else std::stable_sort(d.begin()+b, d.begin()+end);}
         return fin("ok", "ok");
      }
      if ((op == "inssorted")&&(n == 3)&&(NUM(2, b, MAXVAL)))
      {
         const int32 got = Q.InsertItemAtSortedPosition(Tr<T>::make(b));
         depMut(R);
         size_t at = 0;
         if ((!d.empty())&&(!((int64_t)b < d[0]))) for (int64_t k=(int64_t)d.size()-1; k>=0; k--) if (!((int64_t)b < d[k])) {at = (size_t)k+1; break;}
         d.insert(d.begin()+at, (int64_t)b);
         char buf[32]; snprintf(buf, sizeof(buf), "%d", (int)got);
         return fin(buf, R.unknown ? "?" : u64s(at));
      }
      if (((op == "remall")&&(n == 3)&&(NUM(2, b, MAXVAL)))||((op == "remallat")&&(n == 3)&&(NUM(2, b, U32LIM))))
      {
         uint32 got;
         int64_t v;
         if (op == "remallat") {if (b >= Q.GetNumItems()) return "bad-op"; v = R.unknown ? 0 : d[b]; got = Q.RemoveAllInstancesOf(Q[(uint32)b]);}
         else {v = (int64_t)b; got = Q.RemoveAllInstancesOf(Tr<T>::make(b));}
         depMut(R);
         const size_t before = d.size();
         d.erase(std::remove(d.begin(), d.end(), v), d.end());
         return fin(u64s(got), R.unknown ? "?" : u64s(before-d.size()));
      }
      if (((op == "remfirst")||(op == "remlast"))&&(n == 3)&&(NUM(2, b, MAXVAL)))
      {
         const bool ok = (op == "remfirst") ? Q.RemoveFirstInstanceOf(Tr<T>::make(b)).IsOK() : Q.RemoveLastInstanceOf(Tr<T>::make(b)).IsOK();
         depMut(R);
         std::string want = "err";
         if (op == "remfirst") {for (size_t i=0; i<d.size(); i++) if (d[i] == (int64_t)b) {d.erase(d.begin()+i); want = "ok"; break;}}
         else for (int64_t i=(int64_t)d.size()-1; i>=0; i--) if (d[i] == (int64_t)b) {d.erase(d.begin()+i); want = "ok"; break;}
         return fin(ok?"ok":"err", R.unknown ? "?" : want);
      }
      if (((op == "remdup")||(op == "remsdup"))&&(n == 2))
      {
         const uint32 got = (op == "remdup") ? Q.RemoveDuplicateItems() : Q.RemoveSortedDuplicateItems();
         depMut(R);
         if (op == "remdup") std::stable_sort(d.begin(), d.end());
         const size_t before = d.size();
         d.erase(std::unique(d.begin(), d.end()), d.end());
         return fin(u64s(got), R.unknown ? "?" : u64s(before-d.size()));
      }
      if (((op == "starts")||(op == "ends")||(op == "eq")||(op == "cmp"))&&(n == 3)&&(NUM(2, c, (uint64_t)NREGS)))
      {
         const Queue<T> & S = *q[c]; const Deq & s = refs[c].d;
         std::string got, want;
         if (op == "starts") {got = Q.StartsWith(S) ? "true" : "false"; want = ((s.size() <= d.size())&&(std::equal(s.begin(), s.end(), d.begin()))) ? "true" : "false";}
         else if (op == "ends") {got = Q.EndsWith(S) ? "true" : "false"; want = ((s.size() <= d.size())&&(std::equal(s.begin(), s.end(), d.end()-s.size()))) ? "true" : "false";}
         else if (op == "eq") {got = (Q == S) ? "true" : "false"; want = (d == s) ? "true" : "false"; if ((Q != S) == (Q == S)) oracleFail("operator!= agrees with operator==");}
         else
         {
            const bool lt = (Q < S), gt = (Q > S), le = (Q <= S), ge = (Q >= S);
            got = lt ? "lt" : (gt ? "gt" : "eq");
            want = std::lexicographical_compare(d.begin(), d.end(), s.begin(), s.end()) ? "lt" : (std::lexicographical_compare(s.begin(), s.end(), d.begin(), d.end()) ? "gt" : "eq");
            if ((lt&&gt)||(le != !gt)||(ge != !lt)) oracleFail("comparison operators inconsistent");
         }
         return fin(got, ((R.unknown)||(refs[c].unknown)||(hasUnspec(d))||(hasUnspec(s))) ? "?" : want);
      }
      if (((op == "startsi")||(op == "endsi"))&&(n == 3)&&(NUM(2, b, MAXVAL)))
      {
         const bool got = (op == "startsi") ? Q.StartsWith(Tr<T>::make(b)) : Q.EndsWith(Tr<T>::make(b));
         std::string want = "false";
         if (!d.empty()) {const int64_t x = (op == "startsi") ? d.front() : d.back(); want = (x == UNSPEC) ? "?" : ((x == (int64_t)b) ? "true" : "false");}
         return fin(got?"true":"false", R.unknown ? "?" : want);
      }
      if (((op == "head")||(op == "tail"))&&(n == 2))
      {
         const int64_t got = Tr<T>::val((op == "head") ? Q.HeadWithDefault() : Q.TailWithDefault());
         const int64_t x = d.empty() ? 0 : ((op == "head") ? d.front() : d.back());
         return fin(showVal(got), ((R.unknown)||(x == UNSPEC)) ? "?" : showVal(x));
      }
      if ((op == "norm")&&(n == 2))
      {
         Q.Normalize();
         uint32 l0 = 0, l1 = 0; const T * p0 = Q.GetArrayPointer(0, l0); const T * p1 = Q.GetArrayPointer(1, l1);
         if ((!Q.IsNormalized())||(p1 != NULL)||(l0 != Q.GetNumItems())||((Q.HasItems())&&(p0 == NULL))) oracleFail("not contiguous after Normalize()");
         return fin(Q.IsNormalized() ? "ok" : "not-normalized", "ok");
      }
      if (((op == "insap")&&(n == 5)&&(NUM(2, b, U32LIM))&&(NUM(3, c, U32LIM))&&(NUM(4, e, U32LIM)))||
          (((op == "addtailap")||(op == "addheadap"))&&(n == 4)&&(NUM(2, c, U32LIM))&&(NUM(3, e, U32LIM))))
      {
         // the array argument points INTO this Queue: &Q[c], (e) items clipped to the contiguous run that holds item (c)
         if ((c >= Q.GetNumItems())||(e == 0)) return "bad-op";
         uint32 l0 = 0; (void) Q.GetArrayPointer(0, l0);
         const uint64_t maxn = (c < l0) ? (l0-c) : (Q.GetNumItems()-c);
         const uint64_t k = std::min<uint64_t>(e, maxn);
         const Deq xs = slice(d, c, k);
         const T * p = &Q[(uint32)c];
         bool ok;
         if (op == "insap") ok = Q.InsertItemsAt((uint32)b, p, (uint32)k).IsOK();
         else if (op == "addtailap") ok = Q.AddTailMulti(p, (uint32)k).IsOK();
         else ok = Q.AddHeadMulti(p, (uint32)k).IsOK();
         const size_t at = (op == "insap") ? std::min<size_t>((size_t)b, d.size()) : ((op == "addtailap") ? d.size() : 0);
         d.insert(d.begin()+at, xs.begin(), xs.end());
         return fin(ok?"ok":"err", "ok");
      }
      if ((op == "setat")&&(n == 4)&&(NUM(2, b, U32LIM))&&(NUM(3, c, U32LIM)))
      {
         if (c >= Q.GetNumItems()) return "bad-op";
         const bool ok = Q.ReplaceItemAt((uint32)b, Q[(uint32)c]).IsOK();
         std::string want = "err";
         if (b < d.size()) {if ((!R.unknown)&&(c < d.size())) d[b] = d[c]; want = "ok";}
         return fin(ok?"ok":"err", R.unknown ? "?" : want);
      }
      if (((op == "remfirstat")||(op == "remlastat"))&&(n == 3)&&(NUM(2, b, U32LIM)))
      {
         if (b >= Q.GetNumItems()) return "bad-op";
         const int64_t v = ((R.unknown)||(b >= d.size())) ? 0 : d[b];
         const bool ok = (op == "remfirstat") ? Q.RemoveFirstInstanceOf(Q[(uint32)b]).IsOK() : Q.RemoveLastInstanceOf(Q[(uint32)b]).IsOK();
         depMut(R);
         std::string want = "err";
         if (op == "remfirstat") {for (size_t i=0; i<d.size(); i++) if (d[i] == v) {d.erase(d.begin()+i); want = "ok"; break;}}
         else for (int64_t i=(int64_t)d.size()-1; i>=0; i--) if (d[i] == v) {d.erase(d.begin()+i); want = "ok"; break;}
         return fin(ok?"ok":"err", R.unknown ? "?" : want);
      }
      if ((op == "inssortedat")&&(n == 3)&&(NUM(2, b, U32LIM)))
      {
         if (b >= Q.GetNumItems()) return "bad-op";
         const int64_t v = ((R.unknown)||(b >= d.size())) ? 0 : d[b];
         const int32 got = Q.InsertItemAtSortedPosition(Q[(uint32)b]);
         depMut(R);
         size_t at = 0;
         if ((!d.empty())&&(!(v < d[0]))) for (int64_t k=(int64_t)d.size()-1; k>=0; k--) if (!(v < d[k])) {at = (size_t)k+1; break;}
         d.insert(d.begin()+at, v);
         char buf[32]; snprintf(buf, sizeof(buf), "%d", (int)got);
         return fin(buf, R.unknown ? "?" : u64s(at));
      }
      if (((op == "movector")||(op == "copyctor"))&&(n == 3)&&(NUM(2, c, (uint64_t)NREGS)))
      {
         // register (r) is replaced by a Queue move- resp. copy-constructed from register (c)
         if (r == (int)c) return "bad-op";
         Queue<T> * nq = (op == "movector") ? new Queue<T>(std::move(*q[c])) : new Queue<T>(*q[c]);
         delete q[r]; q[r] = nq;
         refs[r] = refs[c];
         if (op == "movector") refs[c] = Ref();
         return fin("ok", "ok");
      }
      if (((op == "copy")||(op == "copyfrom")||(op == "move")||(op == "swapc"))&&(n == 3)&&(NUM(2, c, (uint64_t)NREGS)))
      {
         Queue<T> & S = *q[c];
         if (op == "copy") {Q = S; if (r != (int)c) refs[r] = refs[c]; return fin("ok", "ok");}
         if (op == "copyfrom") {const bool ok = Q.CopyFrom(S).IsOK(); if (r != (int)c) refs[r] = refs[c]; return fin(ok?"ok":"err", "ok");}
         if (op == "move") {Q = std::move(S); if (r != (int)c) {refs[r] = refs[c]; refs[c] = Ref();} return fin("ok", "ok");}   // moving a Queue onto itself must leave it as it is
         Q.SwapContents(S); if (r != (int)c) std::swap(refs[r], refs[c]);
         return fin("ok", "ok");
      }
      if ((op == "dump")&&(n == 2))
      {
         std::string s = u64s(Q.GetNumItems());
         for (uint32 i=0; i<Q.GetNumItems(); i++) {s += " "; s += showVal(Tr<T>::val(Q[i]));}
         checkAll();
         return s;
      }
      return "bad-op";
   }
};

struct QEngine : public Engine
{
   Bank<int32>   b0;
   Bank<CanaryM> b1;
   Bank<CanaryC> b2;
   IBank * cur;
   int ty;
   uint32_t nextV;
   QEngine() : cur(NULL), ty(0), nextV(1) {}
   IBank * bank(int t) {return (t == 0) ? (IBank *)&b0 : ((t == 1) ? (IBank *)&b1 : (IBank *)&b2);}

   virtual void reset() {b0.reset(); b1.reset(); b2.reset(); cur = NULL; if (g_live != 0) {oracleFail("canaries alive after all queues were destroyed"); g_live = 0;}}

   virtual std::string step(const std::vector<std::string> & t)
   {
      if ((t[0] == "new")&&(t.size() == 3))
      {
         uint64_t a, s;
         if ((!toU64(t[1], a))||(a >= 3)||(!toU64(t[2], s))||(s == 0)||(s > 64)) return "bad-op";
         if (bank((int)a)->sq() != (uint32)s) {b0.reset(); b1.reset(); b2.reset(); cur = NULL; return "n/a";}   // the inline capacity is what the compiled code says, not a free parameter: a recorded case made for another value does not apply to this build
         b0.reset(); b1.reset(); b2.reset();
         cur = bank((int)a); ty = (int)a;
         return "ok";
      }
      if (cur == NULL) return "bad-op";
      return cur->step(t);
   }

   // ---------------------------------------------------------------- generator
   static FILE * devnull() {static FILE * f = fopen("/dev/null", "w"); return f;}
   void emit(FILE * out, const std::string & line)
   {
      fputs(line.c_str(), out); fputc('\n', out);
      FILE * keep = g_oracle; g_oracle = devnull();
      (void) step(split(line));
      g_oracle = keep;
   }
   uint64_t genVal(Rng & r, int reg)
   {
      const Deq & d = cur->ref(reg).d;
      const uint32_t w = r.below(10);
      if ((w < 3)&&(!d.empty())) {const int64_t v = d[r.below((uint32_t)d.size())]; if (v >= 0) return (uint64_t)v;}
      if (w == 3) return 0;
      if (w == 4) return r.chance(1,2) ? 2147483647ULL : r.below(4);
      nextV = (nextV % 240) + 1;
      return nextV;
   }
   uint64_t genIndex(Rng & r, uint32_t cnt, bool mostlyValid)
   {
      const uint32_t w = r.below(12);
      switch(w)
      {
         case 0: return 0;
         case 1: return cnt ? cnt-1 : 0;
         case 2: return cnt;
         case 3: return cnt/2;
         case 4: return (cnt/2) ? (cnt/2)-1 : 0;
         case 5: return (cnt/2)+1;
         case 6: return 1;
         case 7: if (!mostlyValid) return r.chance(1,2) ? 4294967295ULL : cnt+1+r.below(5);
         default: return cnt ? r.below(cnt) : 0;
      }
   }
   uint64_t genSize(Rng & r, uint32_t cnt, uint32_t sq)
   {
      static const uint32_t fixed[] = {0, 1, 2, 7, 8, 9, 15, 16, 17, 31, 32, 33, 63, 64, 65};
      switch(r.below(10))
      {
         case 0: return sq;            case 1: return sq+1;        case 2: return sq ? sq-1 : 0;
         case 3: return cnt;           case 4: return cnt+1;       case 5: return cnt ? cnt-1 : 0;
         case 6: return 2*cnt;         case 7: return cnt/2;
         default: return fixed[r.below(sizeof(fixed)/sizeof(fixed[0]))];
      }
   }
   std::string genVals(Rng & r, int reg)
   {
      static const uint32_t lens[] = {0, 1, 1, 2, 2, 3, 4, 5, 8, 13};
      const uint32_t n = lens[r.below(sizeof(lens)/sizeof(lens[0]))];
      if (n == 0) return "-";
      std::string s;
      for (uint32_t i=0; i<n; i++) {if (i) s += ","; s += u64s(genVal(r, reg));}
      return s;
   }
   // position of an item whose value the API left unspecified, or -1
   static int unspecAt(const Deq & d) {for (size_t i=0; i<d.size(); i++) if (d[i] == UNSPEC) return (int)i; return -1;}

   void genOp(Rng & r, FILE * out, int mode)
   {
      const uint32_t sq = cur->sq();
      const int reg = (int)(r.chance(2,3) ? 0 : r.below(NREGS));
      const int oth = (int)r.below(NREGS);
      const std::string R = u64s((uint64_t)reg), S = u64s((uint64_t)oth);
      const uint32_t cnt = cur->count(reg), ocnt = cur->count(oth);
      const Deq & d = cur->ref(reg).d;
      // an unspecified item (no-argument AddTailAndGet of a trivial type) is written or removed soon; until then only
      // operations whose effect does not depend on item values are generated for the registers involved
      const int ua = unspecAt(d);
      const bool junk = (ua >= 0)||(unspecAt(cur->ref(oth).d) >= 0);
      if ((ua >= 0)&&(r.chance(1,2))) {emit(out, "set " + R + " " + u64s((uint64_t)ua) + " " + u64s(genVal(r, reg))); return;}

      uint32_t w = r.below(100);
      // modes bias the mix: 0 balanced, 1 growth, 2 drain, 3 rotate forward (tail in, head out), 4 rotate backward
      if ((mode == 1)&&(r.chance(1,3))) w = r.below(12);
      if ((mode == 2)&&(r.chance(1,3))) w = 12 + r.below(10);
      if ((mode == 3)&&(r.chance(1,2))) {emit(out, "addtail " + R + " " + u64s(genVal(r, reg))); if (cnt >= 2) emit(out, "remhead " + R); return;}
      if ((mode == 4)&&(r.chance(1,2))) {emit(out, "addhead " + R + " " + u64s(genVal(r, reg))); if (cnt >= 2) emit(out, "remtail " + R); return;}
      if ((cnt > 70)&&(r.chance(1,2))) w = 12 + r.below(10);

      if (w < 4)  {emit(out, "addtail " + R + " " + u64s(genVal(r, reg))); return;}
      if (w < 8)  {emit(out, "addhead " + R + " " + u64s(genVal(r, reg))); return;}
      if (w < 9)  {emit(out, (r.chance(1,2) ? "addtaild " : "addheadd ") + R); return;}
      if (w < 10) {if (cnt) emit(out, (r.chance(1,2) ? "addtailat " : "addheadat ") + R + " " + u64s(r.below(cnt))); return;}
      if (w < 12) {emit(out, std::string(r.chance(1,2) ? "tailget " : "headget ") + R + (r.chance(4,5) ? (" " + u64s(genVal(r, reg))) : std::string())); return;}
      if (w < 15) {emit(out, "remhead " + R); return;}
      if (w < 18) {emit(out, "remtail " + R); return;}
      if (w < 20) {emit(out, (r.chance(1,2) ? "remheadm " : "remtailm ") + R + " " + u64s(r.chance(1,6) ? genIndex(r, cnt, false) : r.below(4))); return;}
      if (w < 24) {emit(out, "remat " + R + " " + u64s(genIndex(r, cnt, true))); return;}
      if (w < 26) {emit(out, "get " + R + " " + u64s(genIndex(r, cnt, false))); return;}
      if (w < 29) {if ((cnt)&&(r.chance(1,5))) emit(out, "setat " + R + " " + u64s(genIndex(r, cnt, true)) + " " + u64s(r.below(cnt))); else emit(out, "set " + R + " " + u64s(genIndex(r, cnt, true)) + " " + u64s(genVal(r, reg))); return;}
      if (w < 35) {emit(out, "ins " + R + " " + u64s(genIndex(r, cnt, false)) + " " + u64s(genVal(r, reg))); return;}
      if (w < 36) {if (cnt) emit(out, "insat " + R + " " + u64s(genIndex(r, cnt, false)) + " " + u64s(r.below(cnt))); return;}
      if (w < 44)
      {
         // multi-item insert/append/prepend from another queue or from the queue itself
         const uint64_t start = r.chance(2,3) ? 0 : genIndex(r, ocnt, false);
         const uint64_t num = r.chance(1,2) ? 4294967295ULL : r.below(ocnt+2);
         const uint64_t clipped = std::min<uint64_t>(num, (start < ocnt) ? (ocnt-start) : 0);
         const uint32_t kind = r.below(3);
         const uint64_t idx = genIndex(r, cnt, false);
         (void) clipped;   // the source may be the target itself, with or without spare slots (finding C16-D4 is in the stream)
         if ((cnt)&&(r.chance(1,6)))
         {
            // the array overloads with a pointer INTO this Queue as the argument
            const uint32_t k2 = r.below(3); const uint64_t j = r.below(cnt), nn = r.range(1, 4);
            if (k2 == 0) emit(out, "insap " + R + " " + u64s(idx) + " " + u64s(j) + " " + u64s(nn));
            else emit(out, std::string((k2 == 1) ? "addtailap " : "addheadap ") + R + " " + u64s(j) + " " + u64s(nn));
            return;
         }
         if (kind == 0) emit(out, "insq " + R + " " + u64s(idx) + " " + S + " " + u64s(start) + " " + u64s(num));
         else emit(out, std::string((kind == 1) ? "addtailq " : "addheadq ") + R + " " + S + " " + u64s(start) + " " + u64s(num));
         return;
      }
      if (w < 50)
      {
         const uint32_t kind = r.below(3);
         if (kind == 0) emit(out, "insa " + R + " " + u64s(genIndex(r, cnt, false)) + " " + genVals(r, reg));
         else emit(out, std::string((kind == 1) ? "addtaila " : "addheada ") + R + " " + genVals(r, reg));
         return;
      }
      if (w < 52) {emit(out, "clear " + R + " " + u64s(r.below(2))); return;}
      if (w < 60)
      {
         const uint64_t nsl = genSize(r, cnt, sq);
         const bool setNum = r.chance(1,2);
         // allowShrink also with fewer slots than items (findings C16-D1/D2, fixed in /repo by 97f299d; corpus/C16/q-shrinkbelow*.ops are regression cases)
         const bool shrink = r.chance(1,4);
         emit(out, "ensure " + R + " " + u64s(nsl) + " " + u64s(setNum) + " " + u64s(r.chance(2,3) ? 0 : r.below(6)) + " " + u64s(shrink));
         return;
      }
      if (w < 62) {emit(out, "shrinkfit " + R + " " + u64s(r.chance(2,3) ? 0 : r.below(4))); return;}
      if (w < 66) {emit(out, "norm " + R); return;}
      if (w < 68) {if (cnt) emit(out, "swap " + R + " " + u64s(r.below(cnt)) + " " + u64s(r.below(cnt))); return;}
      if (w < 71) {const uint64_t a = r.chance(1,2) ? 0 : genIndex(r, cnt, false); emit(out, "rev " + R + " " + u64s(a) + " " + u64s(r.chance(1,2) ? 4294967295ULL : genIndex(r, cnt, false))); return;}
      if (w < 76)
      {
         const bool sOther = (oth != reg);
         const uint32_t kind = r.below(7);
         // every combination of inline / heap / never-allocated Queues, for every item type (finding C16-D3 is in the stream)
         if (kind == 0) emit(out, "copy " + R + " " + S);
         else if (kind == 1) emit(out, "copyfrom " + R + " " + S);
         else if (kind == 2) emit(out, "move " + R + " " + S);        // also onto itself
         else if (kind == 3) {if (sOther) emit(out, "movector " + R + " " + S);}
         else if (kind == 4) {if (sOther) emit(out, "copyctor " + R + " " + S);}
         else emit(out, "swapc " + R + " " + S);
         return;
      }
      if (w < 78) {emit(out, "dump " + R); return;}
      if (w < 80) {emit(out, (r.chance(1,2) ? "head " : "tail ") + R); return;}
      if (junk) {emit(out, "get " + R + " " + u64s(genIndex(r, cnt, false))); return;}   // value-dependent operations wait
      if (w < 83) {emit(out, std::string(r.chance(1,2) ? "idx " : "lidx ") + R + " " + u64s(genVal(r, reg)) + " " + u64s(r.chance(1,2) ? (r.chance(1,2) ? 0 : 4294967295ULL) : genIndex(r, cnt, false)) + " " + u64s(r.chance(1,2) ? (r.chance(1,2) ? 0 : 4294967295ULL) : genIndex(r, cnt, false))); return;}
      if (w < 87) {const uint64_t a = r.chance(2,3) ? 0 : genIndex(r, cnt, false); emit(out, "sort " + R + " " + u64s(a) + " " + u64s(r.chance(2,3) ? 4294967295ULL : genIndex(r, cnt, false)) + " " + u64s(r.below(2))); return;}
      if (w < 89) {emit(out, "sort " + R + " 0 4294967295 0"); emit(out, "inssorted " + R + " " + u64s(genVal(r, reg))); return;}
      if (w < 91) {emit(out, "remall " + R + " " + u64s(genVal(r, reg))); return;}
      if (w < 92) {if (cnt) emit(out, "remallat " + R + " " + u64s(r.below(cnt))); return;}
      if (w < 94)
      {
         if ((cnt)&&(r.chance(1,3))) {static const char * k3[] = {"remfirstat ", "remlastat ", "inssortedat "}; const uint32_t k = r.below(3); if (k == 2) emit(out, "sort " + R + " 0 4294967295 0"); emit(out, std::string(k3[k]) + R + " " + u64s(r.below(cur->count(reg) ? cur->count(reg) : 1))); return;}
         emit(out, std::string(r.chance(1,2) ? "remfirst " : "remlast ") + R + " " + u64s(genVal(r, reg))); return;
      }
      if (w < 96) {emit(out, std::string(r.chance(1,2) ? "remdup " : "remsdup ") + R); return;}
      if (w < 99) {static const char * k[] = {"starts ", "ends ", "eq ", "cmp "}; emit(out, std::string(k[r.below(4)]) + R + " " + S); return;}
      emit(out, std::string(r.chance(1,2) ? "startsi " : "endsi ") + R + " " + u64s(genVal(r, reg)));
   }

   // ---- boundary-directed scenarios (each builds the state it needs with ordinary ops, so replay and shrinking work as usual)
   void fillInline(Rng & r, FILE * out, const std::string & R, int reg, uint32_t k)
   {
      emit(out, "clear " + R + " 1");
      for (uint32_t i=0; i<k; i++) emit(out, "addtail " + R + " " + u64s(genVal(r, reg) | 1));   // non-default values
   }
   void rotate(Rng & r, FILE * out, const std::string & R, int reg, uint32_t steps)
   {
      for (uint32_t i=0; (i<steps)&&(cur->count(reg) > 0); i++) {emit(out, "remhead " + R); emit(out, "addtail " + R + " " + u64s(genVal(r, reg) | 1));}
   }
   // a wrapped window; then a multi-item removal that lands the head exactly on the physical end of the array
   // (head + m == slots), resp. the tail exactly below slot 0; then one single-item op or Normalize()
   void scWrapEnd(Rng & r, FILE * out)
   {
      const int reg = (int)r.below(NREGS); const std::string R = u64s((uint64_t)reg);
      emit(out, "clear " + R + " 1");
      if (r.chance(2,3)) {static const uint32_t caps[] = {4, 5, 6, 8, 9, 16}; emit(out, "ensure " + R + " " + u64s(caps[r.below(6)]) + " 0 0 0");}
      else emit(out, "addtail " + R + " " + u64s(genVal(r, reg)));   // inline buffer
      uint32_t guard = 0;
      while ((cur->count(reg)+1 < cur->cap(reg))&&(guard++ < 40)) emit(out, "addtail " + R + " " + u64s(genVal(r, reg)));
      const uint32_t cap = cur->cap(reg);
      if ((cap < 3)||(cur->count(reg)+1 != cap)) return;
      const uint32_t want = 2 + r.below(cap-2);
      guard = 0;
      while ((cur->headOff(reg) != want)&&(guard++ < 80)) {emit(out, "remhead " + R); emit(out, "addtail " + R + " " + u64s(genVal(r, reg)));}
      const uint32_t h = cur->headOff(reg);
      if (r.chance(2,3)) emit(out, "remheadm " + R + " " + u64s(cap-h));   // head + m == slots
      else emit(out, "remtailm " + R + " " + u64s(h-1));                   // tail - m == -1
      switch(r.below(9))
      {
         case 0: emit(out, "addhead " + R + " " + u64s(genVal(r, reg))); break;
         case 1: emit(out, "remhead " + R); break;
         case 2: emit(out, "norm " + R); break;
         case 3: emit(out, "addtail " + R + " " + u64s(genVal(r, reg))); break;
         case 4: emit(out, "headget " + R + " " + u64s(genVal(r, reg))); break;
         case 5: emit(out, "remtail " + R); break;
         case 6: emit(out, "remat " + R + " 0"); break;
         case 7: emit(out, "ins " + R + " 1 " + u64s(genVal(r, reg))); break;
         default: emit(out, "get " + R + " 0"); break;
      }
      emit(out, "dump " + R);
      emit(out, "norm " + R);
      emit(out, "dump " + R);
   }
   // an inline (or heap) Queue with items is emptied in every possible way, then grows by size-setting / slot hand-out
   void scEmptyThenGrow(Rng & r, FILE * out)
   {
      const int reg = (int)r.below(NREGS), oth = (reg+1)%NREGS; const std::string R = u64s((uint64_t)reg), E = u64s((uint64_t)oth);
      const uint32_t sq = cur->sq();
      fillInline(r, out, R, reg, r.chance(3,4) ? r.range(1, sq) : r.range(sq+1, sq+4));
      if (r.chance(1,2)) rotate(r, out, R, reg, r.range(1, sq));
      const uint32_t how = r.below(11);
      if ((how >= 2)&&(how <= 6)) emit(out, "clear " + E + " " + u64s(r.below(2)));
      switch(how)
      {
         case 0: emit(out, "clear " + R + " 1"); break;
         case 1: emit(out, "clear " + R + " 0"); break;
         case 2: emit(out, "copy " + R + " " + E); break;        // q = emptyQueue
         case 3: emit(out, "copyfrom " + R + " " + E); break;
         case 4: emit(out, "move " + R + " " + E); break;        // q = Queue<T>()
         case 5: emit(out, "swapc " + R + " " + E); break;
         case 6: emit(out, "movector " + E + " " + R); break;
         case 7: emit(out, "remheadm " + R + " 4294967295"); break;
         case 8: emit(out, "remtailm " + R + " 4294967295"); break;
         case 9: emit(out, "ensure " + R + " 0 1 0 " + u64s(r.below(2))); break;
         default: {uint32_t g = 0; while ((cur->count(reg))&&(g++ < 20)) emit(out, r.chance(1,2) ? ("remhead " + R) : ("remtail " + R));} break;
      }
      switch(r.below(6))
      {
         case 0: case 1: emit(out, "ensure " + R + " " + u64s(r.range(1, sq+1)) + " 1 0 0"); break;
         case 2: emit(out, "tailget " + R); break;
         case 3: emit(out, "headget " + R); break;
         case 4: emit(out, "shrinkfit " + R + " 0"); emit(out, "ensure " + R + " " + u64s(sq) + " 1 0 0"); break;
         default: emit(out, "addtaild " + R); break;
      }
      emit(out, "dump " + R);   // owning types: the handed-out item must be a default item; trivial types: unspecified (model prints ?)
      {const int ua = unspecAt(cur->ref(reg).d); if (ua >= 0) emit(out, "set " + R + " " + u64s((uint64_t)ua) + " " + u64s(genVal(r, reg)));}
      emit(out, "dump " + R);
      emit(out, "dump " + E);
   }
   // transfer (move / move construction / swap / copy) between every combination of inline-with-head-offset, heap and never-allocated Queues,
   // then the shrink + size-setting growth that would show an item left behind
   void scTransfer(Rng & r, FILE * out)
   {
      const int reg = (int)r.below(NREGS), oth = (reg+1)%NREGS; const std::string R = u64s((uint64_t)reg), S = u64s((uint64_t)oth);
      const uint32_t sq = cur->sq();
      for (int side=0; side<2; side++)
      {
         const int g = side ? oth : reg; const std::string G = side ? S : R;
         switch(r.below(4))
         {
            case 0: emit(out, "clear " + G + " 1"); break;                                                // never allocated / released
            case 1: fillInline(r, out, G, g, r.range(1, sq)); break;                                      // inline, head 0
            case 2: fillInline(r, out, G, g, sq); {const uint32_t h = r.range(1, sq); for (uint32_t i=0; i<h; i++) emit(out, "remhead " + G); const uint32_t a = r.below(h+1); for (uint32_t i=0; i<a; i++) emit(out, "addtail " + G + " " + u64s(genVal(r, g) | 1));} break;   // inline, head offset != 0, possibly wrapped
            default: fillInline(r, out, G, g, r.range(sq+1, sq+5)); if (r.chance(1,2)) rotate(r, out, G, g, r.range(1, 3)); break;   // heap
         }
      }
      static const char * how[] = {"move ", "movector ", "swapc ", "copy ", "copyctor ", "copyfrom "};
      emit(out, std::string(how[r.below(6)]) + R + " " + S);
      emit(out, "dump " + R); emit(out, "dump " + S);
      for (int side=0; side<2; side++)
      {
         const int g = side ? oth : reg; const std::string G = side ? S : R;
         if ((cur->count(g) > 1)&&(r.chance(1,2))) emit(out, "remtailm " + G + " " + u64s(cur->count(g)-1));
         if (r.chance(1,2)) emit(out, "shrinkfit " + G + " 0");
         emit(out, "ensure " + G + " " + u64s(r.range(1, sq+1)) + " 1 0 0");
         emit(out, "dump " + G);
      }
   }
   // the Queue itself (or items inside it) as the argument, with and without spare slots, with and without a wrapped window
   void scSelfAlias(Rng & r, FILE * out)
   {
      const int reg = (int)r.below(NREGS); const std::string R = u64s((uint64_t)reg);
      const uint32_t k = r.range(2, 6);
      fillInline(r, out, R, reg, k);
      if (r.chance(2,3)) emit(out, "ensure " + R + " " + u64s(k + r.range(0, 2*k+2)) + " 0 0 0");   // spare slots: none .. plenty
      if (r.chance(1,2)) rotate(r, out, R, reg, r.range(1, 4));
      const uint32_t cnt = cur->count(reg); if (cnt == 0) return;
      const uint64_t start = r.chance(1,2) ? 0 : r.below(cnt), num = r.chance(1,2) ? 4294967295ULL : r.range(1, cnt);
      const uint64_t idx = r.chance(1,3) ? 0 : (r.chance(1,2) ? cnt : r.below(cnt+1));
      switch(r.below(12))
      {
         case 0: case 1: emit(out, "addheadq " + R + " " + R + " " + u64s(start) + " " + u64s(num)); break;
         case 2: emit(out, "addtailq " + R + " " + R + " " + u64s(start) + " " + u64s(num)); break;
         case 3: case 4: emit(out, "insq " + R + " " + u64s(idx) + " " + R + " " + u64s(start) + " " + u64s(num)); break;
         case 5: case 6: emit(out, "insap " + R + " " + u64s(idx) + " " + u64s(r.below(cnt)) + " " + u64s(r.range(1, 4))); break;
         case 7: emit(out, "addheadap " + R + " " + u64s(r.below(cnt)) + " " + u64s(r.range(1, 4))); break;
         case 8: emit(out, "addtailap " + R + " " + u64s(r.below(cnt)) + " " + u64s(r.range(1, 4))); break;
         case 9: emit(out, "insat " + R + " " + u64s(idx) + " " + u64s(r.below(cnt))); break;
         case 10: emit(out, (r.chance(1,2) ? "addheadat " : "addtailat ") + R + " " + u64s(r.below(cnt))); break;
         default: {static const char * k4[] = {"copy ", "copyfrom ", "swapc ", "move "}; emit(out, std::string(k4[r.below(4)]) + R + " " + R);} break;
      }
      emit(out, "dump " + R);
   }
   void genScenario(Rng & r, FILE * out)
   {
      switch(r.below(4))
      {
         case 0: scWrapEnd(r, out); break;
         case 1: scEmptyThenGrow(r, out); break;
         case 2: scTransfer(r, out); break;
         default: scSelfAlias(r, out); break;
      }
   }

   virtual void gen(Rng & r, const Tier & tier, FILE * out)
   {
      const uint32_t ncases = tier.thorough ? 12000 : 1000;
      for (uint32_t c=0; c<ncases; c++)
      {
         fprintf(out, "case %u\n", c*tier.nshards + tier.shard);
         reset();
         const int t = (int)((c + tier.shard) % 3);
         emit(out, "new " + u64s((uint64_t)t) + " " + u64s(bank(t)->sq()));
         const uint32_t nops = r.range(3, tier.thorough ? 160 : 90);
         const int mode = (int)r.below(5);
         const uint32_t scAt = r.chance(1,2) ? r.below(nops) : nops;   // half of the cases contain one boundary-directed scenario, in whatever state the case is in
         for (uint32_t i=0; i<nops; i++) {if (i == scAt) genScenario(r, out); genOp(r, out, mode);}
         for (int reg=0; reg<NREGS; reg++) {emit(out, "dump " + u64s((uint64_t)reg)); emit(out, "norm " + u64s((uint64_t)reg)); emit(out, "dump " + u64s((uint64_t)reg));}
      }
   }
};

int main(int argc, char ** argv) {QEngine e; e.b0.reset(); e.b1.reset(); e.b2.reset(); return harnessMain(argc, argv, e);}
