// Canonical dump of a Message through the public getters only; must print exactly what
// `Muscle.Wire.dumpMsg` prints for the corresponding model value.
#ifndef VERIF_MSGDUMP_H
#define VERIF_MSGDUMP_H
#include "libvh/vh.h"
#include "message/Message.h"
#include "util/ByteBuffer.h"

static inline std::string dumpMsg(const muscle::Message & m);

static inline std::string dumpItem(const muscle::Message & m, const muscle::String & fn, uint32_t tc, uint32_t i)
{
   using namespace muscle;
   uint8_t b[16];
   switch(tc)
   {
      case B_BOOL_TYPE:   {bool v = false; if (m.FindBool(fn, i, v).IsError()) return "!"; b[0] = v ? 1 : 0; return vh::hexOf(b, 1);}
      case B_INT8_TYPE:   {int8 v = 0;   if (m.FindInt8(fn, i, v).IsError())   return "!"; memcpy(b, &v, 1); return vh::hexOf(b, 1);}
      case B_INT16_TYPE:  {int16 v = 0;  if (m.FindInt16(fn, i, v).IsError())  return "!"; memcpy(b, &v, 2); return vh::hexOf(b, 2);}
      case B_INT32_TYPE:  {int32 v = 0;  if (m.FindInt32(fn, i, v).IsError())  return "!"; memcpy(b, &v, 4); return vh::hexOf(b, 4);}
      case B_INT64_TYPE:  {int64 v = 0;  if (m.FindInt64(fn, i, v).IsError())  return "!"; memcpy(b, &v, 8); return vh::hexOf(b, 8);}
      case B_FLOAT_TYPE:  {float v = 0;  if (m.FindFloat(fn, i, v).IsError())  return "!"; memcpy(b, &v, 4); return vh::hexOf(b, 4);}
      case B_DOUBLE_TYPE: {double v = 0; if (m.FindDouble(fn, i, v).IsError()) return "!"; memcpy(b, &v, 8); return vh::hexOf(b, 8);}
      case B_POINT_TYPE:
      {
         Point p; if (m.FindPoint(fn, i, p).IsError()) return "!";
         const float f[2] = {p.x(), p.y()}; memcpy(b, f, 8); return vh::hexOf(b, 8);
      }
      case B_RECT_TYPE:
      {
         Rect r; if (m.FindRect(fn, i, r).IsError()) return "!";
         const float f[4] = {r.left(), r.top(), r.right(), r.bottom()}; memcpy(b, f, 16); return vh::hexOf(b, 16);
      }
      case B_STRING_TYPE:
      {
         const String * s = NULL; if ((m.FindString(fn, i, &s).IsError())||(s == NULL)) return "!";
         return vh::hexOf((const uint8_t *)s->Cstr(), s->Length());
      }
      case B_MESSAGE_TYPE:
      {
         ConstMessageRef sub; if ((m.FindMessage(fn, i, sub).IsError())||(sub() == NULL)) return "!";
         return dumpMsg(*sub());
      }
      case B_POINTER_TYPE: case B_TAG_TYPE: return "";
      default:
      {
         FlatCountableRef fc; if ((m.FindFlat(fn, i, fc).IsError())||(fc() == NULL)) return "!";
         const ByteBuffer * bb = dynamic_cast<const ByteBuffer *>(fc());
         if (bb == NULL) return "!";
         return vh::hexOf(bb->GetBuffer(), bb->GetNumBytes());
      }
   }
}

static inline std::string dumpMsg(const muscle::Message & m)
{
   using namespace muscle;
   std::string s = "{" + vh::u64s(m.what);
   for (MessageFieldNameIterator it = m.GetFieldNameIterator(); it.HasData(); it++)
   {
      const String & fn = it.GetFieldName();
      uint32 tc = 0, cnt = 0;
      if (m.GetInfo(fn, &tc, &cnt).IsError()) {s += " !"; continue;}
      s += " " + vh::hexOf((const uint8_t *)fn.Cstr(), fn.Length()) + ":" + vh::u64s(tc) + ":" + vh::u64s(cnt) + "[";
      if ((tc != B_POINTER_TYPE)&&(tc != B_TAG_TYPE))
         for (uint32 i=0; i<cnt; i++) {if (i) s += ","; s += dumpItem(m, fn, tc, i);}
      s += "]";
   }
   s += "}";
   return s;
}
#endif
