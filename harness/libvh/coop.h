// libvh/coop.h — CoopScheduler: a deterministic cooperative scheduler for REAL threads running REAL muscle code.
//
// It installs `muscle_verif_hook` (system/VerifHooks.h, guard MUSCLE_VERIF_HOOKS).  Every *managed* thread parks on
// its own semaphore at each hook that concerns a *relevant* object and runs only when the controller (the harness's
// main thread) grants it.  Exactly one managed thread runs at any time; between two park points a thread runs
// undisturbed, so "one step" = everything a thread does from one park point to the next (for monitor-style code:
// one critical section, or one atomic operation, or one plain local action).  The scheduler keeps its own picture
// of what could block — mutex owner + recursion depth, pending notifications per WaitCondition, pending signal
// bytes per Thread socket pair, finished threads — so a granted step never blocks in the kernel, and "no grantable
// thread while some thread is unfinished" is a deadlock verdict.  Time is virtual: a timed wait ends only when the
// schedule contains a time-out event for that thread; the real clock is never consulted.
// See COOP.md (same directory) for how an engine plugs in.
#ifndef VERIF_COOP_H
#define VERIF_COOP_H

#ifndef MUSCLE_VERIF_HOOKS
# error "coop.h needs -DMUSCLE_VERIF_HOOKS (and a libmuscle.a built with it)"
#endif

#include <semaphore.h>
#include <pthread.h>
#include <stdint.h>
#include <stdio.h>
#include <stdlib.h>
#include <functional>
#include <map>
#include <mutex>
#include <condition_variable>
#include <set>
#include <string>
#include <thread>
#include <vector>
#include "system/VerifHooks.h"

namespace vh {

class CoopScheduler
{
public:
   enum ParkKind {PK_NONE=0, PK_START, PK_LOCK, PK_TRYLOCK, PK_WAIT, PK_NOTIFY, PK_ATOMIC, PK_JOIN, PK_SIGSEND, PK_SIGWAIT, PK_YIELD, PK_UNLOCK};

   struct Park {ParkKind kind; const void * obj; long arg; Park() : kind(PK_NONE), obj(NULL), arg(0) {}};

   /** What happened when the controller asked for one step */
   enum StepResult {STEP_SKIPPED=0,   // the named thread was not enabled (finished, or blocked): nothing happened
                    STEP_RAN};        // the thread ran from its park point to its next park point (or to its end)

   CoopScheduler() : _abort(false), _expectedNew(0), _allWC(false), _allThreads(false), _allAtomic(false), _running(0), _userEvent(NULL)
   {
      for (int i=0; i<MUSCLE_NUM_VH_KINDS; i++) _parkPolicy[i] = false;
      // hooks where a thread can block, or whose outcome depends on the interleaving, are park points by default
      _parkPolicy[MUSCLE_VH_MUTEX_LOCK] = _parkPolicy[MUSCLE_VH_MUTEX_TRYLOCK] = _parkPolicy[MUSCLE_VH_WC_WAIT] = true;
      _parkPolicy[MUSCLE_VH_ATOMIC_INC] = _parkPolicy[MUSCLE_VH_ATOMIC_DEC]    = true;
      _parkPolicy[MUSCLE_VH_THREAD_JOIN] = _parkPolicy[MUSCLE_VH_SIG_SEND]     = _parkPolicy[MUSCLE_VH_SIG_WAIT] = _parkPolicy[MUSCLE_VH_THREAD_START] = true;
      // MUTEX_UNLOCK, WC_NOTIFY, SIG_DRAIN, THREAD_SPAWN, THREAD_EXIT: bookkeeping only, unless setParkPolicy() says otherwise
      instance() = this;
   }

   ~CoopScheduler()
   {
      uninstall();
      shutdownWorkers();
      if (instance() == this) instance() = NULL;
   }

   // ------------------------------------------------------------------ configuration (call while no managed thread runs)

   void install()   {muscle_verif_hook = &CoopScheduler::hookTrampoline;}
   void uninstall() {if (muscle_verif_hook == &CoopScheduler::hookTrampoline) muscle_verif_hook = NULL;}

   /** Declares the object at (obj) model-relevant (a Mutex, WaitCondition, AtomicCounter or Thread). */
   void registerObject(const void * obj) {std::lock_guard<std::mutex> g(_m); _relevant.insert(obj);}

   /** Declares every hooked object whose address lies in [begin, begin+len) model-relevant. */
   void registerRange(const void * begin, size_t len) {std::lock_guard<std::mutex> g(_m); _ranges.push_back(std::make_pair((const char *)begin, (const char *)begin+len));}

   /** If true, every WaitCondition touched by a managed thread is model-relevant (for wait conditions that live in pools). */
   void setAllWaitConditionsRelevant(bool b) {_allWC = b;}

   /** If true, the THREAD_JOIN / SIG_SEND / SIG_WAIT / SIG_DRAIN hooks of EVERY muscle Thread object are model-relevant
     * (for Thread objects that the code under test creates itself, e.g. the pool threads of a ThreadPool). */
   void setAllThreadsRelevant(bool b) {_allThreads = b;}
   /** If true, every AtomicCounter incremented/decremented by a managed thread is model-relevant (for reference counts of
     * objects that are created while the run is in progress, C10). */
   void setAllAtomicCountersRelevant(bool b) {_allAtomic = b;}

   /** Makes hook kind (MUSCLE_VH_*) a park point (true) or pure bookkeeping (false), for relevant objects. */
   void setParkPolicy(int vhKind, bool park) {if ((vhKind > 0)&&(vhKind < MUSCLE_NUM_VH_KINDS)) _parkPolicy[vhKind] = park;}

   /** Optional observer, called with the scheduler's lock held on the thread that reached the hook, BEFORE bookkeeping.
     * It may call the *Locked() mutators below (e.g. closeSignalLocked on THREAD_EXIT). */
   typedef void (*UserEventFn)(CoopScheduler & s, int managedIdxOrMinus1, int vhKind, const void * obj, long arg, void * user);
   void setUserEvent(UserEventFn f, void * user) {_userEvent = f; _userArg = user;}

   /** Forgets all threads, registrations and bookkeeping of the previous run (the worker pool is kept). */
   void reset()
   {
      std::lock_guard<std::mutex> g(_m);
      for (size_t i=0; i<_threads.size(); i++) if ((_threads[i].own)&&(_threads[i].state == ST_FINISHED)) {sem_destroy(&_threads[i].own->jobSem); sem_destroy(&_threads[i].own->runSem); delete _threads[i].own;}   // adopted threads that have ended
      _threads.clear(); _relevant.clear(); _ranges.clear(); _owners.clear(); _pending.clear(); _sig.clear(); _sigClosed.clear(); _finishedObjs.clear();
      _abort = false; _expectedNew = 0; _running = 0; _trace.clear();
      for (size_t i=0; i<_spent.size(); i++) _idle.push_back(_spent[i]);
      _spent.clear();
   }

   // ------------------------------------------------------------------ threads

   /** Starts a managed thread running body() and returns once it is parked at its first park point (or has finished).
     * Threads are numbered 0, 1, 2 … in spawn order.  Threads created by muscle itself (Thread::StartInternalThread()) are
     * adopted through the THREAD_SPAWN/THREAD_START hooks and numbered the same way. */
   int spawn(const std::function<void()> & body)
   {
      Worker * w = obtainWorker();
      int idx;
      {
         std::unique_lock<std::mutex> g(_m);
         idx = (int) _threads.size();
         _threads.push_back(Rec());
         Rec & r = _threads.back();
         r.worker = w; r.state = ST_RUNNING; r.park = Park();
         _running++;
         w->job = body; w->idx = idx;
      }
      sem_post(&w->jobSem);
      waitQuiescent();
      return idx;
   }

   int numThreads() const {std::lock_guard<std::mutex> g(_m); return (int) _threads.size();}

   // ------------------------------------------------------------------ queries (valid while quiescent)

   bool finished(int i) const {std::lock_guard<std::mutex> g(_m); return ((i >= 0)&&(i < (int)_threads.size())) ? (_threads[i].state == ST_FINISHED) : true;}

   /** True iff thread i is parked at a point that can be granted without a time-out event. */
   bool runnable(int i) const {std::lock_guard<std::mutex> g(_m); return runnableLocked(i);}

   /** True iff a time-out event for thread i is legal now: parked in a timed wait with nothing pending. */
   bool timeoutEnabled(int i) const {std::lock_guard<std::mutex> g(_m); return timeoutEnabledLocked(i);}

   Park parkOf(int i) const {std::lock_guard<std::mutex> g(_m); return ((i >= 0)&&(i < (int)_threads.size())) ? _threads[i].park : Park();}

   bool allFinished() const
   {
      std::lock_guard<std::mutex> g(_m);
      for (size_t i=0; i<_threads.size(); i++) if (_threads[i].state != ST_FINISHED) return false;
      return true;
   }

   /** Deadlock verdict: some thread is unfinished, none is runnable, and no time-out event is legal. */
   bool deadlocked() const
   {
      std::lock_guard<std::mutex> g(_m);
      bool unfinished = false;
      for (size_t i=0; i<_threads.size(); i++)
      {
         if (_threads[i].state != ST_FINISHED) unfinished = true;
         if ((runnableLocked((int)i))||(timeoutEnabledLocked((int)i))) return false;
      }
      return unfinished;
   }

   uint32_t pendingNotifications(const void * wc) const {std::lock_guard<std::mutex> g(_m); std::map<const void *, uint32_t>::const_iterator it = _pending.find(wc); return (it == _pending.end()) ? 0 : it->second;}

   // ------------------------------------------------------------------ driving (controller thread only)

   /** Schedule event `i`: thread i takes one step if it is runnable; otherwise nothing happens (the SKIP rule). */
   StepResult grant(int i)
   {
      {
         std::unique_lock<std::mutex> g(_m);
         if (runnableLocked(i) == false) return STEP_SKIPPED;
         grantLocked(i, false);
      }
      waitQuiescent();
      return STEP_RAN;
   }

   /** Schedule event `T<i>`: the time-out of thread i's timed wait fires if that is legal now; otherwise nothing happens. */
   StepResult fireTimeout(int i)
   {
      {
         std::unique_lock<std::mutex> g(_m);
         if (timeoutEnabledLocked(i) == false) return STEP_SKIPPED;
         grantLocked(i, true);
      }
      waitQuiescent();
      return STEP_RAN;
   }

   /** The default continuation used after an explicit schedule is exhausted (the TAIL rule): the lowest-numbered
     * runnable thread steps; if there is none, the lowest-numbered legal time-out fires; if there is none either, stop.
     * Returns the index that stepped (>= 0), or -(i+2) for a time-out of thread i, or -1 for "stop". */
   int tailStep()
   {
      int pick = -1; bool to = false;
      {
         std::unique_lock<std::mutex> g(_m);
         for (size_t i=0; i<_threads.size(); i++) if (runnableLocked((int)i)) {pick = (int) i; break;}
         if (pick < 0) for (size_t i=0; i<_threads.size(); i++) if (timeoutEnabledLocked((int)i)) {pick = (int) i; to = true; break;}
         if (pick < 0) return -1;
         grantLocked(pick, to);
      }
      waitQuiescent();
      return to ? -(pick+2) : pick;
   }

   /** Ends a run whose threads are stuck: every later hook passes through, parked waits return "timed out", so that
     * thread bodies written to stop at the first error (check aborting()) unwind and finish.  Returns false if some
     * thread is parked on a mutex that another thread owns (cannot be unwound; the harness should _exit). */
   bool abortAll()
   {
      if (beginAbort() == false) return false;
      waitAllFinished();
      return true;
   }

   /** First half of abortAll(): releases every parked thread (later hooks pass through, parked waits return "timed out")
     * and returns at once, so that the controller can do what the released threads need in order to finish (e.g. destroy
     * the object whose internal threads are polling for their quit Message).  Follow with waitFinished()/waitAllFinished(). */
   bool beginAbort()
   {
      std::unique_lock<std::mutex> g(_m);
      for (size_t i=0; i<_threads.size(); i++)
      {
         const Rec & r = _threads[i];
         if ((r.state == ST_PARKED)&&((r.park.kind == PK_LOCK))&&(ownerOtherLocked(r.park.obj, (int)i))) return false;
      }
      _abort = true;
      for (size_t i=0; i<_threads.size(); i++)
      {
         Rec & r = _threads[i];
         if (r.state == ST_PARKED) {r.state = ST_RUNNING; r.grantResult = ((r.park.kind == PK_WAIT)||(r.park.kind == PK_SIGWAIT)) ? 1 : 0; _running++; sem_post(&(r.worker ? r.worker : r.own)->runSem);}
      }
      return true;
   }

   /** Blocks until managed thread i has finished (use after beginAbort()). */
   void waitFinished(int i)
   {
      std::unique_lock<std::mutex> g(_m);
      while((i >= 0)&&(i < (int)_threads.size())&&(_threads[i].state != ST_FINISHED)) _cv.wait(g);
   }

   /** Blocks until every managed thread has finished (use after beginAbort()). */
   void waitAllFinished()
   {
      std::unique_lock<std::mutex> g(_m);
      while(true)
      {
         bool all = true;
         for (size_t i=0; i<_threads.size(); i++) if (_threads[i].state != ST_FINISHED) all = false;
         if (all) break;
         _cv.wait(g);
      }
   }

   /** True once abortAll() was called: thread bodies should stop issuing operations. */
   bool aborting() const {return _abort;}

   /** An explicit park point for thread bodies (always grantable): separates two local actions into two steps. */
   static void yieldPoint(const void * tag = NULL) {CoopScheduler * s = instance(); if (s) (void) s->hook(-1, tag, 0);}

   /** Index of the calling managed thread, or -1 */
   static int currentIndex() {return tlIdx();}

   /** The scheduler's own log of granted steps: "<idx>:<parkkind>[:T]" per step (a function of the schedule alone). */
   const std::vector<std::string> & trace() const {return _trace;}

   // mutators for the user-event observer (scheduler lock already held)
   void closeSignalLocked(const void * threadObj, long side) {_sigClosed.insert(std::make_pair(threadObj, side));}
   void addPendingLocked(const void * wc, uint32_t n) {_pending[wc] += n;}
   /** (C11) a restarted muscle Thread gets a fresh socket pair: no byte pending, nothing closed */
   void reopenSignalLocked(const void * threadObj, long side) {_sigClosed.erase(std::make_pair(threadObj, side)); _sig[std::make_pair(threadObj, side)] = 0;}
   /** (C11) a restarted muscle Thread is joinable again only when its NEW internal thread reaches THREAD_EXIT */
   void clearFinishedLocked(const void * threadObj) {_finishedObjs.erase(threadObj);}
   /** (C11) WaitForInternalThreadToExit() on a Thread that is not running returns at once: make the THREAD_JOIN park grantable */
   void markFinishedLocked(const void * threadObj) {_finishedObjs.insert(threadObj);}
   uint32_t signalBytes(const void * threadObj, long side) const {std::lock_guard<std::mutex> g(_m); std::map<std::pair<const void *, long>, uint32_t>::const_iterator it = _sig.find(std::make_pair(threadObj, side)); return (it == _sig.end()) ? 0 : it->second;}
   bool signalClosed(const void * threadObj, long side) const {std::lock_guard<std::mutex> g(_m); return _sigClosed.count(std::make_pair(threadObj, side)) > 0;}

private:
   enum State {ST_RUNNING, ST_PARKED, ST_FINISHED};

   struct Worker
   {
      sem_t jobSem, runSem;
      std::function<void()> job;
      int idx;
      bool quit;
      std::thread th;
      Worker() : idx(-1), quit(false) {sem_init(&jobSem, 0, 0); sem_init(&runSem, 0, 0);}
   };

   struct Rec
   {
      Worker * worker;      // NULL for threads adopted through THREAD_START (they park on `own`)
      Worker * own;
      State state;
      Park park;
      int grantResult;
      const void * threadObj;   // muscle Thread object of an adopted thread
      Rec() : worker(NULL), own(NULL), state(ST_RUNNING), grantResult(0), threadObj(NULL) {}
   };

   static CoopScheduler * & instance() {static CoopScheduler * s = NULL; return s;}
   static int & tlIdx() {static thread_local int idx = -1; return idx;}
   static Worker * & tlWorker() {static thread_local Worker * w = NULL; return w;}

   static int hookTrampoline(int kind, const void * obj, long arg) {CoopScheduler * s = instance(); return s ? s->hook(kind, obj, arg) : 0;}

   bool relevantLocked(int kind, const void * obj) const
   {
      if (_relevant.count(obj)) return true;
      for (size_t i=0; i<_ranges.size(); i++) if (((const char *)obj >= _ranges[i].first)&&((const char *)obj < _ranges[i].second)) return true;
      if ((_allWC)&&((kind == MUSCLE_VH_WC_WAIT)||(kind == MUSCLE_VH_WC_NOTIFY))) return true;
      if ((_allThreads)&&((kind == MUSCLE_VH_THREAD_JOIN)||(kind == MUSCLE_VH_SIG_SEND)||(kind == MUSCLE_VH_SIG_WAIT)||(kind == MUSCLE_VH_SIG_DRAIN))) return true;
      if ((_allAtomic)&&((kind == MUSCLE_VH_ATOMIC_INC)||(kind == MUSCLE_VH_ATOMIC_DEC))) return true;
      return false;
   }

   bool ownerOtherLocked(const void * mtx, int me) const
   {
      std::map<const void *, std::pair<int,int> >::const_iterator it = _owners.find(mtx);
      return ((it != _owners.end())&&(it->second.second > 0)&&(it->second.first != me));
   }

   bool runnableLocked(int i) const
   {
      if ((i < 0)||(i >= (int)_threads.size())) return false;
      const Rec & r = _threads[i];
      if (r.state != ST_PARKED) return false;
      switch(r.park.kind)
      {
         case PK_LOCK:    return (ownerOtherLocked(r.park.obj, i) == false);
         case PK_WAIT:    {std::map<const void *, uint32_t>::const_iterator it = _pending.find(r.park.obj); return ((it != _pending.end())&&(it->second > 0));}
         case PK_SIGWAIT: {const std::pair<const void *, long> k(r.park.obj, r.park.arg/2); std::map<std::pair<const void *, long>, uint32_t>::const_iterator it = _sig.find(k); return (((it != _sig.end())&&(it->second > 0))||(_sigClosed.count(k) > 0));}
         case PK_JOIN:    return (_finishedObjs.count(r.park.obj) > 0);
         default:         return true;   // START, TRYLOCK, NOTIFY, ATOMIC, SIGSEND, YIELD, UNLOCK never block
      }
   }

   bool timeoutEnabledLocked(int i) const
   {
      if ((i < 0)||(i >= (int)_threads.size())) return false;
      const Rec & r = _threads[i];
      if (r.state != ST_PARKED) return false;
      if ((r.park.kind == PK_WAIT)&&(r.park.arg != 0))    return (runnableLocked(i) == false);  // a pending notification wins over the time-out (as wait_until's predicate does)
      if ((r.park.kind == PK_SIGWAIT)&&(r.park.arg & 1))  return (runnableLocked(i) == false);
      return false;
   }

   // bookkeeping of the granted operation is done here, by the controller, so that the picture is complete before the thread moves
   void grantLocked(int i, bool timeout)
   {
      Rec & r = _threads[i];
      r.grantResult = 0;
      switch(r.park.kind)
      {
         case PK_LOCK:    {std::pair<int,int> & o = _owners[r.park.obj]; o.first = i; o.second = 1;} break;
         case PK_TRYLOCK: if (ownerOtherLocked(r.park.obj, i) == false) {std::pair<int,int> & o = _owners[r.park.obj]; if (o.second > 0) o.second++; else {o.first = i; o.second = 1;}} break;
         case PK_WAIT:    if (timeout) r.grantResult = 1; else {_pending[r.park.obj] = 0; r.grantResult = 2;} break;
         case PK_SIGWAIT: r.grantResult = timeout ? 1 : 2; break;
         case PK_NOTIFY:  _pending[r.park.obj] += (uint32_t) r.park.arg; break;
         case PK_SIGSEND: _sig[std::make_pair(r.park.obj, r.park.arg)]++; break;
         case PK_UNLOCK:  unlockLocked(r.park.obj, i); break;
         default:         break;
      }
      char buf[64]; snprintf(buf, sizeof(buf), "%d:%d%s", i, (int) r.park.kind, timeout?":T":""); _trace.push_back(buf);
      r.state = ST_RUNNING; r.park = Park();
      _running++;
      sem_post(&(r.worker ? r.worker : r.own)->runSem);
   }

   void unlockLocked(const void * obj, int me)
   {
      std::map<const void *, std::pair<int,int> >::iterator it = _owners.find(obj);
      if ((it != _owners.end())&&(it->second.first == me)&&(it->second.second > 0)) it->second.second--;
   }

   void waitQuiescent()
   {
      std::unique_lock<std::mutex> g(_m);
      while((_running > 0)||(_expectedNew > 0)) _cv.wait(g);
   }

   // Called on the thread that reached the hook.  kind == -1: explicit yieldPoint().
   int hook(int kind, const void * obj, long arg)
   {
      const int me = tlIdx();
      if ((me < 0)&&((kind == MUSCLE_VH_ATOMIC_INC)||(kind == MUSCLE_VH_ATOMIC_DEC))) return 0;   // fast path: reference counting on unmanaged threads needs no bookkeeping
      std::unique_lock<std::mutex> g(_m);
      if (_userEvent) _userEvent(*this, me, kind, obj, arg, _userArg);

      if (kind == MUSCLE_VH_THREAD_START)
      {
         if (_abort) return 0;
         // adoption of a thread created by muscle itself: it becomes managed thread number _threads.size()
         Worker * w = new Worker;   // only its runSem is used
         tlWorker() = w;
         const int idx = (int) _threads.size();
         tlIdx() = idx;
         _threads.push_back(Rec());
         Rec & r = _threads.back();
         r.own = w; r.threadObj = obj; r.state = ST_PARKED; r.park.kind = PK_START; r.park.obj = obj;
         if (_expectedNew > 0) _expectedNew--;
         _cv.notify_all();
         g.unlock();
         sem_wait(&w->runSem);
         return 0;
      }
      if (kind == MUSCLE_VH_THREAD_SPAWN) {if ((me >= 0)&&(_abort == false)) _expectedNew++; return 0;}
      if (kind == MUSCLE_VH_THREAD_EXIT)
      {
         _finishedObjs.insert(obj);
         if ((me >= 0)&&(me < (int)_threads.size())&&(_threads[me].own))
         {
            _threads[me].state = ST_FINISHED; if (_running > 0) _running--;
            tlIdx() = -1;
            _cv.notify_all();
         }
         return 0;
      }

      const bool rel = (kind == -1) ? true : relevantLocked(kind, obj);
      if (rel == false) return 0;

      // bookkeeping that must happen whoever the caller is (managed or not), when the hook is not a park point
      const bool parks = (me >= 0)&&(_abort == false)&&((kind == -1)||(_parkPolicy[kind]));
      ParkKind pk = PK_NONE;
      switch(kind)
      {
         case -1:                       if (parks == false) return 0;   // aborting (or an unmanaged thread): an explicit yield point passes through
                                        pk = PK_YIELD;   break;
         case MUSCLE_VH_MUTEX_LOCK:
         {
            std::pair<int,int> & o = _owners[obj];
            if ((me >= 0)&&(o.second > 0)&&(o.first == me)) {o.second++; return 0;}   // recursive re-lock: never yields
            if (parks == false) {if (me >= 0) {o.first = me; o.second = 1;} return 0;}
            pk = PK_LOCK;
         }
         break;
         case MUSCLE_VH_MUTEX_TRYLOCK:
            if (parks == false) {if ((me >= 0)&&(ownerOtherLocked(obj, me) == false)) {std::pair<int,int> & o = _owners[obj]; if (o.second > 0) o.second++; else {o.first = me; o.second = 1;}} return 0;}
            pk = PK_TRYLOCK;
         break;
         case MUSCLE_VH_MUTEX_UNLOCK:
            if (parks == false) {if (me >= 0) unlockLocked(obj, me); return 0;}
            pk = PK_UNLOCK;
         break;
         case MUSCLE_VH_WC_WAIT:
            if (parks == false) return _abort ? 1 : 0;
            pk = PK_WAIT;
         break;
         case MUSCLE_VH_WC_NOTIFY:
            if (parks == false) {_pending[obj] += (uint32_t) arg; return 0;}
            pk = PK_NOTIFY;
         break;
         case MUSCLE_VH_ATOMIC_INC: case MUSCLE_VH_ATOMIC_DEC:
            if (parks == false) return 0;
            pk = PK_ATOMIC;
         break;
         case MUSCLE_VH_THREAD_JOIN:
            if (parks == false) return 0;
            pk = PK_JOIN;
         break;
         case MUSCLE_VH_SIG_SEND:
            if (parks == false) {_sig[std::make_pair(obj, arg)]++; return 0;}
            pk = PK_SIGSEND;
         break;
         case MUSCLE_VH_SIG_DRAIN:
            _sig[std::make_pair(obj, arg)] = 0;
            return 0;
         case MUSCLE_VH_SIG_WAIT:
            if (parks == false) return _abort ? 1 : 0;
            pk = PK_SIGWAIT;
         break;
         default: return 0;
      }

      // park: hand control back to the controller and sleep until granted
      Rec & r = _threads[me];
      r.park.kind = pk; r.park.obj = obj; r.park.arg = arg;
      r.state = ST_PARKED;
      if (_running > 0) _running--;
      Worker * w = r.worker ? r.worker : r.own;
      _cv.notify_all();
      g.unlock();
      sem_wait(&w->runSem);
      g.lock();
      return _threads[me].grantResult;
   }

   // ---- worker pool: OS threads are reused from run to run (thread creation is slow under ASan)
   Worker * obtainWorker()
   {
      {
         std::lock_guard<std::mutex> g(_m);
         if (_idle.empty() == false) {Worker * w = _idle.back(); _idle.pop_back(); return w;}
      }
      Worker * w = new Worker;
      _all.push_back(w);
      w->th = std::thread(&CoopScheduler::workerMain, this, w);
      return w;
   }

   void workerMain(Worker * w)
   {
      tlWorker() = w;
      while(true)
      {
         sem_wait(&w->jobSem);
         if (w->quit) return;
         tlIdx() = w->idx;
         w->job();
         w->job = std::function<void()>();
         {
            std::lock_guard<std::mutex> g(_m);
            const int me = tlIdx();
            if ((me >= 0)&&(me < (int)_threads.size())) {_threads[me].state = ST_FINISHED; _threads[me].park = Park();}
            if (_running > 0) _running--;
            tlIdx() = -1;
            _spent.push_back(w);   // not reusable before reset(): two managed threads of one run must never share an OS thread (thread ids are keys in the code under test)
            _cv.notify_all();
         }
      }
   }

   void shutdownWorkers()
   {
      for (size_t i=0; i<_all.size(); i++) {_all[i]->quit = true; sem_post(&_all[i]->jobSem);}
      for (size_t i=0; i<_all.size(); i++) {if (_all[i]->th.joinable()) _all[i]->th.join(); delete _all[i];}
      _all.clear(); _idle.clear(); _spent.clear();
   }

   mutable std::mutex _m;
   std::condition_variable _cv;
   std::vector<Rec> _threads;
   std::set<const void *> _relevant;
   std::vector<std::pair<const char *, const char *> > _ranges;
   std::map<const void *, std::pair<int,int> > _owners;          // mutex -> (owner index, recursion depth)
   std::map<const void *, uint32_t> _pending;                    // wait condition -> pending notifications
   std::map<std::pair<const void *, long>, uint32_t> _sig;       // (Thread, side) -> signal bytes in the socket pair
   std::set<std::pair<const void *, long> > _sigClosed;          // (Thread, side) whose peer socket was closed (reads as ready)
   std::set<const void *> _finishedObjs;                         // Thread objects whose internal thread reached THREAD_EXIT
   volatile bool _abort;
   int _expectedNew;
   bool _allWC;
   bool _allThreads;
   bool _allAtomic;
   int _running;
   bool _parkPolicy[MUSCLE_NUM_VH_KINDS];
   UserEventFn _userEvent; void * _userArg;
   std::vector<Worker *> _all, _idle, _spent;
   std::vector<std::string> _trace;
};

} // namespace vh
#endif
