// libvh: shared helpers for the correspondence harnesses (header-only).
//  - one PRNG (SplitMix64) from which every random choice derives
//  - the op-line protocol: tokens separated by one space, byte strings as `x<hex>`
//  - main(): `gen <seed> <tier> <shard> <nshards>` writes op lines to stdout;
//            `run [--oracle <file>]` reads op lines from stdin, executes them against the
//            real code, writes exactly one result line per op line to stdout and one
//            `ORACLE case=<n> line=<k> <message>` line per direct-oracle failure to the oracle file.
//  - generator crash protocol: a generator that EXECUTES what it generates may die in the real code.  In gen mode
//    harnessMain installs fatal handlers (SIGABRT/SIGSEGV/…, the sanitizers' death callback) that flush stdout and
//    append the op line registered with `vh::genPending(line)` (unless the engine already wrote it), so that the
//    partial op file ends with the line in progress and the crash reproduces, shrinks and replays in `run` mode.
#ifndef VERIF_VH_H
#define VERIF_VH_H

#include <stdint.h>
#include <stdio.h>
#include <stdlib.h>
#include <string.h>
#include <string>
#include <vector>
#include <sstream>
#include <iostream>
#include <signal.h>

namespace vh {

struct Rng
{
   uint64_t s;
   explicit Rng(uint64_t seed) : s(seed) {}
   uint64_t next() {uint64_t z = (s += 0x9E3779B97F4A7C15ULL); z = (z ^ (z >> 30)) * 0xBF58476D1CE4E5B9ULL; z = (z ^ (z >> 27)) * 0x94D049BB133111EBULL; return z ^ (z >> 31);}
   uint32_t below(uint32_t n) {return n ? (uint32_t)(next() % n) : 0;}   // [0,n)
   uint32_t range(uint32_t lo, uint32_t hi) {return lo + below(hi-lo+1);}  // [lo,hi]
   bool chance(uint32_t num, uint32_t den) {return below(den) < num;}
   template<typename T> const T & pick(const std::vector<T> & v) {return v[below((uint32_t)v.size())];}
};

inline std::string hexOf(const uint8_t * p, size_t n)
{
   static const char * d = "0123456789abcdef";
   std::string s; s.reserve(1+2*n); s.push_back('x');
   for (size_t i=0; i<n; i++) {s.push_back(d[p[i]>>4]); s.push_back(d[p[i]&15]);}
   return s;
}
inline std::string hexOf(const std::string & b) {return hexOf((const uint8_t *)b.data(), b.size());}
inline std::string hexOf(const std::vector<uint8_t> & b) {return hexOf(b.data(), b.size());}

inline int hv(char c) {return (c>='0'&&c<='9') ? c-'0' : (c>='a'&&c<='f') ? c-'a'+10 : (c>='A'&&c<='F') ? c-'A'+10 : -1;}
inline bool unhex(const std::string & tok, std::string & out)
{
   out.clear();
   if ((tok.size() < 1)||(tok[0] != 'x')||((tok.size()-1)%2)) return false;
   for (size_t i=1; i<tok.size(); i+=2) {int a=hv(tok[i]), b=hv(tok[i+1]); if ((a<0)||(b<0)) return false; out.push_back((char)(a*16+b));}
   return true;
}

inline std::vector<std::string> split(const std::string & line, char sep = ' ')
{
   std::vector<std::string> r; std::string cur;
   for (size_t i=0; i<line.size(); i++)
   {
      const char c = line[i];
      if ((c == sep)||(c == '\n')||(c == '\r')) {if ((!cur.empty())||(sep != ' ')) r.push_back(cur); cur.clear();}
      else cur.push_back(c);
   }
   if ((!cur.empty())||((sep != ' ')&&(!line.empty()))) r.push_back(cur);
   return r;
}

inline bool toU64(const std::string & s, uint64_t & v)
{
   if (s.empty()) return false;
   v = 0;
   for (size_t i=0; i<s.size(); i++) {if ((s[i]<'0')||(s[i]>'9')) return false; v = v*10 + (uint64_t)(s[i]-'0');}
   return true;
}
inline std::string u64s(uint64_t v) {char b[32]; snprintf(b, sizeof(b), "%llu", (unsigned long long)v); return b;}

struct Tier {bool thorough; uint32_t shard, nshards;};

// ---- oracle reporting -------------------------------------------------------------------------
static FILE * g_oracle = NULL;
static long g_case = -1, g_line = 0;
inline void oracleFail(const std::string & msg)
{
   FILE * f = g_oracle ? g_oracle : stderr;
   fprintf(f, "ORACLE case=%ld line=%ld %s\n", g_case, g_line, msg.c_str());
   fflush(f);
}

// ---- generator crash protocol -----------------------------------------------------------------
static bool g_genMode = false;
static std::string g_genPendingLine;
// the op line about to be executed by the generator itself (not yet written to stdout); "" = nothing pending
inline void genPending(const std::string & line) {if (g_genMode) g_genPendingLine = line;}
inline void genPendingClear() {g_genPendingLine.clear();}
inline void genFatalFlush()
{
   static bool once = false;
   if ((!g_genMode)||(once)) return;
   once = true;
   fflush(stdout);   // lines already emitted (an engine that writes a line before executing it is covered by this alone)
   if (!g_genPendingLine.empty()) {fputs(g_genPendingLine.c_str(), stdout); fputc('\n', stdout); fflush(stdout);}
}
inline void genFatalSignal(int sig) {genFatalFlush(); signal(sig, SIG_DFL); raise(sig);}
extern "C" void __sanitizer_set_death_callback(void (*cb)(void)) __attribute__((weak));
inline void genInstallFatalHandlers()
{
   g_genMode = true;
   signal(SIGABRT, genFatalSignal);
   if (__sanitizer_set_death_callback) __sanitizer_set_death_callback(genFatalFlush);   // ASan/UBSan report first, then call this
   else {signal(SIGSEGV, genFatalSignal); signal(SIGBUS, genFatalSignal); signal(SIGFPE, genFatalSignal); signal(SIGILL, genFatalSignal);}
}

// ---- engine interface -------------------------------------------------------------------------
struct Engine
{
   virtual ~Engine() {}
   virtual void gen(Rng & rng, const Tier & tier, FILE * out) = 0;      // write op lines (each case starts with `case <n>`)
   virtual void reset() = 0;                                            // called at each `case` line
   virtual std::string step(const std::vector<std::string> & toks) = 0; // one result line (no newline)
};

inline int harnessMain(int argc, char ** argv, Engine & e)
{
   if ((argc >= 2)&&(strcmp(argv[1], "gen") == 0))
   {
      const uint64_t seed = (argc > 2) ? strtoull(argv[2], NULL, 10) : 1;
      Tier t; t.thorough = (argc > 3)&&(strcmp(argv[3], "thorough") == 0);
      t.shard   = (argc > 4) ? (uint32_t)atoi(argv[4]) : 0;
      t.nshards = (argc > 5) ? (uint32_t)atoi(argv[5]) : 1;
      Rng rng(seed*1000003ULL + t.shard*7919ULL + (t.thorough?17:0));
      genInstallFatalHandlers();
      e.gen(rng, t, stdout);
      fflush(stdout);
      return 0;
   }
   if ((argc >= 2)&&(strcmp(argv[1], "run") == 0))
   {
      for (int i=2; i+1<argc; i++) if (strcmp(argv[i], "--oracle") == 0) g_oracle = fopen(argv[i+1], "w");
      std::string line;
      char * buf = NULL; size_t cap = 0; ssize_t n;
      while((n = getline(&buf, &cap, stdin)) >= 0)
      {
         g_line++;
         line.assign(buf, (size_t)n);
         std::vector<std::string> toks = split(line);
         if (toks.empty()) continue;
         if ((toks[0] == "case")&&(toks.size() == 2))
         {
            fflush(stdout);
            g_case = atol(toks[1].c_str());
            e.reset();
            printf("case %s\n", toks[1].c_str());
            fflush(stdout);
            continue;
         }
         const std::string r = e.step(toks);
         fputs(r.c_str(), stdout); fputc('\n', stdout);
      }
      fflush(stdout);
      if (g_oracle) fclose(g_oracle);
      return 0;
   }
   fprintf(stderr, "usage: %s gen <seed> <quick|thorough> <shard> <nshards> | run [--oracle file] < ops\n", argv[0]);
   return 2;
}

} // namespace vh
#endif
