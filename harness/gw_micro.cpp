// The real lang/c/micromessage code of /repo, compiled into the gw harness behind the CGw interface.
// (gw.cpp includes gw_mini.cpp and this file into ONE translation unit, so that the build script tracks all dependencies:
//  statics that the mini and micro sources both define are renamed here)
#define DoIndent UM_DoIndent
#define _MUSCLE_MESSAGE_ENCODING_DEFAULT UG_MUSCLE_MESSAGE_ENCODING_DEFAULT
#include "lang/c/micromessage/MicroMessage.c"
// both .c files define the same static helpers: rename the second set
#define MESSAGE_HEADER_SIZE UG_MESSAGE_HEADER_SIZE
#define UMWriteInt32 UG_UMWriteInt32
#define UMReadInt32 UG_UMReadInt32
#include "lang/c/micromessage/MicroMessageGateway.c"
#undef MESSAGE_HEADER_SIZE
#undef UMWriteInt32
#undef UMReadInt32
#undef DoIndent
#undef _MUSCLE_MESSAGE_ENCODING_DEFAULT
#include "gw_c.h"

struct MicroGw : public CGw
{
   enum {BUFSIZE = 192*1024};
   UMessageGateway gw;
   uint8 * inBuf; uint8 * outBuf;
   MicroGw() : inBuf((uint8 *) malloc(BUFSIZE)), outBuf((uint8 *) malloc(BUFSIZE)) {UGGatewayInitialize(&gw, inBuf, BUFSIZE, outBuf, BUFSIZE);}
   virtual ~MicroGw() {free(inBuf); free(outBuf);}
   virtual bool add(const std::string & flat)
   {
      // the micro library builds Messages in place inside the gateway's output buffer; the harness
      // places the already-flattened bytes there (the framing code under test is the gateway's)
      UMessage m = UGGetOutgoingMessage(&gw, 0);
      if ((UMIsMessageValid(&m) == UFalse)||(UMGetMaximumSize(&m) < flat.size())) {if (UMIsMessageValid(&m)) UGOutgoingMessageCancelled(&gw, &m); return false;}
      uint8 * at = (uint8 *) UMGetFlattenedBuffer(&m);
      memcpy(at, flat.data(), flat.size());
      UMessage m2;
      if (UMInitializeWithExistingData(&m2, at, (uint32) flat.size()) != CB_NO_ERROR) {UGOutgoingMessageCancelled(&gw, &m); return false;}
      UGOutgoingMessagePrepared(&gw, &m2);
      return true;
   }
   virtual int32_t out(uint32_t maxBytes, GwIoFunc f, void * arg) {return UGDoOutput(&gw, maxBytes, (UGSendFunc) f, arg);}
   virtual bool hasOut() {return UGHasBytesToOutput(&gw) != 0;}
   virtual int32_t in(uint32_t maxBytes, GwIoFunc f, void * arg, std::string & flat, bool & got)
   {
      UMessage m;
      got = false;
      const int32 r = UGDoInput(&gw, maxBytes, (UGReceiveFunc) f, arg, &m);
      if (UMIsMessageValid(&m))
      {
         flat.assign((const char *) UMGetFlattenedBuffer(&m), UMGetFlattenedSize(&m));
         got = true;
      }
      return r;
   }
};
CGw * newMicroGw() {return new MicroGw;}
