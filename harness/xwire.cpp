// Engine `xwire` (C08): the op lines are those of engine `msg` (so the Lean model driver `msg` predicts the C++
// bytes from the documented layout); at every `flat r` the DIRECT ORACLE of C08 is evaluated on the implementations
// alone: the C mini codec, the C micro codec and the Python Message class must parse the C++ bytes to the same
// content and re-serialise it to the same bytes, the C++ parser must accept what they produce, and the 8-byte
// stream frame of the C++, C and Python gateways must be identical.
//
// Generator: like msg.cpp but restricted to the repertoire common to the implementations (all fixed-size numerics,
// bool, string, point, rect, raw data of any type code, nested Message; any counts, order, nesting; no pointer/tag
// fields, no corrupted encodings).  The Python pair is evaluated only when every field name and string of the
// Message (at every level) is valid UTF-8 (message.py decodes both as UTF-8).
#define main msg_cpp_main_unused
#include "msg.cpp"          // the op interpreter and the C01 oracle are reused as they are
#undef main
#include "cdialects.h"
#include "iogateway/MessageIOGateway.h"
#include "dataio/ByteBufferDataIO.h"

using namespace cd;

// Known disagreement still open (trigger in corpus/C08/xwire-known-py-snan.ops).  The generator keeps it out of the random
// stream BY CONSTRUCTION (see xF32pt below), the oracle itself is not loosened.
//   PY-SNAN    : message.py turns point/rect coordinates into Python floats; a signalling NaN comes back quiet
// Repaired in /repo (regression inputs in corpus/C08/xwire-regress-*.ops; the stream now contains their input classes):
//   PY-NAMELEN (FlattenedSize() of a non-ASCII field name), MICRO-EMPTYBLOB (UMFindData() on a zero-length last item).

struct XWireEngine : public MsgEngine
{
   PyDriver py;
   bool inGen;
   uint64_t nPy, nPySkipped, nFlat;
   XWireEngine() : inGen(false), nPy(0), nPySkipped(0), nFlat(0) {}
   virtual ~XWireEngine() {if ((!inGen)&&(nFlat)) fprintf(stderr, "xwire: %llu cross-checks, python pair evaluated on %llu, skipped (non-UTF-8) on %llu\n", (unsigned long long)nFlat, (unsigned long long)nPy, (unsigned long long)nPySkipped);}

   // ------------------------------------------------------------------ generator
   bool utf8Only;     // per case: names and strings valid UTF-8 (so that the Python pair is evaluated)

   std::string genUtf8(Rng & r, uint32_t nchars, bool asciiOnly)
   {
      static const char * multi[] = {"\xc3\xa9", "\xc2\x80", "\xdf\xbf", "\xe0\xa0\x80", "\xe2\x82\xac", "\xef\xbf\xbf", "\xf0\x90\x80\x80", "\xf0\x9f\x98\x80", "\xf4\x8f\xbf\xbf", "\xed\x9f\xbf"};
      std::string s;
      for (uint32_t i=0; i<nchars; i++)
      {
         if ((asciiOnly)||(r.chance(3,4))) s.push_back((char)r.range(1,127));
                                      else s += multi[r.below(sizeof(multi)/sizeof(multi[0]))];
      }
      return s;
   }
   std::string xName(Rng & r)
   {
      static const char * fixed[] = {"a", "b", "c", "name", "x y", "", "aaaaaaaaaaaaaaaaaaaaaaaaaaaaaaaaaaaaaaaaaaaaaaaaaaaaaaaaaaaaaaaaaaa", "f\xc3\xa9", "\xe2\x82\xac"};
      if (r.chance(3,4)) return fixed[r.below(5)];
      if (r.chance(1,2)) return fixed[r.below(utf8Only ? 9 : 7)];
      if (utf8Only) return genUtf8(r, r.range(1,6), r.chance(1,2));
      std::string s; const uint32_t n = r.range(1,6);
      for (uint32_t i=0; i<n; i++) s.push_back((char)r.range(1,255));   // arbitrary bytes: the Python pair is skipped unless they happen to be UTF-8
      return s;
   }
   std::string xStr(Rng & r)
   {
      if (!utf8Only) return genBytes(r, true);
      static const uint32_t lens[] = {0,0,1,2,3,4,5,7,8,11,12,13,16,31,32,33,63,64,100,255,256,300};
      uint32_t n = lens[r.below(sizeof(lens)/sizeof(lens[0]))];
      if (r.chance(1,50)) n = r.range(1000, 3000);
      return genUtf8(r, n, r.chance(1,3));
   }
   // float bit pattern for point/rect coordinates: every class except signalling NaNs (PY-SNAN)
   uint64_t xF32pt(Rng & r)
   {
      for (;;)
      {
         const uint32_t v = (uint32_t)genF32(r);
         const bool isNaN = (((v>>23)&0xFF) == 0xFF)&&((v & 0x7FFFFFu) != 0);
         if ((!isNaN)||(v & 0x00400000u)) return v;   // quiet bit set
      }
   }
   std::string xVal(Rng & r, int t)
   {
      switch(t)
      {
         case 7:  return "pt " + u64s(xF32pt(r)) + "," + u64s(xF32pt(r));
         case 8:  return "rc " + u64s(xF32pt(r)) + "," + u64s(xF32pt(r)) + "," + u64s(xF32pt(r)) + "," + u64s(xF32pt(r));
         case 9:  return "str " + hexOf(xStr(r));
         case 13: return genVal(r, 12);   // no pointer fields: a sub-Message instead
         case 14: return genVal(r, 11);   // no tag fields: raw data under an unusual type code instead
         default: return genVal(r, t);
      }
   }

   virtual void gen(Rng & r, const Tier & tier, FILE * out)
   {
      inGen = true;
      const uint32_t ncases = tier.thorough ? 6000 : 600;
      for (uint32_t c=0; c<ncases; c++)
      {
         fprintf(out, "case %u\n", c*tier.nshards + tier.shard);
         reset();
         utf8Only = r.chance(3,4);
         const uint32_t nops = r.range(1, tier.thorough ? 100 : 50);
         std::vector<std::string> names; std::vector<int> types;
         const uint32_t nf = r.range(1, r.chance(1,10) ? 12 : 5);
         for (uint32_t i=0; i<nf; i++) {names.push_back(xName(r)); types.push_back((int)r.below(15));}
         for (uint32_t i=0; i<nops; i++)
         {
            const uint32_t reg = r.below(r.chance(3,4) ? 2 : NREGS);
            const uint32_t k = r.below(nf);
            const std::string nm = hexOf(r.chance(19,20) ? names[k] : xName(r));
            const int ty = r.chance(19,20) ? types[k] : (int)r.below(15);
            const uint32_t what = r.below(100);
            const std::string R = u64s(reg);
            if      (what <  2) emit(out, "new " + R + " " + u64s(genBits(r,32)));
            else if (what <  5) emit(out, "copy " + R + " " + u64s(r.below(NREGS)));
            else if (what < 17) emit(out, "flat " + R);
            else if (what < 19) emit(out, "dump " + R);
            else if (what < 30) emit(out, "rem " + R + " " + nm + " " + u64s(r.chance(3,4) ? r.below(3) : r.below(6)));
            else if (what < 32) emit(out, "rmn " + R + " " + nm);
            else if (what < 35) emit(out, "ren " + R + " " + nm + " " + hexOf(names[r.below(nf)]));
            else if (what < 43) emit(out, "rep " + R + " " + u64s(r.below(2)) + " " + nm + " " + u64s(r.below(4)) + " " + xVal(r, ty));
            else if (what < 53) emit(out, "pre " + R + " " + nm + " " + xVal(r, ty));
            else if (what < 56)
            {
               // parse the (unmodified) encoding of some register into this register
               const Message & src = regs[r.below(NREGS)];
               std::vector<uint8_t> enc(src.FlattenedSize()); src.FlattenToBytes(enc.data());
               emit(out, "unflat " + R + " " + hexOf(enc));
            }
            else emit(out, "add " + R + " " + nm + " " + xVal(r, ty));
         }
         for (uint32_t reg=0; reg<2; reg++) emit(out, "flat " + u64s(reg));
      }
   }

   // ------------------------------------------------------------------ the direct oracle of C08
   static bool allUtf8(const Message & m)
   {
      for (MessageFieldNameIterator it = m.GetFieldNameIterator(); it.HasData(); it++)
      {
         const String & fn = it.GetFieldName();
         if (!isUtf8((const uint8_t *)fn(), fn.Length())) return false;
         uint32 tc, cnt; if (m.GetInfo(fn, &tc, &cnt).IsError()) continue;
         if (tc == B_STRING_TYPE) for (uint32 i=0; i<cnt; i++) {const String * s = NULL; if ((m.FindString(fn, i, &s).IsOK())&&(s)&&(!isUtf8((const uint8_t *)s->Cstr(), s->Length()))) return false;}
         if (tc == B_MESSAGE_TYPE) for (uint32 i=0; i<cnt; i++) {ConstMessageRef sub; if ((m.FindMessage(fn, i, sub).IsOK())&&(sub())&&(!allUtf8(*sub()))) return false;}
      }
      return true;
   }

   static std::string clip(const std::string & s) {return (s.size() > 600) ? s.substr(0, 600) + "..." : s;}
   static std::string diffAt(const std::vector<uint8_t> & a, const std::vector<uint8_t> & b)
   {
      size_t i = 0; while((i < a.size())&&(i < b.size())&&(a[i] == b[i])) i++;
      return "lengths " + u64s(b.size()) + " vs " + u64s(a.size()) + " (C++), first difference at offset " + u64s(i);
   }

   // the C++ parser must accept (bytes) and yield the dump (D)
   void cppAccepts(const char * who, const std::vector<uint8_t> & bytes, const std::string & D)
   {
      uint8_t * copy = (uint8_t *)malloc(bytes.size() ? bytes.size() : 1); memcpy(copy, bytes.data(), bytes.size());
      Message back;
      const status_t r = back.UnflattenFromBytes(copy, (uint32)bytes.size());
      free(copy);
      if (r.IsError()) {oracleFail(std::string(who) + ": the C++ parser rejects these bytes: " + clip(hexOf(bytes))); return;}
      const std::string d = dumpMsg(back);
      if (d != D) oracleFail(std::string(who) + ": the C++ parser reads different content: " + clip(d) + " instead of " + clip(D));
   }

   static int32 sendToVec(const uint8 * buf, uint32 n, void * arg) {std::vector<uint8_t> * v = (std::vector<uint8_t> *)arg; v->insert(v->end(), buf, buf+n); return (int32)n;}
   struct Feed {const std::vector<uint8_t> * v; size_t pos;};
   static int32 recvFromVec(uint8 * buf, uint32 n, void * arg)
   {
      Feed * f = (Feed *)arg; const size_t left = f->v->size()-f->pos; const uint32 k = (n < left) ? n : (uint32)left;
      if (k) memcpy(buf, f->v->data()+f->pos, k); f->pos += k; return (int32)k;
   }

   void crossOracle(const Message & m, const std::vector<uint8_t> & B)
   {
      nFlat++;
      const std::string D = dumpMsg(m);
      const uint32 len = (uint32)B.size();
      uint8_t * Bx = (uint8_t *)malloc(len); memcpy(Bx, B.data(), len);   // exact-size heap copy (ASan sees any overrun)

      // the 8-byte stream frame as the C++ gateway writes it (two paths: FlattenHeaderAndMessage, and a real DoOutput into a buffer)
      std::vector<uint8_t> F;
      {
         MessageIOGateway gw;
         MessageRef mr = GetMessageFromPool(m);
         ByteBufferRef f = gw.CallFlattenHeaderAndMessage(mr);
         if (f() == NULL) oracleFail("cpp: FlattenHeaderAndMessage failed");
         else
         {
            F.assign(f()->GetBuffer(), f()->GetBuffer()+f()->GetNumBytes());
            if ((F.size() != (size_t)len+8)||(memcmp(F.data()+8, B.data(), len) != 0)) oracleFail("cpp: frame body differs from Flatten(): " + clip(hexOf(F)));
            else
            {
               const uint32 l = (uint32)F[0] | ((uint32)F[1]<<8) | ((uint32)F[2]<<16) | ((uint32)F[3]<<24);
               const uint32 e = (uint32)F[4] | ((uint32)F[5]<<8) | ((uint32)F[6]<<16) | ((uint32)F[7]<<24);
               if ((l != len)||(e != (uint32)MUSCLE_MESSAGE_ENCODING_DEFAULT)) oracleFail("cpp: frame header is not (le32 length, le32 'Enc0'): " + hexOf(F.data(), 8));
            }
            ByteBufferRef sink = GetByteBufferFromPool();
            MessageIOGateway gw2;
            gw2.SetDataIO(DataIORef(new ByteBufferDataIO(sink)));
            (void) gw2.AddOutgoingMessage(GetMessageFromPool(m));
            for (int i=0; (i<1000)&&(gw2.HasBytesToOutput()); i++) if (gw2.DoOutput().IsError()) break;
            if ((sink() == NULL)||(sink()->GetNumBytes() != F.size())||(memcmp(sink()->GetBuffer(), F.data(), F.size()) != 0)) oracleFail("cpp: bytes written by MessageIOGateway::DoOutput differ from FlattenHeaderAndMessage");
            // and the C++ gateway reads its own frame back
            MessageRef back = gw.CallUnflattenHeaderAndMessage(f);
            if ((back() == NULL)||(dumpMsg(*back()) != D)) oracleFail("cpp: UnflattenHeaderAndMessage(FlattenHeaderAndMessage(m)) differs from m");
         }
      }

      // ---- mini codec
      {
         MMessage * mm = MMAllocMessage(0);
         if (MMUnflattenMessage(mm, Bx, len) != CB_NO_ERROR) oracleFail("mini: MMUnflattenMessage rejects the C++ bytes " + clip(hexOf(B)));
         else
         {
            const std::string d = dumpMini(mm);
            if (d != D) oracleFail("mini: content read from the C++ bytes differs: " + clip(d) + " instead of " + clip(D));
            const uint32 fs = MMGetFlattenedSize(mm);
            if (fs != len) oracleFail("mini: MMGetFlattenedSize = " + u64s(fs) + " but the C++ encoding has " + u64s(len) + " bytes");
            std::vector<uint8_t> out(fs); uint8_t * o = (uint8_t *)malloc(fs ? fs : 1); MMFlattenMessage(mm, o); out.assign(o, o+fs); free(o);
            if (out != B) oracleFail("mini: MMFlattenMessage(MMUnflattenMessage(bytes)) differs from the C++ bytes: " + diffAt(B, out));
            cppAccepts("mini (re-flattened)", out, D);
         }
         MMFreeMessage(mm);
         std::string err;
         MMessage * built = buildMini(m, err);
         if (built == NULL) oracleFail("mini: cannot build the Message through MMPut*Field: " + err);
         else
         {
            const uint32 fs = MMGetFlattenedSize(built);
            uint8_t * o = (uint8_t *)malloc(fs ? fs : 1); MMFlattenMessage(built, o); std::vector<uint8_t> out(o, o+fs); free(o);
            if (out != B) oracleFail("mini: Message built through MMPut*Field flattens differently from C++: " + diffAt(B, out) + " mini=" + clip(hexOf(out)) + " cpp=" + clip(hexOf(B)));
            cppAccepts("mini (built)", out, D);
            // frame written by MiniMessageGateway.c
            MMessageGateway * g = MGAllocMessageGateway();
            std::vector<uint8_t> fr;
            if ((g == NULL)||(MGAddOutgoingMessage(g, built) != CB_NO_ERROR)) oracleFail("mini: MGAddOutgoingMessage failed");
            else
            {
               for (int i=0; (i<100000)&&(MGHasBytesToOutput(g)); i++) if (MGDoOutput(g, 1+(i%97), sendToVec, &fr) < 0) break;   // small writes: the segmentation must not matter
               if (fr != F) oracleFail("mini: stream frame differs from the C++ gateway's: header " + hexOf(fr.data(), fr.size() < 8 ? fr.size() : 8) + " vs " + hexOf(F.data(), F.size() < 8 ? F.size() : 8) + ", " + diffAt(F, fr));
            }
            // MiniMessageGateway.c reads the C++ gateway's frame
            if (g)
            {
               Feed fd = {&F, 0}; MMessage * got = NULL;
               for (int i=0; (i<100000)&&(got == NULL)&&(fd.pos < F.size()); i++) if (MGDoInput(g, 1+(i%89), recvFromVec, &fd, &got) < 0) break;
               if (got == NULL) oracleFail("mini: MGDoInput does not deliver the Message framed by the C++ gateway");
               else {const std::string d = dumpMini(got); if (d != D) oracleFail("mini: MGDoInput delivers different content: " + clip(d)); MMFreeMessage(got);}
               MGFreeMessageGateway(g);
            }
            MMFreeMessage(built);
         }
      }

      // ---- micro codec
      {
         MuteStdout mute;   // the micro codec reports errors with printf()
         UMessage um;
         if (UMInitializeWithExistingData(&um, Bx, len) != CB_NO_ERROR) oracleFail("micro: UMInitializeWithExistingData rejects the C++ bytes");
         else
         {
            const std::string d = dumpMicro(&um, len+1);
            if (d != D) oracleFail("micro: content read from the C++ bytes differs: " + clip(d) + " instead of " + clip(D));
            if (UMGetFlattenedSize(&um) != len) oracleFail("micro: UMGetFlattenedSize differs");
         }
         for (int inl=0; inl<2; inl++)
         {
            // a buffer of EXACTLY the flattened size must be enough
            uint8_t * buf = (uint8_t *)malloc(len); memset(buf, 0xEE, len);
            UMessage w; std::string err;
            if (UMInitializeToEmptyMessage(&w, buf, len, m.what) != CB_NO_ERROR) oracleFail("micro: UMInitializeToEmptyMessage failed");
            else if (!buildMicro(m, &w, inl != 0, err)) oracleFail(std::string("micro: cannot build the Message through UMAdd* in a buffer of exactly its flattened size (") + (inl ? "inline" : "separate") + " sub-Messages): " + err);
            else
            {
               std::vector<uint8_t> out(UMGetFlattenedBuffer(&w), UMGetFlattenedBuffer(&w)+UMGetFlattenedSize(&w));
               if (out != B) oracleFail(std::string("micro: Message built through UMAdd* (") + (inl ? "inline" : "separate") + " sub-Messages) differs from the C++ bytes: " + diffAt(B, out) + " micro=" + clip(hexOf(out)) + " cpp=" + clip(hexOf(B)));
               cppAccepts("micro (built)", out, D);
            }
            free(buf);
         }
         // frame written by MicroMessageGateway.c (the Message is built in place behind the header), and read by it
         {
            std::vector<uint8_t> ib(len+8), ob(len+8);
            uint8_t * obuf = (uint8_t *)malloc(len+8); uint8_t * ibuf = (uint8_t *)malloc(len ? len : 1);
            UMessageGateway g; UGGatewayInitialize(&g, ibuf, len, obuf, len+8);
            UMessage w = UGGetOutgoingMessage(&g, m.what); std::string err;
            if (!UMIsMessageValid(&w)) oracleFail("micro: UGGetOutgoingMessage failed");
            else if (!buildMicro(m, &w, true, err)) oracleFail("micro: cannot build the Message inside the gateway's output buffer: " + err);
            else
            {
               UGOutgoingMessagePrepared(&g, &w);
               std::vector<uint8_t> fr;
               for (int i=0; (i<100000)&&(UGHasBytesToOutput(&g)); i++) if (UGDoOutput(&g, 1+(i%97), sendToVec, &fr) < 0) break;
               if (fr != F) oracleFail("micro: stream frame differs from the C++ gateway's: header " + hexOf(fr.data(), fr.size() < 8 ? fr.size() : 8) + " vs " + hexOf(F.data(), F.size() < 8 ? F.size() : 8) + ", " + diffAt(F, fr));
            }
            Feed fd = {&F, 0}; UMessage got; UMInitializeToInvalid(&got); bool have = false;
            for (int i=0; (i<100000)&&(!have)&&(fd.pos < F.size()); i++) {if (UGDoInput(&g, 1+(i%89), recvFromVec, &fd, &got) < 0) break; have = UMIsMessageValid(&got);}
            if (!have) oracleFail("micro: UGDoInput does not deliver the Message framed by the C++ gateway");
            else {const std::string d = dumpMicro(&got, len+1); if (d != D) oracleFail("micro: UGDoInput delivers different content: " + clip(d));}
            free(obuf); free(ibuf);
         }
      }

      // ---- Python
      if (!allUtf8(m)) nPySkipped++;
      else
      {
         nPy++;
         const std::string rep = py.request("msg " + hexOf(B));
         // reply: ok <hex> <size> <dump (contains spaces)>
         std::vector<std::string> t;
         {size_t p = 0; for (int k=0; k<3; k++) {const size_t q = rep.find(' ', p); if (q == std::string::npos) break; t.push_back(rep.substr(p, q-p)); p = q+1;} t.push_back(rep.substr(p));}
         std::string pb;
         if (rep.empty()) oracleFail("python: driver not available (python3 tools/pymsg_driver.py)");
         else if ((t.size() != 4)||(t[0] != "ok")||(!unhex(t[1], pb))) oracleFail("python: message.py fails on the C++ bytes (" + clip(rep) + "): " + clip(hexOf(B)));
         else
         {
            const std::vector<uint8_t> out(pb.begin(), pb.end());
            if (t[3] != D) oracleFail("python: content read from the C++ bytes differs: " + clip(t[3]) + " instead of " + clip(D));
            if (out != B) oracleFail("python: Flatten(Unflatten(bytes)) differs from the C++ bytes: " + diffAt(B, out) + " py=" + clip(t[1]) + " cpp=" + clip(hexOf(B)));
            if (t[2] != u64s(len)) oracleFail("python: FlattenedSize() = " + t[2] + " but the encoding has " + u64s(len) + " bytes");
            cppAccepts("python (re-flattened)", out, D);
            const std::string fr = py.request("frame " + hexOf(B));
            const std::vector<std::string> ft = split(fr);
            if ((ft.size() != 2)||(ft[0] != "ok")) oracleFail("python: framing failed (" + clip(fr) + ")");
            else if (ft[1] != hexOf(F)) oracleFail("python: stream frame of message_transceiver_thread.py differs from the C++ gateway's: header " + ft[1].substr(0, 17) + " vs " + hexOf(F.data(), F.size() < 8 ? F.size() : 8) + ((ft[1].substr(0, 17) == hexOf(F.data(), 8)) ? " (same header, body differs)" : ""));
         }
      }
      free(Bx);
   }

   virtual std::string step(const std::vector<std::string> & t)
   {
      const std::string r = MsgEngine::step(t);
      if ((!inGen)&&(t[0] == "flat")&&(t.size() == 2)&&(r.compare(0, 3, "ok ") == 0))
      {
         uint64_t a = 0; (void) toU64(t[1], a);
         const Message & m = regs[a];
         if (!hasOpaque(m))
         {
            std::vector<uint8_t> B(m.FlattenedSize()); m.FlattenToBytes(B.data());
            crossOracle(m, B);
         }
      }
      return r;
   }
};

int main(int argc, char ** argv) {XWireEngine e; return harnessMain(argc, argv, e);}
